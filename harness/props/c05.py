"""C05 — the model interface mirrors the callable's signature.

Lean side (Model/C05, Props/C05): dtype policy, output reconciliation, input binding + pruning with the
always-keep rule, parameter materialisation, positional-input resolution, custom renaming with its three
collision checks; theorems for ALL input lists / dtype codes / rename requests.

Tie T (regenerated every run into Gen/C05.lean, obligations in GenProps/C05.lean by decide +kernel):
  numpy_dtype_to_ir_with_float_policy on all numpy/ml_dtypes dtypes x {False, True};
  the Cast/keep decision of IRContext.add_outputs_from_vars on (JAX dtype, bound IR dtype, flag), driven in
  isolation; prune_unused_graph_inputs_ir's always-keep rule on a family of names (probe graphs).
Tie H: the real prune / _resolve_positional_inputs / _apply_custom_io_names_on_ir /
  _materialize_input_params_on_ir on generated graphs against the Lean driver; and generated programs x
  configurations through the real to_onnx: predicted inputs (names, types, dims, pruning) against the real
  ModelProto, plus the property oracle itself on every real export (count/order/class/width/rank/dims/names,
  ORT vs JAX per output for the order).
"""
from __future__ import annotations

import json
import re
import time
import warnings
from typing import Any, Optional

import numpy as np

warnings.filterwarnings("ignore")

import common
import c05_rw
from common import Check, LEAN, lean_bool, lean_list, lean_str, write_if_changed

META = {
    "ready": True,
    "level": "proof",
    "technique": "Lean 4 theorems about the interface model (dtype policy, output reconciliation, pruning, "
                 "renaming) + decide-checked equality of tables regenerated from the live code + correspondence "
                 "of the real helper functions and of real exports with the model",
    "level_text": "Kernel-checked: dtype_class_preserved, float_width_follows_flag, requested_width_kept, "
                  "reconcile_class_preserved, int_kept_or_int64 (all dtype codes), prune_keeps_positional (full strength, all "
                  "argument lists: no positional input is ever dropped or reordered, NCHW-flagged or not), "
                  "rename_exact_and_injective (all rename requests); run_outs / iface_preserved (every optimizer rewiring "
                  "history keeps count, order and, under the per-step guard, every declaration of the graph outputs), "
                  "rename_exact_and_injective_after_history, predicted_interface_describes_wrapped (declared dims of "
                  "outputs_as_nchw outputs are permuted like the values, on C12's adapter model). The live policy function, the live "
                  "Cast/keep decision and the live always-keep rule are tabulated each run and proved equal to "
                  "the reference (decide +kernel).",
    "level_note": "Trusted: Lean kernel + 3 axioms; the tabulating/probing harness. Outputs' order, count, "
                  "rank, static dims and the float width actually bound by the lowerings are checked on "
                  "generated programs x configurations (sampling), not proved. Names are structured in the model "
                  "(in_<i>, in_<i>_nchw, other); the string form is tied by tabulation. Known findings: custom names "
                  "on an output that aliases an input or another output raise / rename the input; complex result "
                  "with outputs_as_nchw loses the pair dimension; float16 unary results declared FLOAT. Fixed in "
                  "/repo dfda5c9: unused NCHW-flagged input dropped.",
    "design_ref": "DESIGN.md §3 C05",
}

MODS = ["J2O.Props.C05", "J2O.Props.C05Wrap", "J2O.GenProps.C05"]
POS_RE = re.compile(r"^in_(\d+)(_nchw)?$")


# ----------------------------------------------------------------------------- helpers


def name_json(s: Optional[str]) -> dict:
    m = POS_RE.fullmatch(s or "")
    if m:
        return {"k": "pos", "i": int(m.group(1)), "nchw": bool(m.group(2))}
    return {"k": "other", "s": s or ""}


def name_lean(s: str) -> str:
    m = POS_RE.fullmatch(s)
    if m:
        return f"(.pos {int(m.group(1))} {lean_bool(bool(m.group(2)))})"
    return f"(.other {lean_str(s)})"


def _ir():
    import onnx_ir as ir
    return ir


def np_dtypes() -> list:
    import ml_dtypes
    out = [np.bool_, np.int8, np.int16, np.int32, np.int64, np.uint8, np.uint16, np.uint32, np.uint64,
           np.float16, np.float32, np.float64, np.complex64, np.complex128, ml_dtypes.bfloat16]
    for n in ("float8_e4m3fn", "float8_e5m2", "int4", "uint4"):
        if hasattr(ml_dtypes, n):
            out.append(getattr(ml_dtypes, n))
    out.append(np.longdouble)
    return [np.dtype(d) for d in out]


def code_of(dt) -> Optional[int]:
    ir = _ir()
    try:
        return int(ir.DataType.from_numpy(np.dtype(dt)).value)
    except Exception:
        return None


JAX_CODES = [9, 3, 5, 6, 7, 2, 4, 12, 13, 10, 16, 1, 11, 14, 15]
CUR_CODES = [9, 3, 5, 6, 7, 2, 4, 12, 13, 10, 16, 1, 11]


class _Var:
    def __init__(self, aval):
        self.aval = aval

    def __hash__(self):
        return id(self)


def probe_output(jax_code: int, cur_code: int, flag: bool):
    """Drive IRContext.add_outputs_from_vars in isolation: declared code, Cast inserted?, rank delta."""
    import jax
    ir = _ir()
    from jax2onnx.converter.ir_context import IRContext
    ctx = IRContext(opset=23, enable_double_precision=flag)
    jdt = ir.DataType(jax_code).numpy()
    var = _Var(jax.core.ShapedArray((2, 3), jdt))
    val = ir.Value(name="v", type=ir.TensorType(ir.DataType(cur_code)), shape=ir.Shape((2, 3)))
    ctx.bind_value_for_var_without_origins(var, val)
    ctx.add_outputs_from_vars([var])
    out = ctx.builder.outputs[-1]
    return int(out.type.dtype.value), out is not val, len(out.shape) - 2


def probe_keep(name: str) -> bool:
    """prune_unused_graph_inputs_ir on a graph whose first input `name` is unused."""
    ir = _ir()
    import jax2onnx.converter.ir_optimizations as opt
    F = ir.TensorType(ir.DataType.FLOAT)
    x = ir.Value(name=name, type=F, shape=ir.Shape((1,)))
    y = ir.Value(name="used_input", type=F, shape=ir.Shape((1,)))
    o = ir.Value(name="o", type=F, shape=ir.Shape((1,)))
    n = ir.Node(op_type="Identity", domain="", inputs=[y], outputs=[o], name="n")
    g = ir.Graph(name="g", inputs=[x, y], outputs=[o], nodes=[n], opset_imports={"": 23})
    opt.prune_unused_graph_inputs_ir(g)
    return any(v is x for v in g.inputs)


KEEP_NAMES = ["in_0", "in_1", "in_7", "in_12", "in_123456", "in_0_nchw", "in_3_nchw", "in_12_nchw", "in_",
              "in_x", "in_-1", "in_1_nhwc", "in_0_nhwc_restored", "in_1_nchw_", "in_0_NCHW", "x", "", "deterministic",
              "out_0", "IN_0", " in_0", "in_0 ", "in__0", "in_1.0", "in_0_", "input_0", "training", "in_0x1"]


# ----------------------------------------------------------------------------- tables


def tabulate() -> dict:
    from jax2onnx.ir_utils import numpy_dtype_to_ir_with_float_policy as pol
    policy, no_code = [], []
    for dt in np_dtypes():
        src = code_of(dt)
        for flag in (False, True):
            try:
                out = int(pol(dt, flag).value)
            except Exception as e:
                out = None
            if src is None:
                no_code.append({"dtype": dt.name, "flag": flag, "out": out})
            else:
                policy.append((src, flag, out if out is not None else 0))
    outs = []
    for j in JAX_CODES:
        for c in CUR_CODES:
            for flag in (False, True):
                try:
                    d, cast, dr = probe_output(j, c, flag)
                except Exception as e:
                    d, cast, dr = 0, False, 0
                outs.append((j, c, flag, d, cast, dr))
    keep = [(n, bool(probe_keep(n))) for n in KEEP_NAMES]
    return {"policy": policy, "no_code": no_code, "out": outs, "keep": keep}


def generate(tabs: Optional[dict] = None) -> dict:
    tabs = tabs or tabulate()
    pol = [f"({s}, {lean_bool(f)}, {o})" for (s, f, o) in tabs["policy"]]
    out = [f"({j}, {c}, {lean_bool(f)}, {d}, {lean_bool(k)}, {r})" for (j, c, f, d, k, r) in tabs["out"]]
    keep = [f"({name_lean(n)}, {lean_bool(k)})" for (n, k) in tabs["keep"]]
    src = f"""/- GENERATED by harness/props/c05.py from /repo on every run — do not edit. -/
import J2O.Model.C05
namespace J2O.Gen.C05
open J2O.C05

/-- (ONNX code of the numpy dtype, enable_double_precision, code returned by the live
    `numpy_dtype_to_ir_with_float_policy`; 0 = raised) -/
def policyTable : List (Nat × Bool × Nat) := {lean_list(pol, 6)}

/-- (JAX dtype code, IR dtype code of the bound value, flag, declared code, Cast inserted,
    rank added) observed by driving `IRContext.add_outputs_from_vars` in isolation -/
def outTable : List (Nat × Nat × Bool × Nat × Bool × Nat) := {lean_list(out, 4)}

/-- (name of an unused graph input, kept by the live `prune_unused_graph_inputs_ir`?) -/
def keepTable : List (Name × Bool) := {lean_list(keep, 3)}

end J2O.Gen.C05
"""
    write_if_changed(LEAN / "J2O/Gen/C05.lean", src)
    return tabs


class Batch:
    """All driver requests of a run go through ONE `lean --run` invocation (start-up and the project lock
    are paid once); each request carries the function that judges its answer."""

    def __init__(self):
        self.lines: list[str] = []
        self.judges: list = []

    def add(self, line: str, judge) -> None:
        self.lines.append(line)
        self.judges.append(judge)

    def run(self) -> list:
        bad = []
        ans = common.run_driver("C05", self.lines) if self.lines else []
        for a, j in zip(ans, self.judges):
            r = j(a)
            if r:
                bad.append(r)
        return bad


# ----------------------------------------------------------------------------- H: helper functions


NAME_POOL = ["in_0", "in_1", "in_2", "in_0_nchw", "in_1_nchw", "a", "b", "t0", "t1", "out_0", "x", "flag", "w"]


def _mk_graph(rng: common.Rng, n_in: int, n_nodes: int, in_names: list[str]):
    """Small Identity/Add graph with the given input names; returns (graph, inputs, node outputs)."""
    ir = _ir()
    F = ir.TensorType(ir.DataType.FLOAT)
    ins = [ir.Value(name=nm, type=F, shape=ir.Shape((2,))) for nm in in_names[:n_in]]
    vals = list(ins)
    nodes, outs = [], []
    for k in range(n_nodes):
        src = rng.choice(vals)
        o = ir.Value(name=f"t{k}", type=F, shape=ir.Shape((2,)))
        nodes.append(ir.Node(op_type="Identity", domain="", inputs=[src], outputs=[o], name=f"n{k}"))
        vals.append(o)
        outs.append(o)
    return ins, nodes, outs


def corr_prune(chk: Check, rng: common.Rng, n: int, batch: Batch) -> None:
    ir = _ir()
    import jax2onnx.converter.ir_optimizations as opt
    lines, cases = [], []
    for _ in range(n):
        k = rng.randint(1, 5)
        names = [rng.choice(NAME_POOL[:9] + ["", "deterministic"]) for _ in range(k)]
        # distinct value objects may share a pattern but ONNX names must differ: make them unique
        seen, uniq = set(), []
        for nm in names:
            while nm in seen:
                nm = nm + "_" if nm else "z"
            seen.add(nm)
            uniq.append(nm)
        ins, nodes, outs = _mk_graph(rng, k, rng.randint(1, 3), uniq)
        if not outs:
            continue
        g = ir.Graph(name="g", inputs=list(ins), outputs=[outs[-1]] + ([rng.choice(ins)] if rng.chance(0.2) else []),
                     nodes=nodes, opset_imports={"": 23})
        used = [bool(v.uses()) or v.is_graph_output() for v in ins]
        opt.prune_unused_graph_inputs_ir(g)
        kept = [i for i, v in enumerate(ins) if any(v is w for w in g.inputs)]
        order_ok = [v for v in g.inputs] == [ins[i] for i in kept]
        lines.append(json.dumps({"op": "prune", "ins": [{"name": name_json(nm), "used": u}
                                                        for nm, u in zip(uniq, used)]}))
        cases.append({"names": uniq, "used": used, "kept": kept, "order_ok": order_ok})
    def judge(c, a):
        chk.count({"op": "prune", **c}, nontrivial=not all(c["used"]))
        if json.loads(a) != c["kept"] or not c["order_ok"]:
            return ({"op": "prune", "case": c, "model": a})
        return None

    for ln, c in zip(lines, cases):
        batch.add(ln, (lambda a, c=c: judge(c, a)))
    chk.add("traces_validated_against_impl", len(lines))


def corr_resolve(chk: Check, rng: common.Rng, n: int, batch: Batch) -> None:
    ir = _ir()
    import jax2onnx.user_interface as ui
    lines, cases = [], []
    for _ in range(n):
        k = rng.randint(0, 4)
        pool = ["in_0", "in_1", "in_2", "in_3", "in_0_nchw", "in_1_nchw", "in_2_nchw", "flag", "a", "in_x"]
        names = rng.sample(pool, k)
        ins, nodes, outs = _mk_graph(rng, k, 1, names) if k else ([], [], [])
        g = ir.Graph(name="g", inputs=list(ins), outputs=list(outs[-1:]), nodes=nodes, opset_imports={"": 23})
        npos = rng.randint(0, 4)
        try:
            got = ui._resolve_positional_inputs(g, npos)
            real = {"ok": [next(i for i, v in enumerate(ins) if v is w) for w in got]}
        except ValueError as e:
            real = {"err": "positional inputs were pruned"} if "pruned" in str(e) else {"err": str(e)}
        lines.append(json.dumps({"op": "resolve", "ins": [name_json(x) for x in names], "n": npos}))
        cases.append({"names": names, "n": npos, "real": real})
    def judge(c, a):
        chk.count({"op": "resolve", **c}, nontrivial=c["n"] > 0)
        if json.loads(a) != c["real"]:
            return ({"op": "resolve", "case": c, "model": a})
        return None

    for ln, c in zip(lines, cases):
        batch.add(ln, (lambda a, c=c: judge(c, a)))
    chk.add("traces_validated_against_impl", len(lines))


def _err_class(msg: str) -> str:
    if "Conflicting custom names" in msg:
        return "conflicting custom names for one value"
    if "globally unique" in msg:
        return "custom names must be globally unique"
    if "collide with existing" in msg:
        return "custom names collide with existing names"
    if "pruned" in msg:
        return "positional inputs were pruned"
    if "length" in msg:
        return "length mismatch"
    return msg


def corr_rename(chk: Check, rng: common.Rng, n: int, batch: Batch) -> None:
    """The real _apply_custom_io_names_on_ir on generated models against Lean `rename` (pairs are built
    the way the real function builds them: resolved positional inputs, then outputs)."""
    ir = _ir()
    import irtools
    import jax2onnx.user_interface as ui
    lines, cases = [], []
    tgt_pool = ["x", "y", "z", "t0", "t1", "in_0", "in_1", "o", "flag"]
    for _ in range(n):
        k = rng.randint(1, 3)
        in_names = [f"in_{i}" + ("_nchw" if rng.chance(0.2) else "") for i in range(k)]
        if rng.chance(0.15):
            in_names.append("flag")
        ins, nodes, outs = _mk_graph(rng, len(in_names), rng.randint(1, 3), in_names)
        n_out = rng.randint(1, 3)
        gout = [rng.choice(outs + (ins[:1] if rng.chance(0.3) else [])) for _ in range(n_out)]
        g = ir.Graph(name="g", inputs=list(ins), outputs=gout, nodes=nodes, opset_imports={"": 23})
        model = irtools.make_model(g)
        in_req = [rng.choice(tgt_pool) for _ in range(k)] if rng.chance(0.7) else None
        out_req = [rng.choice(tgt_pool) for _ in range(n_out)] if rng.chance(0.7) else None
        vmap = ui._top_graph_value_map(g)
        vals_before = [(id(v), nm) for nm, v in vmap.items()]
        idx = {vid: i for i, (vid, _) in enumerate(vals_before)}
        pairs = []
        if in_req is not None:
            pos = ui._resolve_positional_inputs(g, k)
            pairs += [(idx[id(v)], t) for v, t in zip(pos, in_req)]
        if out_req is not None:
            pairs += [(idx[id(v)], t) for v, t in zip(gout, out_req)]
        objs = [v for _, v in vmap.items()]
        try:
            ui._apply_custom_io_names_on_ir(model, input_names=in_req, output_names=out_req,
                                            positional_input_count=k)
            real = {"ok": [v.name for v in objs]}
        except ValueError as e:
            real = {"err": _err_class(str(e))}
        if not in_req and not out_req:
            real = {"ok": [nm for _, nm in vals_before]}
        lines.append(json.dumps({"op": "rename", "vals": [[idx[vid], nm] for vid, nm in vals_before],
                                 "pairs": [[i, t] for i, t in pairs]}))
        cases.append({"inputs": in_names, "outputs": [v.name for v in gout] if "ok" not in real else None,
                      "input_names": in_req, "output_names": out_req, "real": real})
    def judge(c, a):
        chk.count({"op": "rename", **c}, nontrivial=bool(c["input_names"] or c["output_names"]))
        if json.loads(a) != c["real"]:
            return ({"op": "rename", "case": c, "model": a})
        elif "ok" in c["real"] and (c["input_names"] or c["output_names"]):
            # the theorem's conclusion observed on the real result: all top-graph names distinct
            if len(set(c["real"]["ok"])) != len(c["real"]["ok"]):
                return ({"op": "rename", "case": c, "why": "real result has colliding names"})
        return None

    for ln, c in zip(lines, cases):
        batch.add(ln, (lambda a, c=c: judge(c, a)))
    chk.add("traces_validated_against_impl", len(lines))


def corr_materialize(chk: Check, rng: common.Rng, n: int, batch: Batch) -> None:
    ir = _ir()
    import irtools
    import jax2onnx.user_interface as ui
    lines, cases = [], []
    for _ in range(n):
        k = rng.randint(1, 2)
        in_names = [f"in_{i}" for i in range(k)]
        F = ir.TensorType(ir.DataType.FLOAT)
        ins = [ir.Value(name=nm, type=F, shape=ir.Shape((2,))) for nm in in_names]
        # free values referenced by nodes but not (yet) graph inputs, and an initializer
        free = [ir.Value(name=nm, type=ir.TensorType(ir.DataType.BOOL), shape=ir.Shape(())) for nm in ("flag", "det")]
        w = irtools.const_val("w", np.ones((2,), np.float32))
        nodes, outs = [], []
        srcs = ins + [w] + [f for f in free if rng.chance(0.6)]
        for j, s in enumerate(srcs):
            o = ir.Value(name=f"t{j}", type=F, shape=ir.Shape((2,)))
            nodes.append(ir.Node(op_type="Identity", domain="", inputs=[s], outputs=[o], name=f"n{j}"))
            outs.append(o)
        g = ir.Graph(name="g", inputs=list(ins), outputs=outs[-1:], nodes=nodes, initializers=[w],
                     opset_imports={"": 23})
        model = irtools.make_model(g)
        params = rng.sample(["flag", "det", "w", "in_0", "unknown", ""], rng.randint(0, 4))
        refs = sorted({v.name for nd in g for v in nd.inputs if v is not None and v.name} |
                      {v.name for v in g.outputs})
        ui._materialize_input_params_on_ir(model, {p: True for p in params})
        real = [v.name for v in g.inputs]
        lines.append(json.dumps({"op": "materialize", "inputs": in_names, "inits": ["w"],
                                 "refs": refs, "params": params}))
        cases.append({"inputs": in_names, "params": params, "refs": refs, "real": real})
    def judge(c, a):
        chk.count({"op": "materialize", **c}, nontrivial=len(c["real"]) > len(c["inputs"]))
        if json.loads(a) != c["real"]:
            return ({"op": "materialize", "case": c, "model": a})
        return None

    for ln, c in zip(lines, cases):
        batch.add(ln, (lambda a, c=c: judge(c, a)))
    chk.add("traces_validated_against_impl", len(lines))


# ----------------------------------------------------------------------------- H: programs x configurations


IN_KINDS = ["img", "img", "vec", "mat", "sym", "sym3", "int", "bool", "f16"]


def _input_spec(kind: str):
    import jax
    import jax.numpy as jnp
    S = jax.ShapeDtypeStruct
    return {"img": (2, 4, 5, 3), "vec": (3,), "mat": (2, 3), "sym": ("B", 4), "sym3": ("B", 3, "C"),
            "int": S((3,), jnp.int32), "bool": S((2,), jnp.bool_), "f16": S((3,), jnp.float16),
            # image-like inputs of the rewritten-output family: the four extents differ pairwise
            "imgs": ("B", 4, 5, 3), "imgb": S((2, 4, 5, 3), jnp.bool_), "chw": (2, 3, 4, 5), "img7": (1, 6, 7, 2)}[kind]


def _cls(kind: str) -> str:
    return {"int": "i", "bool": "b", "imgb": "b"}.get(kind, "f")


LEAF_OPS = {
    "f": ["scale", "sum", "cmp", "cast_i32", "cast_i8", "cast_f16", "cast_f32", "cast_i64", "complex", "input",
          "neg_t"],
    "i": ["scale", "sum", "cmp", "cast_f32", "cast_i8", "cast_i64", "input"],
    "b": ["scale", "sum", "cast_i32", "input"],
}


def _leaf(op: str, cls: str, x):
    import jax.numpy as jnp
    if op == "scale":
        return {"f": lambda: x * 2, "i": lambda: x + 1, "b": lambda: ~x}[cls]()
    if op == "sum":
        return x.any() if cls == "b" else x.sum()
    if op == "cmp":
        return x > 0
    if op == "neg_t":
        return -x
    if op == "complex":
        return x + 1j * x
    if op == "input":
        return x
    return x.astype({"cast_i32": jnp.int32, "cast_i8": jnp.int8, "cast_f16": jnp.float16,
                     "cast_f32": jnp.float32, "cast_i64": jnp.int64}[op])


def gen_program(rng: common.Rng) -> dict:
    n_in = rng.randint(1, 3)
    kinds = [rng.choice(IN_KINDS) for _ in range(n_in)]
    used = [rng.chance(0.7) for _ in range(n_in)]
    if not any(used) and rng.chance(0.8):
        used[rng.randint(0, n_in - 1)] = True
    leaves = []
    for _ in range(rng.randint(1, 4)):
        r = rng.randint(0, 99)
        cand = [i for i in range(n_in) if used[i]]
        if r < 8 or not cand:
            leaves.append({"op": rng.choice(["const_arr", "const_scalar", "const_int"])})
        elif r < 16 and leaves:
            leaves.append({"op": "dup", "of": rng.randint(0, len(leaves) - 1)})
        else:
            i = rng.choice(cand)
            leaves.append({"op": rng.choice(LEAF_OPS[_cls(kinds[i])]), "arg": i})
    tree = rng.choice(["tuple", "list", "dict", "nested", "single"]) if len(leaves) > 1 else rng.choice(["single", "tuple"])
    if tree == "single":
        leaves = leaves[:1]
        if leaves[0]["op"] == "dup":
            leaves[0] = {"op": "const_arr"}
    # inputs only count as used if some returned leaf reads them
    for i in range(n_in):
        used[i] = any(l.get("arg") == i for l in leaves)
    return {"kinds": kinds, "used": used, "leaves": leaves, "tree": tree}


def build_fn(prog: dict):
    import jax.numpy as jnp
    kinds, leaves, tree = prog["kinds"], prog["leaves"], prog["tree"]

    def fn(*xs):
        vals = []
        for l in leaves:
            if l["op"] == "const_arr":
                vals.append(jnp.full((2,), 3.0))
            elif l["op"] == "const_scalar":
                vals.append(1.5)
            elif l["op"] == "const_int":
                vals.append(jnp.arange(3))
            elif l["op"] == "dup":
                vals.append(vals[l["of"]])
            elif l["op"] == "chain":
                vals.append(c05_rw.apply_chain(l, xs[l["arg"]]))
            else:
                vals.append(_leaf(l["op"], _cls(kinds[l["arg"]]), xs[l["arg"]]))
        if tree == "single":
            return vals[0]
        if tree == "tuple":
            return tuple(vals)
        if tree == "list":
            return list(vals)
        if tree == "dict":
            return {f"k{len(vals) - i}": v for i, v in enumerate(vals)}
        return {"a": (vals[0], [vals[1:]]), "b": ()}

    return fn


def gen_config(rng: common.Rng, prog: dict, out_ranks: list[int]) -> dict:
    n_in, n_out = len(prog["kinds"]), len(out_ranks)
    cfg: dict = {"double": rng.chance(0.4)}
    nchw_in = [i for i, k in enumerate(prog["kinds"]) if k == "img" and rng.chance(0.5)]
    nchw_out = [j for j, r in enumerate(out_ranks) if r == 4 and rng.chance(0.35)]
    if nchw_in:
        cfg["inputs_as_nchw"] = nchw_in
    if nchw_out:
        cfg["outputs_as_nchw"] = nchw_out
    r = rng.randint(0, 99)
    if r < 35:
        cfg["input_names"] = [f"arg_{chr(97 + i)}" for i in range(n_in)]
    elif r < 42:
        cfg["input_names"] = [f"arg_{chr(97 + i)}" for i in range(n_in)][::-1]
    elif r < 47:
        cfg["input_names"] = ["same"] * n_in if n_in > 1 else ["arg_a", "extra"]
        cfg["invalid"] = "input_names duplicate or wrong length"
    r = rng.randint(0, 99)
    if r < 35:
        cfg["output_names"] = [f"res_{j}" for j in range(n_out)]
    elif r < 40:
        cfg["output_names"] = [f"res_{j}" for j in range(n_out + 1)]
        cfg["invalid"] = "output_names wrong length"
    elif r < 45 and cfg.get("input_names") and "invalid" not in cfg and \
            all(l["op"] in ("scale", "sum", "cmp", "neg_t", "cast_i32") for l in prog["leaves"]):
        cfg["output_names"] = [cfg["input_names"][0]] + [f"res_{j}" for j in range(1, n_out)]
        cfg["invalid"] = "output name equals an input name"
    elif r < 49 and "input_names" not in cfg:
        # collides with the converter's own input name unless that value is itself renamed: refusal or a
        # consistent result are both fine
        cfg["output_names"] = ["in_0"] + [f"res_{j}" for j in range(1, n_out)]
        cfg["may_be_refused"] = True
    return cfg


def _vi(v) -> dict:
    t = v.type.tensor_type
    return {"name": v.name, "elem": int(t.elem_type),
            "dims": [(d.dim_param if d.HasField("dim_param") else int(d.dim_value)) if
                     (d.HasField("dim_param") or d.HasField("dim_value")) else None for d in t.shape.dim]}


def _x64(flag: bool):
    import jax
    return jax.enable_x64(flag) if hasattr(jax, "enable_x64") else jax.experimental.enable_x64(flag)


def expected_interface(prog: dict, cfg: dict):
    """jax.eval_shape of the callable under the precision mode of the export."""
    import jax
    import jax.numpy as jnp
    from jax import export as jex
    fn = build_fn(prog)
    with _x64(cfg["double"]):
        scope = jex.SymbolicScope()
        sym = {}
        sds = []
        for k in prog["kinds"]:
            spec = _input_spec(k)
            if isinstance(spec, tuple):
                dims = tuple(sym.setdefault(d, jex.symbolic_shape(d, scope=scope)[0]) if isinstance(d, str) else d
                             for d in spec)
                sds.append(jax.ShapeDtypeStruct(dims, jnp.float64 if cfg["double"] else jnp.float32))
            else:
                sds.append(spec)
        out = jax.eval_shape(fn, *sds)
        leaves = jax.tree_util.tree_leaves(out)
        exp_out = [{"dtype": np.dtype(l.dtype), "dims": [d if isinstance(d, int) else str(d) for d in l.shape]}
                   for l in leaves]
        exp_in = [{"dtype": np.dtype(s.dtype), "dims": [d if isinstance(d, int) else str(d) for d in s.shape]}
                  for s in sds]
    return exp_in, exp_out


def oracle(prog: dict, cfg: dict, exp_in, exp_out, model) -> list[dict]:
    """The property itself on the real ModelProto. Returns the list of deviations."""
    ir = _ir()
    dev = []
    gin = [_vi(v) for v in model.graph.input]
    gout = [_vi(v) for v in model.graph.output]
    n_in = len(exp_in)
    nchw_in = set(cfg.get("inputs_as_nchw", []))
    nchw_out = set(cfg.get("outputs_as_nchw", []))
    # -- inputs: one per positional argument, in order
    if len(gin) != n_in:
        custom = cfg.get("input_names") or [None] * n_in
        matched: set = set()
        unknown = 0
        for g in gin:
            hit = [i for i in range(n_in) if g["name"] in (f"in_{i}", f"in_{i}_nchw", custom[i])]
            if hit:
                matched.add(hit[0])
            else:
                unknown += 1          # e.g. an input renamed through an aliased output
        free_used = [i for i in range(n_in) if i not in matched and prog["used"][i]]
        matched.update(free_used[:unknown])
        missing = [i for i in range(n_in) if i not in matched]
        dev.append({"kind": "input_count", "expected": n_in, "got": [g["name"] for g in gin],
                    "dropped": missing, "dropped_are_nchw_flagged": all(i in nchw_in for i in missing),
                    "dropped_are_unused": all(not prog["used"][i] for i in missing)})
    else:
        for i, (g, e) in enumerate(zip(gin, exp_in)):
            want_name = cfg["input_names"][i] if cfg.get("input_names") else (f"in_{i}_nchw" if i in nchw_in else f"in_{i}")
            if g["name"] != want_name:
                dev.append({"kind": "input_name", "index": i, "expected": want_name, "got": g["name"]})
            dims = list(e["dims"])
            if i in nchw_in:
                dims = [dims[0], dims[3], dims[1], dims[2]]
            if g["dims"] != dims:
                dev.append({"kind": "input_shape", "index": i, "expected": dims, "got": g["dims"]})
            want = code_of(e["dtype"])
            if g["elem"] != want:
                dev.append({"kind": "input_dtype", "index": i, "expected": want, "got": g["elem"]})
    # -- outputs: one per leaf, in order
    if len(gout) != len(exp_out):
        dev.append({"kind": "output_count", "expected": len(exp_out), "got": len(gout)})
        return dev
    for j, (g, e) in enumerate(zip(gout, exp_out)):
        jc = code_of(e["dtype"])
        kind = e["dtype"].kind
        dims = list(e["dims"])
        if j in nchw_out:
            dims = [dims[0], dims[3], dims[1], dims[2]]
        if kind == "c":
            dims = dims + [2]
            ok = g["elem"] in ((11,) if e["dtype"] == np.complex128 else (1, 11) if cfg["double"] else (1,))
        elif kind == "b":
            ok = g["elem"] == 9
        elif kind in "iu":
            ok = g["elem"] in (jc, 7)
        else:
            # width: the flag's width for float32, the requested width otherwise; an explicit float32 request
            # under the double flag may stay FLOAT
            ok = g["elem"] in ((1, 11) if (jc == 1 and cfg["double"]) else (jc,))
        if not ok:
            dev.append({"kind": "output_dtype", "index": j, "jax": e["dtype"].name, "declared": g["elem"]})
        if len(g["dims"]) != len(dims):
            dev.append({"kind": "output_rank", "index": j, "expected": dims, "got": g["dims"]})
        else:
            for a, b in zip(g["dims"], dims):
                if isinstance(b, int) and isinstance(a, int) and a != b:
                    dev.append({"kind": "output_static_dim", "index": j, "expected": dims, "got": g["dims"]})
                    break
                # a dimension that is symbolic in the callable's signature is not declared with a fixed extent, and a
                # plain symbol (an input's symbol, not a derived expression) keeps its name when it is named at all
                if isinstance(b, str) and isinstance(a, int):
                    dev.append({"kind": "output_symbolic_dim", "index": j, "expected": dims, "got": g["dims"]})
                    break
                if isinstance(b, str) and b.isidentifier() and isinstance(a, str) and a.isidentifier() and a != b:
                    dev.append({"kind": "output_symbolic_dim", "index": j, "expected": dims, "got": g["dims"]})
                    break
        if cfg.get("output_names") and g["name"] != cfg["output_names"][j]:
            dev.append({"kind": "output_name", "index": j, "expected": cfg["output_names"][j], "got": g["name"]})
    names = [g["name"] for g in gin] + [g["name"] for g in gout]
    # user-supplied names never end up on two different values.  (Without output_names an output that IS an
    # input, or the same value returned twice, legitimately repeats a name: it is one value.)
    in_names = [g["name"] for g in gin]
    if len(set(in_names)) != len(in_names):
        dev.append({"kind": "name_collision", "names": names})
    elif cfg.get("output_names") and len(set(names)) != len(names):
        dev.append({"kind": "name_collision", "names": names})
    if any(not g["name"] for g in gin + gout):
        dev.append({"kind": "empty_name", "names": names})
    return dev


def run_values(prog: dict, cfg: dict, exp_in, model, rng: common.Rng) -> Optional[dict]:
    """ORT vs JAX per output: the order of the outputs (and what they are)."""
    import jax
    import irtools
    fn = build_fn(prog)
    feeds, args = {}, []
    nchw_in = set(cfg.get("inputs_as_nchw", []))
    gin = list(model.graph.input)
    if len(gin) != len(exp_in):
        return None
    g = np.random.default_rng(rng.randint(0, 2 ** 31))
    for i, (e, v) in enumerate(zip(exp_in, gin)):
        shape = [3 if isinstance(d, str) and d == "B" else 2 if isinstance(d, str) else d for d in e["dims"]]
        dt = e["dtype"]
        a = (g.standard_normal(shape) + 0.3).astype(dt) if dt.kind == "f" else \
            g.integers(-3, 4, size=shape).astype(dt) if dt.kind in "iu" else (g.random(shape) > 0.5)
        args.append(a)
        feeds[v.name] = np.transpose(a, (0, 3, 1, 2)) if i in nchw_in else a
    try:
        got = irtools.run_ort(model, feeds)
    except Exception as e:
        return {"kind": "ort_failed", "error": str(e)[:200]}
    with _x64(cfg["double"]):
        want = [np.asarray(l) for l in jax.tree_util.tree_leaves(fn(*args))]
    nchw_out = set(cfg.get("outputs_as_nchw", []))
    for j, (a, b) in enumerate(zip(got, want)):
        if j in nchw_out:
            b = np.transpose(b, (0, 3, 1, 2))
        if b.dtype.kind == "c":
            b = np.stack([b.real, b.imag], axis=-1)
        a = np.asarray(a)
        # an integer result downstream of a float computation (…→ Tanh → Cast) may differ by one unit where the two
        # runtimes round the float differently just below an integer; values are C01's subject, not the interface's
        atol = 1.0 if a.dtype.kind in "iu" else 1e-3
        if a.shape != b.shape or not np.allclose(a.astype(np.float64), b.astype(np.float64), rtol=2e-2, atol=atol,
                                                  equal_nan=True):
            return {"kind": "output_value", "index": j, "ort": a.reshape(-1)[:5].tolist(),
                    "jax": b.reshape(-1)[:5].tolist(), "ort_shape": list(a.shape), "jax_shape": list(b.shape)}
    return None


def _dims_compatible(pred: list, got: list) -> bool:
    """Predicted dims (strings from the Lean model) vs declared dims: equal rank, static extents equal, a symbolic
    dimension never fixed, a plain symbol keeps its name when it is named."""
    if got == ["?"]:
        return True
    if len(pred) != len(got):
        return False
    for p_, g in zip(pred, got):
        if p_.isdigit():
            if g.isdigit() and g != p_:
                return False
        elif g.isdigit():
            return False
        elif p_.isidentifier() and g.isidentifier() and p_ != g:
            return False
    return True


def _leaf_of_output(prog: dict, j) -> dict:
    leaves = prog["leaves"]
    if prog["tree"] == "dict":
        leaves = list(reversed(leaves))
    l = leaves[j] if isinstance(j, int) and j < len(leaves) else {"op": "?"}
    while l.get("op") == "dup":
        l = prog["leaves"][l["of"]]
    return l


def _int_minmax(prog: dict, j) -> Optional[str]:
    l = _leaf_of_output(prog, j)
    if l.get("op") != "chain":
        return None
    return c05_rw.culprit_int_minmax(prog["kinds"][l["arg"]], l["ops"])


def _leaf_op_of_output(prog: dict, j: int) -> str:
    leaves = prog["leaves"]
    if prog["tree"] == "dict":        # tree_leaves of a dict come in key order: k1 < k2 < ... = reversed
        leaves = list(reversed(leaves))
    l = leaves[j] if j < len(leaves) else {"op": "?"}
    while l.get("op") == "dup":
        l = prog["leaves"][l["of"]]
    return l.get("op", "?")


def classify_failure(prog: dict, cfg: dict, err: Exception) -> dict:
    """A raise on a VALID configuration: which known pattern is it?"""
    msg = str(err)
    nchw_in = set(cfg.get("inputs_as_nchw", []))
    unused_nchw = [i for i in nchw_in if not prog["used"][i]]
    if "positional inputs were pruned" in msg or ("does not match positional graph inputs" in msg and unused_nchw):
        return {"kind": "names_after_nchw_input_dropped", "unused_nchw_inputs": bool(unused_nchw)}
    if "Conflicting custom names for one value" in msg:
        m = re.search(r"'([^']*)' vs '([^']*)'", msg)
        ins = set(cfg.get("input_names") or [])
        alias = "input_and_output" if m and (m.group(1) in ins or m.group(2) in ins) else "two_outputs"
        return {"kind": "names_on_aliased_value", "alias": alias}
    return {"kind": "raise_on_valid_config", "error": f"{type(err).__name__}: {msg[:160]}"}


def _p(kinds, used, leaves, tree="tuple"):
    return {"kinds": kinds, "used": used, "leaves": leaves, "tree": tree}


def directed_cases() -> list:
    """Seed-independent cases: the replayed defects and the behaviours a breaking change would touch."""
    L = lambda op, arg=None, **k: ({"op": op, "arg": arg, **k} if arg is not None else {"op": op, **k})
    return [
        # unused NCHW-flagged input must stay (was dropped before /repo dfda5c9) / the same with input_names
        (_p(["img", "vec"], [False, True], [L("scale", 1)], "single"), {"inputs_as_nchw": [0]}),
        (_p(["img", "vec"], [False, True], [L("scale", 1)], "single"),
         {"inputs_as_nchw": [0], "input_names": ["image", "vec"]}),
        # unused plain inputs must stay, in order, with and without names
        (_p(["vec", "mat", "int"], [False, True, False], [L("scale", 1)], "single"), {}),
        (_p(["vec", "mat", "int"], [False, True, False], [L("scale", 1)], "single"),
         {"input_names": ["arg_a", "arg_b", "arg_c"], "output_names": ["res_0"]}),
        (_p(["vec", "vec"], [False, False], [L("const_arr")], "single"), {}),
        # more than ten positional arguments (two-digit indices), the late ones unused
        (_p(["vec"] * 12, [True] + [False] * 11, [L("scale", 0)], "single"), {}),
        (_p(["vec"] * 11 + ["img"], [False] * 10 + [True, False], [L("scale", 10)], "single"), {"inputs_as_nchw": [11]}),
        # used NCHW input and output
        (_p(["img", "vec"], [True, True], [L("scale", 0), L("scale", 1)]),
         {"inputs_as_nchw": [0], "outputs_as_nchw": [0], "double": True}),
        # names on aliased values (known: raise)
        (_p(["vec"], [True], [L("input", 0)], "single"), {"input_names": ["arg_a"], "output_names": ["res_0"]}),
        (_p(["vec"], [True], [L("scale", 0), L("dup", of=0)]), {"output_names": ["res_0", "res_1"]}),
        (_p(["vec"], [True], [L("input", 0), L("scale", 0)]), {"output_names": ["res_0", "res_1"]}),
        # complex result with the NCHW output flag (known: trailing pair dimension lost)
        (_p(["img"], [True], [L("complex", 0)], "single"), {"outputs_as_nchw": [0]}),
        # float16 result of a unary op (known: declared FLOAT)
        (_p(["f16"], [True], [L("neg_t", 0)], "single"), {}),
        # all result classes, both precisions, nested result
        (_p(["vec", "int", "bool"], [True, True, True],
            [L("cmp", 0), L("cast_i32", 0), L("cast_i8", 0), L("complex", 0), L("cast_f16", 0), L("scale", 1),
             L("cast_i64", 1), L("scale", 2), L("sum", 0)], "nested"), {}),
        (_p(["vec", "int", "bool"], [True, True, True],
            [L("cmp", 0), L("cast_i32", 0), L("cast_i64", 0), L("complex", 0), L("cast_f16", 0), L("cast_f32", 0),
             L("scale", 1), L("cast_i64", 1), L("scale", 2), L("sum", 0)], "dict"), {"double": True}),
        # symbolic dimensions keep their names on inputs
        (_p(["sym", "sym3"], [True, True], [L("scale", 0), L("sum", 1)]),
         {"input_names": ["arg_a", "arg_b"], "output_names": ["res_0", "res_1"]}),
        # invalid naming must be refused loudly
        (_p(["vec", "vec"], [True, True], [L("scale", 0), L("scale", 1)]),
         {"input_names": ["same", "same"], "invalid": "duplicate input_names"}),
        (_p(["vec", "vec"], [True, True], [L("scale", 0), L("scale", 1)]),
         {"input_names": ["arg_a", "arg_b"], "output_names": ["arg_a", "res_1"], "invalid": "output name equals an input name"}),
        (_p(["vec", "vec"], [True, True], [L("scale", 0), L("scale", 1)]),
         {"output_names": ["in_1", "res_1"], "invalid": "output name collides with a converter input name"}),
        (_p(["vec"], [True], [L("scale", 0), L("sum", 0)]),
         {"output_names": ["res_0"], "invalid": "output_names wrong length"}),
    ]


def _work_items(rng: common.Rng, n: int, n_rw: int, stats: dict):
    """(program, configuration, expected inputs, expected outputs, family) — directed cases first."""
    for it, (prog, cfg) in enumerate(directed_cases() + c05_rw.directed()):
        cfg = dict(cfg)
        cfg.setdefault("double", False)
        try:
            exp_in, exp_out = expected_interface(prog, cfg)
        except Exception as e:
            raise RuntimeError(f"directed case {it} cannot be evaluated by JAX: {e}")
        yield prog, cfg, exp_in, exp_out, ("rw" if any(l["op"] == "chain" for l in prog["leaves"]) else "base")
    for it in range(n + n_rw):
        rw = it >= n
        prog = c05_rw.gen_program(rng) if rw else gen_program(rng)
        try:
            _, exp_out0 = expected_interface(prog, {"double": False})
            cfg = (c05_rw.gen_config if rw else gen_config)(rng, prog, [len(e["dims"]) for e in exp_out0])
            exp_in, exp_out = expected_interface(prog, cfg)
        except Exception as e:
            stats["unsupported"] += 1
            continue
        yield prog, cfg, exp_in, exp_out, ("rw" if rw else "base")


def corr_programs(chk: Check, rng: common.Rng, n: int, batch: Batch, n_rw: int = 0) -> dict:
    import jax
    from jax2onnx import to_onnx
    ir = _ir()
    stats = {"programs": 0, "exports_ok": 0, "invalid_config_rejected": 0, "invalid_config_accepted": 0,
             "raises_on_valid": 0, "input_prediction_checked": 0, "values_checked": 0, "deviations": 0,
             "unsupported": 0, "rewritten_output_programs": 0, "optimizer_stages_seen": 0,
             "optimizer_stages_changing_outputs": 0, "output_dims_predicted": 0}
    lines, pending = [], []
    unlisted = 0
    seen_patterns: dict[str, int] = {}
    tab = c05_rw.op_table()
    chk.info("live_elementwise_sets", tab["live"]["sets"])
    chk.info("elementwise_ops_reached", sorted(tab["fn"]))
    chk.info("unreached_ops", tab["unreached"])
    ops_last: dict[str, int] = {}
    probe = c05_rw.OptimizerProbe()
    probe.__enter__()
    stage_changes: dict[str, int] = {}
    hist_lines: list = []
    for prog, cfg, exp_in, exp_out, family in _work_items(rng, n, n_rw, stats):
        if family == "rw":
            stats["rewritten_output_programs"] += 1
            for l in prog["leaves"]:
                if l["op"] == "chain":
                    for k, o in enumerate(l["ops"]):
                        if k >= 1:
                            ops_last[o] = ops_last.get(o, 0) + 1
        fn = build_fn(prog)
        stats["programs"] += 1
        kw = {k: v for k, v in cfg.items() if k in ("inputs_as_nchw", "outputs_as_nchw", "input_names", "output_names")}
        case = {"kinds": prog["kinds"], "used": prog["used"], "leaves": prog["leaves"], "tree": prog["tree"], "cfg": cfg}
        for k, v in (("unused_input", not all(prog["used"])), ("nchw", bool(kw.get("inputs_as_nchw") or kw.get("outputs_as_nchw"))),
                     ("named", bool(kw.get("input_names") or kw.get("output_names"))), ("double", cfg["double"]),
                     ("dup_or_alias", any(l["op"] in ("dup", "input") for l in prog["leaves"])),
                     ("const_output", any(l["op"].startswith("const") for l in prog["leaves"])),
                     ("nested", prog["tree"] in ("nested", "dict")), ("symbolic", any(k.startswith("sym") for k in prog["kinds"]))):
            if v:
                seen_patterns[k] = seen_patterns.get(k, 0) + 1
        probe.take()
        try:
            model = to_onnx(fn, [_input_spec(k) for k in prog["kinds"]], enable_double_precision=cfg["double"], **kw)
        except (ValueError, TypeError) as e:
            chk.count({**case, "result": f"raises {type(e).__name__}"}, nontrivial=True)
            if cfg.get("invalid") or (cfg.get("may_be_refused") and "collide" in str(e)):
                stats["invalid_config_rejected"] += 1
                continue
            stats["raises_on_valid"] += 1
            key = classify_failure(prog, cfg, e)
            if not chk.finding(key, f"to_onnx raises on a valid configuration: {str(e)[:160]}",
                               {"program": case, "error": f"{type(e).__name__}: {str(e)[:300]}",
                                "how": "harness/vcheck.py C05 --replay <this file>"}):
                unlisted += 1
            continue
        except Exception as e:
            # lowering trouble unrelated to the interface (other properties' territory)
            stats["unsupported"] += 1
            chk.count({**case, "result": f"unsupported {type(e).__name__}"}, nontrivial=False)
            continue
        if cfg.get("invalid"):
            stats["invalid_config_accepted"] += 1
            dev = oracle(prog, cfg, exp_in, exp_out, model)
            if any(d["kind"] in ("name_collision", "input_name", "output_name") for d in dev):
                if not chk.finding({"kind": "invalid_names_accepted", "what": cfg["invalid"]},
                                   f"invalid naming accepted silently: {cfg['invalid']}",
                                   {"program": case, "deviations": dev}):
                    unlisted += 1
            continue
        stats["exports_ok"] += 1
        chk.count({**case, "result": "exported"}, nontrivial=True)
        # model prediction of the graph inputs (binding + pruning + dtype policy + layout)
        args = [{"dtype": code_of(e["dtype"]), "dims": [str(d) for d in e["dims"]],
                 "nchw": i in set(cfg.get("inputs_as_nchw", [])), "used": prog["used"][i]}
                for i, e in enumerate(exp_in)]
        lines.append(json.dumps({"op": "predict", "double": cfg["double"], "args": args}))
        pending.append((case, cfg, [_vi(v) for v in model.graph.input]))
        # the property oracle on the real model
        dev = oracle(prog, cfg, exp_in, exp_out, model)
        # the optimizer's effect on the output list, stage by stage, as a history for the Lean model (`runChecked`)
        recs = probe.take()
        stats["optimizer_stages_seen"] += len(recs)
        whole = [r for r in recs if r[0] == "optimize_graph"]
        if whole and not dev:
            nchw_out = set(cfg.get("outputs_as_nchw", []))
            hist_lines.append((json.dumps({"op": "outdims", "outs": [
                {"dims": [str(d) for d in e["dims"]], "nchw": j in nchw_out, "complex": e["dtype"].kind == "c"}
                for j, e in enumerate(exp_out)]}), case, "binding", whole[0][1]))
        per_pass = [r for r in recs if r[0] != "optimize_graph"]
        clean = not dev
        stages_here = []
        for name, before, after in (per_pass or whole):
            h = c05_rw.history_of(before, after)
            if h is None:
                continue
            stats["optimizer_stages_changing_outputs"] += 1
            stage_changes[name] = stage_changes.get(name, 0) + 1
            stages_here.append({"stage": name, "outputs_before": [[b["name"], b["dtype"], b["dims"]] for b in before],
                                "outputs_after": [[a_["name"], a_["dtype"], a_["dims"]] for a_ in after]})
            if "length_changed" in h:
                dev.append({"kind": "output_count_changed_by_optimizer", "stage": name, "lengths": h["length_changed"]})
                continue
            if clean:
                # (an export that already deviates is reported through the oracle, with these stages in its replay)
                hist_lines.append((json.dumps({"op": "history", "outs": h["outs"], "decl": h["decl"], "steps": h["steps"]}),
                                   case, name, h))
        vdev = run_values(prog, cfg, exp_in, model, rng) if not dev else None
        if vdev is None and not dev:
            stats["values_checked"] += 1
        if vdev is not None and vdev["kind"] != "ort_failed":
            dev.append(vdev)
        elif vdev is not None:
            stats.setdefault("ort_failed", 0)
            stats["ort_failed"] += 1
        out_req = set(cfg.get("output_names") or [])
        real_in_names = [v.name for v in model.graph.input]
        real_out_names = [v.name for v in model.graph.output]
        for d in dev:
            stats["deviations"] += 1
            if d["kind"] == "input_count" and d["dropped_are_nchw_flagged"] and d["dropped_are_unused"] and d["dropped"]:
                key = {"kind": "unused_nchw_input_dropped"}
            elif d["kind"] == "input_name" and d["got"] in out_req and d["got"] in real_out_names \
                    and not cfg.get("input_names"):
                # an output that IS the input was given a custom name: the input carries it too
                key = {"kind": "aliased_output_renames_input"}
            elif d["kind"] == "name_collision" and not cfg.get("input_names") and \
                    all(nm in out_req for nm in set(real_in_names) & set(real_out_names)) and \
                    len(set(real_in_names)) == len(real_in_names) and len(set(real_out_names)) == len(real_out_names):
                key = {"kind": "aliased_output_renames_input"}
            elif d["kind"] == "output_dtype" and d["jax"] == "float16" and d["declared"] == 1:
                key = {"kind": "half_result_declared_float", "op": _leaf_op_of_output(prog, d["index"])}
            elif d["kind"] in ("output_dtype", "output_value") and _int_minmax(prog, d.get("index")) and \
                    (d["kind"] == "output_value" or (str(d["jax"]).startswith("float") and d["declared"] in (2, 3, 4, 5, 6, 7, 12, 13))):
                key = {"kind": "int_kept_for_float_result", "op": _int_minmax(prog, d.get("index"))}
            elif d["kind"] in ("output_rank", "output_value") and d.get("index") in set(cfg.get("outputs_as_nchw", [])) \
                    and exp_out[d["index"]]["dtype"].kind == "c":
                key = {"kind": "complex_output_as_nchw"}
            else:
                key = {"kind": d["kind"], "detail": json.dumps({k: v for k, v in d.items() if k != "kind"}, default=str)[:200]}
            if not chk.finding(key, f"interface deviates from the callable's signature: {d}",
                               {"program": case, "deviation": d, "optimizer_stages_that_changed_the_outputs": stages_here,
                                "real_inputs": [_vi(v) for v in model.graph.input],
                                "real_outputs": [_vi(v) for v in model.graph.output]}):
                unlisted += 1
    # prediction of the inputs by the Lean model vs the real graph inputs (custom names substituted)
    disagreements: list = []

    def judge(a, case, cfg, real_in):
        pred = json.loads(a)
        if isinstance(pred, dict):
            raise RuntimeError(f"driver: {pred}")
        stats["input_prediction_checked"] += 1
        real = [[g["name"], g["elem"], [str(d) for d in g["dims"]]] for g in real_in]
        if cfg.get("input_names") and len(pred) == len(cfg["input_names"]):
            pred = [[nm, p[1], p[2]] for nm, p in zip(cfg["input_names"], pred)]
        elif cfg.get("output_names") and len(pred) == len(real):
            # an output that IS an input carries the requested output name on the input as well
            # (reported separately as `aliased_output_renames_input`)
            pred = [[r[0], p[1], p[2]] if r[0] in cfg["output_names"] else p for p, r in zip(pred, real)]
        if pred != real:
            disagreements.append({"program": case, "model": pred, "real": real})
            stats["prediction_disagreements"] += 1
        return None

    for ln, (case, cfg, real_in) in zip(lines, pending):
        batch.add(ln, (lambda a, case=case, cfg=cfg, real_in=real_in: judge(a, case, cfg, real_in)))
    chk.add("traces_validated_against_impl", len(lines))
    probe.__exit__(None, None, None)

    def judge_hist(a, case, stage, real):
        ans = json.loads(a)
        if isinstance(ans, dict) and "bad" in ans:
            raise RuntimeError(f"driver: {ans}")
        if stage == "binding":
            # declared dims right after output binding (before the optimizer) vs the model's prediction from eval_shape
            stats["output_dims_predicted"] += 1
            got = [c05_rw._sd(o["dims"]) for o in real]
            if len(ans) != len(got) or any(not _dims_compatible(p, g) for p, g in zip(ans, got)):
                disagreements.append({"program": case, "stage": "output binding", "model": ans, "real": got})
                stats["prediction_disagreements"] += 1
            return None
        stats["histories_checked"] = stats.get("histories_checked", 0) + 1
        if ans["ok"] and len(set(real["outs"])) < len(real["outs"]) and ans["outs"] != real["after_outs"] and \
                len(ans["outs"]) == len(real["after_outs"]):
            # one value listed at several output POSITIONS and the stage replaced the positions separately
            # (CSE undoing a duplicate): the snapshots cannot tell which position a value-level step meant,
            # so the reconstructed history is ambiguous — count of outputs and declarations are still compared
            stats["histories_ambiguous_duplicate_outputs"] = stats.get("histories_ambiguous_duplicate_outputs", 0) + 1
            if [x and x[1] for x in ans["iface"]] == [x[1] for x in real["after_iface"]]:
                return None
        if (not ans["ok"]) or ans["outs"] != real["after_outs"] or \
                [x and x[1] for x in ans["iface"]] != [x[1] for x in real["after_iface"]]:
            disagreements.append({"program": case, "stage": stage, "history": real, "model": ans,
                                  "why": "an optimizer stage replaced / re-declared a graph output with a different "
                                         "declaration (guard of iface_preserved fails)" if not ans["ok"] else
                                         "the model's replay of the stage differs from the real output list"})
            stats["prediction_disagreements"] += 1
        return None

    for ln, case, stage, real in hist_lines:
        batch.add(ln, (lambda a, case=case, stage=stage, real=real: judge_hist(a, case, stage, real)))
    chk.add("traces_validated_against_impl", len(hist_lines))
    stats["optimizer_probe_mode"] = probe.mode
    stats["stages_changing_outputs"] = stage_changes
    stats["chain_ops_after_first_position"] = ops_last
    stats["patterns"] = seen_patterns
    stats["prediction_disagreements"] = 0
    chk.info("program_stats", stats)
    chk.info("programs", stats["programs"])
    return {"unlisted": unlisted, "disagreements": disagreements}


# ----------------------------------------------------------------------------- the check


def table_drift(tabs: dict, batch: Batch, drift: dict) -> None:
    """Rows of the regenerated tables that differ from the reference (through the Lean driver)."""
    def j_pol(a):
        drift["policy"] = [{"src": s_, "flag": f, "code": o, "reference": r}
                           for (s_, f, o), r in zip(tabs["policy"], json.loads(a)) if o != r]

    def j_out(a):
        drift["output"] = [{"jax": j, "cur": c, "flag": f, "declared": d, "cast": k, "reference": r}
                           for (j, c, f, d, k, _dr), r in zip(tabs["out"], json.loads(a)) if [d, k] != r]

    def j_keep(a):
        drift["keep"] = [{"name": n, "kept": k, "reference": r}
                         for (n, k), r in zip(tabs["keep"], json.loads(a)) if k != r]

    batch.add(json.dumps({"op": "policy", "rows": [[s_, f] for (s_, f, _) in tabs["policy"]]}), j_pol)
    batch.add(json.dumps({"op": "reconcile", "rows": [[j, c, f] for (j, c, f, *_r) in tabs["out"]]}), j_out)
    batch.add(json.dumps({"op": "keep", "names": [name_json(n) for n, _ in tabs["keep"]]}), j_keep)


def run(chk: Check) -> None:
    rng = common.Rng(chk.seed)
    thorough = chk.tier == "thorough"
    tabs = generate()
    chk.info("tables", {"policy_rows": len(tabs["policy"]), "output_rows": len(tabs["out"]),
                        "keep_rows": len(tabs["keep"]),
                        "numpy_dtypes_without_onnx_code": tabs["no_code"]})
    for name in ("policy", "out", "keep"):
        for row in tabs[name]:
            chk.count({"table": name, "row": list(row)}, nontrivial=True, sample_every=97)
    t1 = time.time()
    proved = chk.prove(MODS, checker=thorough)
    chk.log(f"tables {round(t1 - chk.t0, 1)} s, Lean build+audit {round(time.time() - t1, 1)} s")
    batch = Batch()
    drift: dict = {}
    table_drift(tabs, batch, drift)
    n = 400 if thorough else 120
    corr_prune(chk, rng, n, batch)
    corr_resolve(chk, rng, n, batch)
    corr_rename(chk, rng, n, batch)
    corr_materialize(chk, rng, n, batch)
    chk.log(f"real helper functions driven at {round(time.time() - chk.t0, 1)} s")
    res = corr_programs(chk, rng, 2500 if thorough else 250, batch, n_rw=1500 if thorough else 110)
    chk.log(f"programs exported at {round(time.time() - chk.t0, 1)} s")
    bad = batch.run()          # the single Lean driver invocation of this run
    chk.log(f"Lean driver answered {len(batch.lines)} requests at {round(time.time() - chk.t0, 1)} s")
    chk.info("table_rows_outside_reference", {k: v[:20] for k, v in drift.items()})
    unlisted = res["unlisted"]
    chk.info("helper_correspondence_disagreements", len(bad))
    chk.add("disagreements_checked", len(bad) + len(res["disagreements"]))

    broken = (not proved) or any(drift.values())
    if broken:
        chk.violation({"broken_obligations": getattr(chk, "broken", []),
                       "table_rows_outside_reference": {k: v[:20] for k, v in drift.items()},
                       "build_log_tail": getattr(chk, "build_log", "")[-2000:],
                       "unlisted_findings_in_this_run": unlisted,
                       "note": "a live decision table (dtype policy / output Cast decision / always-keep rule) left the "
                               "proven reference; the generated programs are the search for an export that shows it"},
                      name="table-left-reference", no_failing_input=(unlisted == 0))
    if (bad or res["disagreements"]) and unlisted == 0:
        chk.violation({"helper_disagreements": bad[:10],
                       "input_prediction_disagreements": res["disagreements"][:10],
                       "note": "a real helper (prune / resolve / rename / materialize) or the real input binding "
                               "disagrees with the interface model, but no export deviating from the callable's "
                               "signature was found among the generated programs"},
                      name="correspondence", no_failing_input=True)
    chk.assumptions += [
        "jax.eval_shape under the export's x64 mode is the callable's signature",
        "an output that IS an input (or the same value returned twice) may repeat a name unless output_names are given",
        "a float output may keep FLOAT under the double flag only when the callable asked for float32 explicitly",
        "ONNX Runtime vs eager JAX (rtol 2e-2) identifies which output is which",
        "optimizer histories are reconstructed from snapshots of graph.outputs around each stage (identity, element-type "
        "class, dims); declarations are compared up to the element-type class (widths: reconcile / C09)",
    ]
    chk.coverage["rule"] = (
        "tables: complete finite domains (exhaustive). Helper correspondences: seeded small graphs / name lists "
        "(non-trivial = something unused / a request present). Programs: 20 directed cases + 250 (quick) / 2500 (thorough) seeded programs "
        "(1-3 inputs of 9 kinds, used/unused, 1-4 result leaves of 14 kinds incl. duplicates, inputs, constants, "
        "complex; 5 result-tree shapes) x configurations (precision, NCHW in/out, valid/invalid input/output names); "
        "rewritten-output family: directed (every operator of the live optimizer's ELEMENTWISE sets that a JAX spelling "
        "reaches, as last node of chains of length 2 and 3, between layout flags and between explicit transposes; "
        "forests, aliases, duplicates, reshape/cast pairs) + 110 (quick) / 1500 (thorough) seeded programs over image "
        "inputs with pairwise different extents; per export the optimizer's stages are snapshotted and every stage "
        "that changes the output list is replayed by the Lean history model; "
        "every case is distinct by its full description")
    chk.coverage["exhaustive"] = False


def replay(path: str) -> int:
    from jax2onnx import to_onnx
    rep = json.loads(open(path).read())
    print(json.dumps(rep, indent=1, default=str)[:3000])
    case = rep.get("program")
    if not case:
        return 0
    prog = {k: case[k] for k in ("kinds", "used", "leaves", "tree")}
    cfg = case["cfg"]
    kw = {k: v for k, v in cfg.items() if k in ("inputs_as_nchw", "outputs_as_nchw", "input_names", "output_names")}
    exp_in, exp_out = expected_interface(prog, cfg)
    try:
        model = to_onnx(build_fn(prog), [_input_spec(k) for k in prog["kinds"]],
                        enable_double_precision=cfg["double"], **kw)
    except (ValueError, TypeError) as e:
        print("now raises:", type(e).__name__, e)
        return 0 if cfg.get("invalid") else 1
    dev = oracle(prog, cfg, exp_in, exp_out, model)
    v = run_values(prog, cfg, exp_in, model, common.Rng(rep.get("seed", 0))) if not dev else None
    print("now:", dev, v)
    return 1 if (dev or (v and v["kind"] != "ort_failed")) else 0
