"""C15 — all return and file modes deliver the same model.

Lean side (lean/J2O/Model/C15.lean, Lemmas/C15.lean, Props/C15.lean): the on-disk state machine
of `to_onnx(return_mode="file")` — main file, `.onnx.data` sidecar, spill rule, removal of a stale sidecar
before a standard export (fix f6799b2), web-mode sidecar removal, `load`.
Theorems for every spill rule, every prior disk content and every history of exports to one
path: `load_export`, `load_history`/`load_last`, `export_history_independent`,
`sidecar_is_exactly_the_spilled_tensors`, `web_self_contained`, `stale_never_referenced`, `modes_agree`, `layout_step` (the length-level machine of the driver is the projection of the
byte level), `export_succeeds_partial` + machine-checked refutation of the unconditional form.

Tie (H): seeded histories (standard/web x tensor sizes on both sides of the spill threshold x
the same path, different payloads per export, pre-existing garbage/empty sidecars, absolute and
cwd-relative paths) through the REAL `to_onnx(..., return_mode="file")` in a temp dir vs the Lean
driver: files present, sidecar size, per-initializer inline/external + offset/length must be
equal after every step.  Oracle (the property itself): `proto` == to_proto(`ir`) for the same
request; `onnx.load(path)` == `proto` (protobuf equality, i.e. graph and every tensor byte for
byte); ONNX Runtime outputs of the file == of the proto == the JAX function; a web file copied
alone into an empty directory still loads and runs; every external reference lies in the bytes
appended by the last export.
"""
from __future__ import annotations

import hashlib
import json
import os
import shutil
import tempfile
import warnings
from typing import Any, Optional

import numpy as np

warnings.filterwarnings("ignore")

import common
from common import Check

META = {
    "ready": True,
    "level": "proof",
    "technique": "Lean 4 theorems about an executable model of the file-system state machine behind "
                 "return_mode='file' (byte level) + proved length-level projection run by the driver + "
                 "correspondence with the real to_onnx on seeded export histories in a temp dir + "
                 "protobuf/ORT equality oracles across return modes",
    "level_text": "Kernel-checked, for every spill rule, prior disk content and history: load_export / "
                  "load_history / load_last (what onnx.load returns is exactly the last export carried out: graph "
                  "and every tensor byte for byte), export_history_independent (what an export leaves on disk depends on the "
                  "request only: no append, no growth), sidecar_is_exactly_the_spilled_tensors, "
                  "stale_never_referenced, web_self_contained, modes_agree, removes_only_if_nothing_spilled / "
                  "kept_when_nested_spilled / noGuard_loses_nested_tensor (the post-save clean-up with tensors of nested graphs), "
                  "layout_step (driver machine = projection of the byte-level machine with the installed onnx's "
                  "rule len+33 >= 1 MiB), export_succeeds_partial / export_always_succeeds_refuted / "
                  "refused_export_drops_sidecar (residual), regression examples about the pre-fix step.",
    "level_note": "The model assumes onnx.save_model/onnx.load behave as described in Model/C15.lean (a fresh sidecar "
                  "is written after the stale one was removed, offsets recorded, external only for raw_data initializers with "
                  "sys.getsizeof >= threshold); this is validated on every run by the correspondence, not proved. "
                  "Equality proto == to_proto(ir) and the protective clone are properties of onnx_ir, checked by "
                  "the oracle only. PARTIAL on one point: a standard export is refused (FileExistsError) when a "
                  "file with the sidecar's name exists in the current working directory (known finding "
                  "F-C15-reexport-relative-path). Trusted: Lean kernel + 3 axioms, the harness, ONNX Runtime.",
    "design_ref": "DESIGN.md §3 C15",
}

MODS = ["J2O.Props.C15", "J2O.Props.C15Cleanup"]

# request catalogue: input shape, shapes of the constants (→ initializers)
REQUESTS: dict[str, dict] = {
    "small": {"dtype": "int8", "x": (100,), "consts": [(100,)]},
    "below": {"dtype": "int8", "x": (1048542,), "consts": [(1048542,)]},          # 1 byte short of spilling
    "at": {"dtype": "int8", "x": (1048543,), "consts": [(1048543,)]},             # len + 33 == 1 MiB
    "big": {"dtype": "int8", "x": (1048600,), "consts": [(1048600,)]},
    "two_big": {"dtype": "int8", "x": (1048600,), "consts": [(1048600,), (1048600,)]},
    "mixed": {"dtype": "int8", "x": (16384, 64), "consts": [(64,), (16384, 64), (64,)]},
    "f32_below": {"dtype": "float32", "x": (262135,), "consts": [(262135,)]},      # 1048540 bytes
    "f32_above": {"dtype": "float32", "x": (262136,), "consts": [(262136,)]},      # 1048544 bytes
    "tiny_other_graph": {"dtype": "float32", "x": (4,), "consts": [(4,)], "other": True},
}
# programs with control-flow bodies (ONNX Loop / Scan subgraphs, handled by the IR post-pass) and
# double-precision requests: the modes must agree on those too
REQUESTS.update({
    "fori": {"dtype": "float32", "x": (3, 4), "consts": [], "custom": "fori"},
    "scan": {"dtype": "float32", "x": (5, 4), "consts": [], "custom": "scan"},
    "while": {"dtype": "float32", "x": (3, 4), "consts": [], "custom": "while"},
    "fori_f64": {"dtype": "float32", "x": (3, 4), "consts": [], "custom": "fori", "f64": True},
    "plain_f64": {"dtype": "float32", "x": (3, 4), "consts": [], "custom": "plain", "f64": True},
    # a tensor above the spill threshold that lives ONLY inside a control-flow body (closed over by the
    # loop body): the external-data path and every clean-up step must see nested graphs too
    "fori_bigconst": {"dtype": "float32", "x": (262200,), "consts": [(262200,)], "custom": "fori_bigconst"},
    "fori_smallconst": {"dtype": "float32", "x": (100,), "consts": [(100,)], "custom": "fori_bigconst"},
})
for _r in REQUESTS.values():
    _r["sizes"] = [int(np.prod(c)) * np.dtype(_r["dtype"]).itemsize for c in _r["consts"]]


def build_custom(req: dict, seed: int):
    import jax
    import jax.numpy as jnp
    rs = np.random.RandomState(seed)
    w = (rs.randint(-8, 9, size=(4, 4)) / 8).astype(np.float32)
    kind = req["custom"]
    if kind == "fori_bigconst":
        big = (rs.randint(-64, 64, size=req["consts"][0]) / 16).astype(np.float32)

        def fn(x):
            return jax.lax.fori_loop(0, 2, lambda i, c: c * 0.5 + jnp.asarray(big), x)
        x = (rs.randint(-8, 9, size=req["x"]) / 8).astype(np.float32)
        return fn, x, [big]
    if kind == "plain":
        def fn(x):
            return jnp.tanh(x @ w) + 1.0
    elif kind == "fori":
        def fn(x):
            return jax.lax.fori_loop(0, 3, lambda i, c: jnp.tanh(c @ w) + 0.5, x)
    elif kind == "while":
        def fn(x):
            return jax.lax.while_loop(lambda c: jnp.sum(c[1]) < 4.0,
                                      lambda c: (jnp.tanh(c[0] @ w) + 0.5, c[1] + 1.0), (x, jnp.zeros((1,), x.dtype)))[0]
    else:
        def fn(x):
            def step(carry, row):
                carry = carry * 0.5 + row
                return carry, jnp.sum(carry)
            final, ys = jax.lax.scan(step, jnp.zeros((4,), x.dtype), x)
            return final, ys
    x = (rs.randint(-8, 9, size=req["x"]) / 8).astype(np.float64 if req.get("f64") else np.float32)
    return fn, x, []


def build_fn(req: dict, seed: int):
    import jax.numpy as jnp
    if req.get("custom"):
        return build_custom(req, seed)
    dt = np.dtype(req["dtype"])
    rs = np.random.RandomState(seed)
    consts = []
    for shp in req["consts"]:
        if dt.kind == "i":
            consts.append(rs.randint(-3, 4, size=shp).astype(dt))
        else:
            consts.append((rs.randint(-64, 64, size=shp) / 16).astype(dt))

    def fn(x):
        y = x
        for i, c in enumerate(consts):
            y = (y + jnp.asarray(c)) if i % 2 == 0 else (y * jnp.asarray(c))
        if req.get("other"):
            y = jnp.tanh(y)
        return y

    x = (rs.randint(-2, 3, size=req["x"])).astype(dt)
    return fn, x, consts


def all_initializers(graph: Any, prefix: str = "") -> list:
    """(label, TensorProto) of every initializer of the graph and of all nested graphs, in the order
    onnx's external-data helpers visit them (own initializers, then node by node, attribute by attribute)"""
    import onnx
    out = [(prefix + t.name, t) for t in graph.initializer]
    for n in graph.node:
        for at in n.attribute:
            if at.type == onnx.AttributeProto.GRAPH:
                out += all_initializers(at.g, prefix + "sub/")
            elif at.type == onnx.AttributeProto.GRAPHS:
                for g in at.graphs:
                    out += all_initializers(g, prefix + "sub/")
    return out


def sha(b: bytes) -> str:
    return hashlib.sha1(b).hexdigest()[:16]


class Requests:
    """proto / ir results per (request, seed), converted once."""

    def __init__(self, chk: Check):
        self.cache: dict = {}
        self.chk = chk
        self.conversions = 0

    def get(self, name: str, seed: int) -> dict:
        key = (name, seed)
        if key in self.cache:
            return self.cache[key]
        import onnx_ir as ir
        from jax2onnx import to_onnx
        req = REQUESTS[name]
        fn, x, consts = build_fn(req, seed)
        kw = {"enable_double_precision": True} if req.get("f64") else {}
        proto = to_onnx(fn, [x], return_mode="proto", model_name="m", **kw)
        irm = to_onnx(fn, [x], return_mode="ir", model_name="m", **kw)
        self.conversions += 2
        ir_proto = ir.to_proto(irm)
        same = proto.SerializeToString(deterministic=True) == ir_proto.SerializeToString(deterministic=True)
        if not same:
            self.chk.finding({"kind": "proto_ne_ir", "request": name},
                             f"return_mode='proto' and to_proto(return_mode='ir') differ for request {name}: "
                             f"{describe_proto_diff(proto, ir_proto)}",
                             {"request": name, "seed": seed, "history": {"steps": [{"req": name, "mode": "web",
                              "seed": seed}], "side0": None, "relative": False},
                              "how": "harness/props/c15.py::replay (converts the request in proto and ir mode)"})
        rq = [[nm, bool(i.HasField("raw_data")), len(i.raw_data) if i.HasField("raw_data") else
               len(i.SerializeToString())] for nm, i in all_initializers(proto.graph)]
        got_sizes = sorted(r[2] for r in rq)
        if not req.get("custom") and sorted(req["sizes"]) != got_sizes:
            # the converter merged/split the constants: the request no longer exercises what it should
            raise RuntimeError(f"request {name}: expected initializers of {req['sizes']} bytes, export has {rq}")
        d = {"fn": fn, "x": x, "kw": kw, "proto": proto, "req": rq, "ort": None,
             "digests": [sha(i.raw_data) for _, i in all_initializers(proto.graph)]}
        self.cache[key] = d
        return d


def describe_proto_diff(a: Any, b: Any) -> str:
    """where two ModelProtos differ (subgraph value_info first: that is what the IR post-pass rewrites)"""
    import onnx

    def body_infos(m):
        out = {}
        for n in m.graph.node:
            for at in n.attribute:
                if at.type == onnx.AttributeProto.GRAPH:
                    for vi in at.g.value_info:
                        out[f"{n.op_type}/{vi.name}"] = [
                            (dd.dim_value if dd.HasField("dim_value") else (dd.dim_param or None))
                            for dd in vi.type.tensor_type.shape.dim]
        return out

    ia, ib = body_infos(a), body_infos(b)
    diffs = [f"{k}: proto={ia.get(k)} ir={ib.get(k)}" for k in sorted(set(ia) | set(ib)) if ia.get(k) != ib.get(k)]
    if diffs:
        return "; ".join(diffs[:4])
    ta = [(i.name, i.data_type) for i in a.graph.initializer]
    tb = [(i.name, i.data_type) for i in b.graph.initializer]
    return f"initializer dtypes proto={ta[:4]} ir={tb[:4]}" if ta != tb else "difference outside subgraph value_info"


def ort_run(model: Any, x: np.ndarray) -> list[np.ndarray]:
    import onnxruntime as ort
    so = ort.SessionOptions()
    so.log_severity_level = 3
    s = ort.InferenceSession(model, so, providers=["CPUExecutionProvider"])
    return s.run(None, {s.get_inputs()[0].name: x})


def canonical_bytes(model: Any) -> bytes:
    """Deterministic serialisation with field-presence noise removed: `onnx.load` marks every
    tensor it read from a sidecar with an explicit `data_location: DEFAULT` (= the default value)."""
    import onnx
    m = onnx.ModelProto()
    m.CopyFrom(model)
    for _, t in all_initializers(m.graph):
        if t.data_location == onnx.TensorProto.DEFAULT and not t.external_data:
            t.ClearField("data_location")
    return m.SerializeToString(deterministic=True)


def observe(path: str) -> dict:
    """files present, sidecar size, per-initializer storage — read WITHOUT loading external data."""
    import onnx
    dp = path + ".data"
    out: dict[str, Any] = {"main": None, "side": os.path.getsize(dp) if os.path.exists(dp) else None}
    if os.path.exists(path):
        m = onnx.load(path, load_external_data=False)
        ents = []
        for nm, i in all_initializers(m.graph):
            ext = {e.key: e.value for e in i.external_data}
            if ext:
                if ext.get("location") != os.path.basename(dp):
                    ents.append(f"{nm}:foreign({ext.get('location')})")
                else:
                    ents.append(f"{nm}:e{ext.get('offset', '0')}+{ext.get('length')}")
            else:
                ents.append(f"{nm}:i{len(i.raw_data) if i.HasField('raw_data') else len(i.SerializeToString())}")
        out["main"] = ents
    return out


def show(obs: dict, ok: bool) -> str:
    m = "none" if obs["main"] is None else "[" + ";".join(obs["main"]) + "]"
    s = "none" if obs["side"] is None else str(obs["side"])
    return f"ok={'true' if ok else 'false'} main={m} side={s}"


STEP_KINDS = [("small", "standard"), ("below", "standard"), ("at", "standard"), ("big", "standard"),
              ("two_big", "standard"), ("mixed", "standard"), ("f32_below", "standard"), ("f32_above", "standard"),
              ("big", "web"), ("small", "web"), ("two_big", "web"), ("tiny_other_graph", "standard"),
              ("tiny_other_graph", "web"), ("fori", "standard"), ("scan", "standard"), ("fori_f64", "standard"),
              ("fori_bigconst", "standard"), ("fori_bigconst", "web"), ("fori_smallconst", "standard"),
              # every spelling the mode validation accepts must reach the same export path
              ("big", "Web"), ("big", " web "), ("two_big", "WEB"), ("big", "Standard"), ("small", " STANDARD ")]


def gen_histories(rng: common.Rng, thorough: bool) -> list[dict]:
    hs: list[dict] = []
    # the sequences named in the property, always present
    fixed = [
        [("big", "standard"), ("big", "standard"), ("small", "standard"), ("big", "web"), ("small", "standard")],
        [("at", "standard"), ("below", "standard"), ("at", "standard")],
        [("two_big", "standard"), ("big", "web"), ("two_big", "standard"), ("tiny_other_graph", "standard")],
        [("f32_above", "standard"), ("f32_below", "standard"), ("mixed", "standard"), ("small", "web")],
        # control-flow bodies and double precision: proto == to_proto(ir) == file for those too
        [("fori", "standard"), ("scan", "web"), ("while", "standard"), ("fori_f64", "web"), ("plain_f64", "standard")],
        # a large tensor only inside a Loop body; non-canonical spellings of the modes
        [("fori_bigconst", "standard"), ("small", "standard"), ("fori_bigconst", "web"), ("fori_bigconst", "standard")],
        [("big", "Web"), ("big", "Standard"), ("two_big", " web "), ("big", "WEB")],
    ]
    for k, f in enumerate(fixed):
        hs.append({"steps": [{"req": r, "mode": m, "seed": (k * 7 + i) % 3} for i, (r, m) in enumerate(f)],
                   "side0": None, "relative": False})
    n = 8 if not thorough else 60
    for _ in range(n):
        ln = rng.randint(2, 5)
        steps = []
        for i in range(ln):
            r, m = rng.choice(STEP_KINDS)
            steps.append({"req": r, "mode": m, "seed": rng.randint(0, 2)})
        side0 = rng.choice([None, None, 0, 777, 1048576])
        hs.append({"steps": steps, "side0": side0, "relative": False})
    # the path in the current working directory (relative output_path)
    hs.append({"steps": [{"req": "big", "mode": "standard", "seed": 0}, {"req": "big", "mode": "standard", "seed": 1},
                         {"req": "small", "mode": "standard", "seed": 2}, {"req": "big", "mode": "web", "seed": 1},
                         {"req": "big", "mode": "standard", "seed": 2}],
               "side0": None, "relative": True})
    # a FOREIGN file with the sidecar's name in the current working directory for some steps
    hs.append({"steps": [{"req": "big", "mode": "standard", "seed": 0},
                         {"req": "small", "mode": "standard", "seed": 1, "foreign_cwd": True},
                         {"req": "big", "mode": "web", "seed": 2, "foreign_cwd": True},
                         {"req": "big", "mode": "standard", "seed": 1}],
               "side0": None, "relative": False})
    return hs


def run_history(chk: Check, reqs: Requests, h: dict, stats: dict) -> tuple[str, str]:
    """Returns (real record line, driver request line)."""
    import onnx
    from jax2onnx import to_onnx
    d = tempfile.mkdtemp(prefix="c15_")
    foreign = tempfile.mkdtemp(prefix="c15f_")
    with open(os.path.join(foreign, "model.onnx.data"), "wb") as fh:
        fh.write(b"unrelated file that happens to have the sidecar's name")
    cwd = os.getcwd()
    path = os.path.join(d, "model.onnx")
    dp = path + ".data"
    out_path = "model.onnx" if h["relative"] else path
    records, dsteps = [], []
    try:
        if h["relative"]:
            os.chdir(d)
        if h["side0"] is not None:
            with open(dp, "wb") as fh:
                fh.write(bytes((i * 37 + 11) % 251 for i in range(h["side0"])))
        for i, st in enumerate(h["steps"]):
            spelled = st["mode"]                       # what the caller writes
            st = dict(st, mode=spelled.strip().lower())   # what it means (the validation's normal form)
            r = reqs.get(st["req"], st["seed"])
            if not h["relative"]:
                os.chdir(foreign if st.get("foreign_cwd") else cwd)
            before_obs = observe(path)
            # what onnx checks: a file named like the sidecar relative to the CURRENT WORKING DIRECTORY;
            # the destination's own sidecar is removed first, so only a foreign file can be in the way
            here = os.path.abspath(os.path.basename(dp))
            clash = (st["mode"] == "standard" and os.path.exists(here)
                     and os.path.realpath(here) != os.path.realpath(dp))
            ok, err = True, None
            try:
                ret = to_onnx(r["fn"], [r["x"]], return_mode="file", output_path=out_path,
                              export_mode=spelled, model_name="m", **r["kw"])
                reqs.conversions += 1
            except Exception as e:
                ok, err = False, f"{type(e).__name__}: {str(e)[:100]}"
            obs = observe(path)
            records.append(show(obs, ok))
            dsteps.append({"mode": st["mode"], "clash": bool(clash), "req": r["req"]})
            stats["steps"] += 1
            case = {"history_step": i, "request": st["req"], "mode": st["mode"], "spelled": spelled, "seed": st["seed"],
                    "relative_path": h["relative"], "side0": h["side0"], "observed": records[-1]}
            chk.count(case, nontrivial=(i > 0 or h["side0"] is not None))
            replay = {"history": h, "failed_at_step": i, "how": "harness/props/c15.py::replay"}
            if not ok:
                stats["refused"] += 1
                chk.finding({"kind": "export_refused", "error": err.split(":")[0], "mode": st["mode"],
                             "relative_path": h["relative"], "sidecar_name_in_cwd": bool(clash),
                             "foreign_file_in_cwd": bool(st.get("foreign_cwd"))},
                            f"to_onnx(return_mode='file', export_mode={st['mode']!r}) raised {err} at step {i} "
                            f"of a history of exports to one path", replay)
                if obs != before_obs:
                    chk.finding({"kind": "refused_export_changed_disk", "error": err.split(":")[0],
                                 "foreign_file_in_cwd": bool(st.get("foreign_cwd"))},
                                f"a refused export changed the files on disk ({show(before_obs, True)} -> "
                                f"{show(obs, False)})", replay)
                continue
            if os.path.abspath(str(ret)) != os.path.abspath(out_path):
                chk.finding({"kind": "wrong_return_value"}, f"file mode returned {ret!r}", replay)
            # ---- oracle: the loaded file is the proto-mode model, byte for byte
            try:
                loaded = onnx.load(path)
                got = ort_run(path, r["x"])
            except Exception as e:
                chk.finding({"kind": "file_not_loadable", "mode": st["mode"]},
                            f"the {st['mode']} file written at step {i} cannot be loaded/run: "
                            f"{type(e).__name__}: {str(e)[:120]}", replay)
                stats["oracle_failures"] += 1
                continue
            if canonical_bytes(loaded) != canonical_bytes(r["proto"]):
                dig = [sha(t.raw_data) for _, t in all_initializers(loaded.graph)]
                which = "tensor bytes" if dig != r["digests"] else "graph/metadata"
                chk.finding({"kind": "file_ne_proto", "mode": st["mode"], "differs_in": which},
                            f"onnx.load of the {st['mode']} file differs from return_mode='proto' ({which}) "
                            f"at step {i}", replay)
                stats["oracle_failures"] += 1
            # ---- oracle: the sidecar holds exactly the tensors this export spilled, nothing stale
            ext_total = 0
            for e in obs["main"] or []:
                if ":e" in e:
                    off, ln = (int(v) for v in e.split(":e")[1].split("+"))
                    ext_total += ln
                    if off + ln > (obs["side"] or 0):
                        chk.finding({"kind": "reference_outside_sidecar"},
                                    f"external reference {e} reaches outside the sidecar ({obs['side']} bytes)", replay)
                        stats["oracle_failures"] += 1
            if (obs["side"] or 0) != ext_total:
                chk.finding({"kind": "stale_bytes_in_sidecar", "mode": st["mode"]},
                            f"the sidecar has {obs['side']} bytes but the model references {ext_total}: bytes of "
                            f"an earlier export were kept", replay)
                stats["oracle_failures"] += 1
            # ---- oracle: ORT on the file == ORT on the proto == JAX
            if r["ort"] is None:
                r["ort"] = ort_run(r["proto"].SerializeToString(), r["x"])
                jx = r["fn"](r["x"])
                jx = np.asarray(jx[0] if isinstance(jx, (tuple, list)) else jx)
                if not np.allclose(np.asarray(r["ort"][0]).astype(np.float64), jx.astype(np.float64),
                                   rtol=1e-5, atol=1e-5):
                    chk.finding({"kind": "proto_ne_jax", "request": st["req"]},
                                "ORT on the proto-mode model differs from the JAX function", replay)
            if len(got) != len(r["ort"]) or any(not np.array_equal(a, b) for a, b in zip(got, r["ort"])):
                chk.finding({"kind": "file_outputs_ne_proto_outputs", "mode": st["mode"]},
                            f"ORT outputs of the {st['mode']} file differ from those of the proto at step {i}", replay)
                stats["oracle_failures"] += 1
            # ---- oracle: a web file is self-contained
            if st["mode"] == "web":
                d2 = tempfile.mkdtemp(prefix="c15w_")
                try:
                    p2 = os.path.join(d2, "alone.onnx")
                    shutil.copy(path, p2)
                    try:
                        alone = ort_run(p2, r["x"])
                    except Exception:  # noqa: BLE001   the file needs something else next to it
                        alone = None
                    if alone is None or any(not np.array_equal(a, b) for a, b in zip(alone, r["ort"])) \
                            or os.path.exists(dp):
                        chk.finding({"kind": "web_not_self_contained"},
                                    "web export is not a single self-contained file", replay)
                        stats["oracle_failures"] += 1
                finally:
                    shutil.rmtree(d2, ignore_errors=True)
            stats["oracle_checks"] += 1
    finally:
        os.chdir(cwd)
        shutil.rmtree(d, ignore_errors=True)
        shutil.rmtree(foreign, ignore_errors=True)
    line = json.dumps({"op": "hist", "side0": h["side0"], "steps": dsteps})
    return " | ".join(records), line


def run(chk: Check) -> None:
    rng = common.Rng(chk.seed)
    thorough = chk.tier == "thorough"
    proved = chk.prove(MODS, checker=thorough)
    if not proved:
        raise RuntimeError(f"Lean obligations of C15 do not build: {getattr(chk, 'broken', [])}")

    reqs = Requests(chk)
    hs = gen_histories(rng, thorough)
    stats = {"histories": len(hs), "steps": 0, "refused": 0, "oracle_checks": 0, "oracle_failures": 0,
             "disagreements": 0}
    reals, lines = [], []
    for h in hs:
        real, line = run_history(chk, reqs, h, stats)
        reals.append(real)
        lines.append(line)
    answers = common.run_driver("C15", lines)
    for h, real, ans in zip(hs, reals, answers):
        if ans.startswith("bad"):
            raise RuntimeError(f"driver rejected a history: {ans}")
        if real != ans:
            stats["disagreements"] += 1
            first = next((i for i, (a, b) in enumerate(zip(real.split(" | "), ans.split(" | "))) if a != b), None)
            # broken correspondence: the oracles above are the search for a failing input on the real code
            chk.violation({"correspondence": "files written by the real to_onnx(return_mode='file') differ from the "
                                             "Lean disk machine", "history": h, "first_differing_step": first,
                           "real": real.split(" | "), "model": ans.split(" | "),
                           "oracle_failures_in_this_run": stats["oracle_failures"]},
                          no_failing_input=(stats["oracle_failures"] == 0))
    stats["conversions"] = reqs.conversions
    chk.info("tie", stats)
    chk.add("traces_validated_against_impl", stats["steps"])
    chk.add("programs", len(reqs.cache))
    chk.info("disagreements_checked", stats["disagreements"])
    chk.info("requests", {k: v["sizes"] for k, v in REQUESTS.items()})
    chk.assumptions += [
        "onnx.save_model appends external tensors at the end of an existing sidecar and records offset/length; "
        "only raw_data initializers with sys.getsizeof(raw_data) >= size_threshold go external (validated by the "
        "correspondence on every run)",
        "onnx.load reads `length` bytes at `offset` of the sidecar next to the main file",
        "proto == to_proto(ir) is checked by the oracle, not modelled",
        "ONNX Runtime executes both the file and the in-memory model faithfully",
    ]
    chk.coverage["rule"] = (
        "histories of 2-5 exports to one path: 4 fixed sequences from the property text (large->large->small->web->"
        "small, at/below threshold, two spilled tensors, float32 either side) + seeded random sequences over 13 "
        "(request, mode) kinds with pre-existing garbage/empty sidecars + one history on a cwd-relative path; a "
        "case = one export step with the files observed after it; non-trivial = not the first export onto an empty "
        "directory")
    chk.coverage["exhaustive"] = False


def replay(path: str) -> int:
    rep = json.loads(open(path).read())
    print(json.dumps(rep, indent=1)[:2500])
    if "history" not in rep:
        return 0
    chk = Check("C15", "quick", rep.get("seed", 0))
    stats = {"histories": 1, "steps": 0, "refused": 0, "oracle_checks": 0, "oracle_failures": 0, "disagreements": 0}
    real, line = run_history(chk, Requests(chk), rep["history"], stats)
    ans = common.run_driver("C15", [line])[0]
    print("real :", real)
    print("model:", ans)
    return 1 if (real != ans or chk.violations) else 0
