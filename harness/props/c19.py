"""C19 — library calls keep their call signature while being traced.

Lean side: `binds` (CPython's argument binding on call *forms*), `findUncovered O W` (finite search),
theorems `findUncovered_none/_some` (the finite search decides coverage for ALL call forms).

Tie (T): lean/J2O/Gen/C19.lean is regenerated on every run from the LIVE plugin registry: for every
MonkeyPatchSpec of every registered plugin and every FunctionPlugin patch site the pair
(inspect.signature(original), inspect.signature(substitute)) is emitted as Lean data (names as Nat
ids) together with the flag "a representative call form is uncovered"; GenProps/C19.lean proves by
kernel evaluation that the flags are exact and concludes coverage for all call forms of every
unflagged pair.  The binding model itself is validated on every run against real Python calls of
synthesised functions, against inspect.Signature.bind, and against the live signature objects.

Search: every uncovered single-deviation call form of a flagged pair is executed eagerly on the
original (binding is necessary, not sufficient, for validity) with arguments captured from the
plugin's own testcases, then replayed on the real code through `to_onnx` on a one-call program.
"""
from __future__ import annotations

import ast
import inspect
import json
import re
import textwrap
import time
import traceback
import warnings
from typing import Any, Optional

import numpy as np

warnings.filterwarnings("ignore")

import common
from common import Check, LEAN, lean_bool, lean_list, lean_str, write_if_changed

META = {
    "ready": True,
    "level": "proof",
    "technique": "Lean 4 theorems about a model of Python argument binding (abstraction lemma + complete "
                 "finite search), applied by kernel evaluation to the signature pairs regenerated from the "
                 "live plugin registry; uncovered call forms replayed on the real code with to_onnx",
    "level_text": "Kernel-checked: findUncovered_none / findUncovered_some / findUncovered_none_iff (the finite "
                  "search over representative call forms decides, for ALL call forms - unbounded positional "
                  "count, arbitrary keyword names - whether the substitute accepts every call the original "
                  "accepts), binds_abs (abstraction lemma). Per run: gen_flags_exact, gen_unflagged_covered, "
                  "gen_flagged_witness over every (original, substitute) signature pair of the installed "
                  "libraries (decide +kernel). Binding only; the meaning of forwarded arguments is validated "
                  "by execution (ORT vs eager JAX) on sampled calls.",
    "level_note": "Trusted: Lean kernel + 3 standard axioms; inspect.signature as the description of what a "
                  "callable binds (substitutes inspected with follow_wrapped=False); the harness extraction. "
                  "The binding model is CPython's call rule and is validated each run against real calls of "
                  "synthesised functions (exact) and inspect.Signature.bind (which is stricter only for "
                  "positional-only names passed by keyword next to **kwargs). 'No argument silently ignored' "
                  "is validated by an AST pass + execution, not proved. Uncovered forms of the unchanged tree "
                  "are genuine defects listed in known_findings.d/C19.json keyed by (target, call form).",
    "design_ref": "DESIGN.md §3 C19",
}

MODS = ["J2O.Props.C19", "J2O.GenProps.C19"]
K = inspect.Parameter
KIND = {K.POSITIONAL_ONLY: 0, K.POSITIONAL_OR_KEYWORD: 1, K.VAR_POSITIONAL: 2, K.KEYWORD_ONLY: 3,
        K.VAR_KEYWORD: 4}
KIND_LEAN = [".posOnly", ".posOrKw", ".varPos", ".kwOnly", ".varKw"]

BIND_ERR = re.compile(
    r"unexpected keyword argument|positional argument|multiple values for|required (positional|keyword)|"
    r"missing \d+ required|takes no keyword|takes no arguments|takes from \d+ to \d+")


# ----------------------------------------------------------------------------- python mirror


def sig_model(sig: inspect.Signature) -> list[tuple[str, int, bool]]:
    return [(p.name, KIND[p.kind], p.default is not K.empty) for p in sig.parameters.values()]


def py_binds(S, npos: int, kw) -> bool:
    """Python mirror of J2O.C19.binds (used for the flags in Gen; the kernel re-checks them)."""
    pos = [p for p in S if p[1] in (0, 1)]
    if not (npos <= len(pos) or any(p[1] == 2 for p in S)):
        return False
    vk = any(p[1] == 4 for p in S)
    for k in kw:
        if not (any(p[0] == k and p[1] in (1, 3) for p in S) or vk):
            return False
    for i, p in enumerate(pos):
        hit = p[1] == 1 and p[0] in kw
        if i < npos:
            if hit:
                return False
        elif not (p[2] or hit):
            return False
    for p in S:
        if p[1] == 3 and not (p[2] or p[0] in kw):
            return False
    return True


def py_subsets(U):
    if not U:
        return [[]]
    r = py_subsets(U[1:])
    return r + [[U[0]] + s for s in r]


def py_find_uncovered(O, W):
    namesO = [p[0] for p in O]
    Kn = namesO + [p[0] for p in W if p[0] not in namesO]
    cap = max(len([p for p in O if p[1] in (0, 1)]), len([p for p in W if p[1] in (0, 1)])) + 1
    if any(p[1] == 4 for p in O):
        U = Kn + ["\0fresh"]
    else:
        U = [p[0] for p in O if p[1] in (1, 3)]
    for kw in py_subsets(U):
        for n in range(cap + 1):
            if py_binds(O, n, kw) and not py_binds(W, n, kw):
                return (n, kw)
    return None


# ----------------------------------------------------------------------------- live registry


def _target_name(target: Any, attr: str) -> str:
    if isinstance(target, str):
        return f"{target}.{attr}"
    if inspect.ismodule(target):
        return f"{target.__name__}.{attr}"
    mod = getattr(target, "__module__", "?")
    qn = getattr(target, "__qualname__", None) or getattr(target, "__name__", repr(target))
    return f"{mod}.{qn}.{attr}"


def _signature(obj, follow: bool):
    try:
        return inspect.signature(obj, follow_wrapped=follow)
    except (ValueError, TypeError):
        return None


def collect_pairs() -> dict:
    """Every (original, substitute) pair the converter installs while tracing, from the live registry.
    Nothing is activated: targets are resolved and `make_value(original)` is evaluated."""
    from jax2onnx.plugins import plugin_system as ps
    from jax2onnx.plugins._patching import MonkeyPatchSpec, _resolve, _MISSING
    ps.import_all_plugins()
    pairs, missing, nosig, errors = [], [], [], []
    n_specs = 0
    for pname, plugin in list(ps.PLUGIN_REGISTRY.items()):
        bs = getattr(plugin, "binding_specs", None)
        if bs is None:
            continue
        try:
            specs = bs()
        except Exception as e:  # a plugin whose specs cannot be built patches nothing
            errors.append({"plugin": pname, "error": repr(e)[:200]})
            continue
        for s in specs:
            if not isinstance(s, MonkeyPatchSpec):
                continue
            n_specs += 1
            tname = _target_name(s.target, s.attr)
            try:
                tgt = _resolve(s.target)
            except Exception as e:
                missing.append({"plugin": pname, "target": tname, "why": "target module not importable"})
                continue
            orig = getattr(tgt, s.attr, _MISSING)
            if orig is _MISSING:
                missing.append({"plugin": pname, "target": tname, "why": "attribute absent in installed library"})
                continue
            try:
                new = s.make_value(orig)
            except Exception as e:
                errors.append({"plugin": pname, "target": tname, "error": repr(e)[:200]})
                continue
            so, sn = _signature(orig, True), _signature(new, False)
            if so is None or sn is None:
                nosig.append({"plugin": pname, "target": tname,
                              "which": "original" if so is None else "substitute"})
                continue
            pairs.append({"plugin": pname, "target": tname, "kind": "monkey", "tgt_obj": tgt,
                          "attr": s.attr, "orig": orig, "new": new, "so": so, "sn": sn})
    # FunctionPlugin (@onnx_function) patch sites
    for patch_fn, targets, attr in ps._iter_patch_specs():
        for tgt in targets:
            n_specs += 1
            tname = _target_name(tgt, attr)
            orig = getattr(tgt, attr, _MISSING)
            if orig is _MISSING:
                missing.append({"plugin": "onnx_function", "target": tname, "why": "attribute absent"})
                continue
            try:
                new = patch_fn(orig)
            except Exception as e:
                errors.append({"plugin": "onnx_function", "target": tname, "error": repr(e)[:200]})
                continue
            so, sn = _signature(orig, True), _signature(new, False)
            if so is None or sn is None:
                nosig.append({"plugin": "onnx_function", "target": tname,
                              "which": "original" if so is None else "substitute"})
                continue
            pairs.append({"plugin": "onnx_function", "target": tname, "kind": "function", "tgt_obj": tgt,
                          "attr": attr, "orig": orig, "new": new, "so": so, "sn": sn})
    for p in pairs:
        p["O"], p["W"] = sig_model(p["so"]), sig_model(p["sn"])
        p["generic"] = [x[1] for x in p["W"]] == [2, 4]
        p["is_method"] = p["attr"] == "__call__" or (bool(p["O"]) and p["O"][0][0] == "self")
    pairs.sort(key=lambda p: (p["kind"], p["target"], p["plugin"]))
    return {"pairs": pairs, "missing": missing, "nosig": nosig, "errors": errors, "n_specs": n_specs}


# ----------------------------------------------------------------------------- Gen


def _name_table(pairs) -> dict[str, int]:
    tab: dict[str, int] = {}
    for p in pairs:
        for (n, _, _) in p["O"] + p["W"]:
            tab.setdefault(n, len(tab))
    return tab


def _lean_sig(S, tab) -> str:
    return "[" + ", ".join(f"⟨{tab[n]}, {KIND_LEAN[k]}, {lean_bool(d)}⟩" for (n, k, d) in S) + "]"


def _enc_sig(S, tab) -> str:
    return " ".join(f"{tab[n]}:{k}:{int(d)}" for (n, k, d) in S) or "-"


def generate(live: Optional[dict] = None) -> dict:
    live = live or collect_pairs()
    pairs = live["pairs"]
    tab = _name_table(pairs)
    live["names"] = tab
    # identical (O, W) pairs are emitted once
    distinct: dict[tuple, int] = {}
    rows = []
    for p in pairs:
        key = (tuple(p["O"]), tuple(p["W"]))
        if key not in distinct:
            distinct[key] = len(distinct)
            p["flag_py"] = py_find_uncovered(p["O"], p["W"])
            rows.append((distinct[key], p))
        else:
            p["flag_py"] = next(q["flag_py"] for _, q in rows if (tuple(q["O"]), tuple(q["W"])) == key)
        p["row"] = distinct[key]
    body = []
    for i, p in rows:
        body.append(f"  -- {i}: {p['target']}   {p['so']}  ~>  {p['sn']}".replace("\n", " ")[:400])
        body.append(f"  ⟨{i}, {_lean_sig(p['O'], tab)},\n      {_lean_sig(p['W'], tab)}, "
                    f"{lean_bool(p['flag_py'] is not None)}⟩,")
    if body:
        body[-1] = body[-1].rstrip(",")
    names = sorted(tab, key=tab.get)
    src = f"""/- GENERATED by harness/props/c19.py from the live plugin registry of /repo on every run — do not edit.
   {len(pairs)} (original, substitute) pairs, {len(rows)} distinct; names are ids into `nameTable`. -/
import J2O.Model.C19
namespace J2O.Gen.C19
open J2O.C19

structure Entry where
  id : Nat
  orig : Sig Nat
  subst : Sig Nat
  /-- the extractor's claim: some representative call form is accepted by `orig` and rejected by `subst` -/
  flagged : Bool

def nameTable : List String := {lean_list(map(lean_str, names))}

def pairs : List Entry := [
{chr(10).join(body)}
]

end J2O.Gen.C19
"""
    write_if_changed(LEAN / "J2O/Gen/C19.lean", src)
    return live
