"""C19 — library calls keep their call signature while being traced.

Lean side: `binds` (CPython's argument binding on call *forms*), `findUncovered O W` (finite search),
theorems `findUncovered_none/_some` (the finite search decides coverage for ALL call forms).

Tie (T): lean/J2O/Gen/C19.lean is regenerated on every run from the LIVE plugin registry: for every
MonkeyPatchSpec of every registered plugin and every FunctionPlugin patch site the pair
(inspect.signature(original), inspect.signature(substitute)) is emitted as Lean data (names as Nat
ids) together with the flag "a representative call form is uncovered"; GenProps/C19.lean proves by
kernel evaluation that the flags are exact and concludes coverage for all call forms of every
unflagged pair.  The binding model itself is validated on every run against real Python calls of
synthesised functions, against inspect.Signature.bind, and against the live signature objects.

Search: every uncovered single-deviation call form of a flagged pair is executed eagerly on the
original (binding is necessary, not sufficient, for validity) with arguments captured from the
plugin's own testcases, then replayed on the real code through `to_onnx` on a one-call program.
"""
from __future__ import annotations

import ast
import inspect
import json
import re
import textwrap
import time
import traceback
import warnings
from typing import Any, Optional

import numpy as np

warnings.filterwarnings("ignore")

import common
from common import Check, LEAN, lean_bool, lean_list, lean_str, write_if_changed
import c19_fnmatrix as fnmatrix

META = {
    "ready": True,
    "level": "proof",
    "technique": "Lean 4 theorems about a model of Python argument binding (abstraction lemma + complete "
                 "finite search), applied by kernel evaluation to the signature pairs regenerated from the "
                 "live plugin registry; uncovered call forms replayed on the real code with to_onnx",
    "level_text": "Kernel-checked: findUncovered_none / findUncovered_some / findUncovered_none_iff (the finite "
                  "search over representative call forms decides, for ALL call forms - unbounded positional "
                  "count, arbitrary keyword names - whether the substitute accepts every call the original "
                  "accepts), binds_abs (abstraction lemma). Per run: gen_flags_exact, gen_unflagged_covered, "
                  "gen_flagged_witness over every (original, substitute) signature pair of the installed "
                  "libraries (decide +kernel). FunctionPlugin capture key (Props/C19Key): capture_key_injective, "
                  "function_key_injective, registry_own_arguments (in any sequence of @onnx_function call sites every "
                  "site gets the body traced for its own keyword values), with the type-name key refuted "
                  "(type_name_key_not_injective); tied per run to the exported models of the argument matrix. "
                  "Binding and function sharing only; the meaning of forwarded arguments is validated "
                  "by execution (ORT vs eager JAX) on sampled calls.",
    "level_note": "Trusted: Lean kernel + 3 standard axioms; inspect.signature as the description of what a "
                  "callable binds (substitutes inspected with follow_wrapped=False); the harness extraction. "
                  "The binding model is CPython's call rule and is validated each run against real calls of "
                  "synthesised functions (exact) and inspect.Signature.bind (which is stricter only for "
                  "positional-only names passed by keyword next to **kwargs). 'No argument silently ignored' "
                  "is validated, not proved: a systematic parameter sweep (every parameter of every substituted "
                  "function with a testcase, non-default values, positional/keyword/mixed forms, fusion-triggering "
                  "producers; values and dtypes vs eager JAX) + an AST pass. The @onnx_function argument matrix (24 value kinds x keyword/positional x two call sites in one "
                  "export, plain function and nnx.Module) is validation by execution plus a one-sided tie of the "
                  "observed function sharing to the Lean capture-key model (trusted: hash(bytes) collision-free). "
                  "Uncovered forms of the unchanged tree "
                  "are genuine defects listed in known_findings.d/C19.json keyed by (target, call form).",
    "design_ref": "DESIGN.md §3 C19",
}

MODS = ["J2O.Props.C19", "J2O.Props.C19Key", "J2O.GenProps.C19"]
FRESH = "\0fresh"
K = inspect.Parameter
KIND = {K.POSITIONAL_ONLY: 0, K.POSITIONAL_OR_KEYWORD: 1, K.VAR_POSITIONAL: 2, K.KEYWORD_ONLY: 3,
        K.VAR_KEYWORD: 4}
KIND_LEAN = [".posOnly", ".posOrKw", ".varPos", ".kwOnly", ".varKw"]

BIND_ERR = re.compile(
    r"unexpected keyword argument|positional argument|multiple values for|required (positional|keyword)|"
    r"missing \d+ required|takes no keyword|takes no arguments|takes from \d+ to \d+")


# ----------------------------------------------------------------------------- python mirror


def sig_model(sig: inspect.Signature) -> list[tuple[str, int, bool]]:
    return [(p.name, KIND[p.kind], p.default is not K.empty) for p in sig.parameters.values()]


def py_binds(S, npos: int, kw) -> bool:
    """Python mirror of J2O.C19.binds (used for the flags in Gen; the kernel re-checks them)."""
    pos = [p for p in S if p[1] in (0, 1)]
    if not (npos <= len(pos) or any(p[1] == 2 for p in S)):
        return False
    vk = any(p[1] == 4 for p in S)
    for k in kw:
        if not (any(p[0] == k and p[1] in (1, 3) for p in S) or vk):
            return False
    for i, p in enumerate(pos):
        hit = p[1] == 1 and p[0] in kw
        if i < npos:
            if hit:
                return False
        elif not (p[2] or hit):
            return False
    for p in S:
        if p[1] == 3 and not (p[2] or p[0] in kw):
            return False
    return True


def py_candidates(O, W):
    namesO = [p[0] for p in O]
    Kn = namesO + [p[0] for p in W if p[0] not in namesO]
    posO = [p for p in O if p[1] in (0, 1)]
    cap = max(len(posO), len([p for p in W if p[1] in (0, 1)])) + 1
    if any(p[1] == 4 for p in O):
        U = Kn + [FRESH]
    else:
        U = [p[0] for p in O if p[1] in (1, 3)]
    for n in range(cap + 1):
        req = [p[0] for p in posO[n:] if not p[2]] + [p[0] for p in O if p[1] == 3 and not p[2]]
        yield (n, req)
        for k in U:
            if k not in req:
                yield (n, [k] + req)


def py_all_uncovered(O, W):
    """Python mirror of J2O.C19.allUncovered (the kernel re-checks the flags it yields)."""
    return [(n, kw) for (n, kw) in py_candidates(O, W) if py_binds(O, n, kw) and not py_binds(W, n, kw)]


def py_find_uncovered(O, W):
    r = py_all_uncovered(O, W)
    return r[0] if r else None


# ----------------------------------------------------------------------------- live registry


def _target_name(target: Any, attr: str) -> str:
    if isinstance(target, str):
        return f"{target}.{attr}"
    if inspect.ismodule(target):
        return f"{target.__name__}.{attr}"
    mod = getattr(target, "__module__", "?")
    qn = getattr(target, "__qualname__", None) or getattr(target, "__name__", repr(target))
    return f"{mod}.{qn}.{attr}"


def _signature(obj, follow: bool):
    try:
        return inspect.signature(obj, follow_wrapped=follow)
    except (ValueError, TypeError):
        return None


def collect_pairs() -> dict:
    """Every (original, substitute) pair the converter installs while tracing, from the live registry.
    Nothing is activated: targets are resolved and `make_value(original)` is evaluated."""
    from jax2onnx.plugins import plugin_system as ps
    from jax2onnx.plugins._patching import MonkeyPatchSpec, _resolve, _MISSING
    ps.import_all_plugins()
    pairs, missing, nosig, errors = [], [], [], []
    n_specs = 0
    for pname, plugin in list(ps.PLUGIN_REGISTRY.items()):
        bs = getattr(plugin, "binding_specs", None)
        if bs is None:
            continue
        try:
            specs = bs()
        except Exception as e:  # a plugin whose specs cannot be built patches nothing
            errors.append({"plugin": pname, "error": repr(e)[:200]})
            continue
        for s in specs:
            if not isinstance(s, MonkeyPatchSpec):
                continue
            n_specs += 1
            tname = _target_name(s.target, s.attr)
            try:
                tgt = _resolve(s.target)
            except Exception as e:
                missing.append({"plugin": pname, "target": tname, "why": "target module not importable"})
                continue
            orig = getattr(tgt, s.attr, _MISSING)
            if orig is _MISSING:
                missing.append({"plugin": pname, "target": tname, "why": "attribute absent in installed library"})
                continue
            try:
                new = s.make_value(orig)
            except Exception as e:
                errors.append({"plugin": pname, "target": tname, "error": repr(e)[:200]})
                continue
            so, sn = _signature(orig, True), _signature(new, False)
            if so is None or sn is None:
                nosig.append({"plugin": pname, "target": tname,
                              "which": "original" if so is None else "substitute"})
                continue
            pairs.append({"plugin": pname, "target": tname, "kind": "monkey", "tgt_obj": tgt,
                          "attr": s.attr, "orig": orig, "new": new, "so": so, "sn": sn})
    # FunctionPlugin (@onnx_function) patch sites
    for patch_fn, targets, attr in ps._iter_patch_specs():
        for tgt in targets:
            n_specs += 1
            tname = _target_name(tgt, attr)
            orig = getattr(tgt, attr, _MISSING)
            if orig is _MISSING:
                missing.append({"plugin": "onnx_function", "target": tname, "why": "attribute absent"})
                continue
            try:
                new = patch_fn(orig)
            except Exception as e:
                errors.append({"plugin": "onnx_function", "target": tname, "error": repr(e)[:200]})
                continue
            so, sn = _signature(orig, True), _signature(new, False)
            if so is None or sn is None:
                nosig.append({"plugin": "onnx_function", "target": tname,
                              "which": "original" if so is None else "substitute"})
                continue
            pairs.append({"plugin": "onnx_function", "target": tname, "kind": "function", "tgt_obj": tgt,
                          "attr": attr, "orig": orig, "new": new, "so": so, "sn": sn})
    for p in pairs:
        p["O"], p["W"] = sig_model(p["so"]), sig_model(p["sn"])
        p["generic"] = [x[1] for x in p["W"]] == [2, 4]
        p["is_method"] = p["attr"] == "__call__" or (bool(p["O"]) and p["O"][0][0] == "self")
    pairs.sort(key=lambda p: (p["kind"], p["target"], p["plugin"]))
    return {"pairs": pairs, "missing": missing, "nosig": nosig, "errors": errors, "n_specs": n_specs}


# ----------------------------------------------------------------------------- Gen


def _name_table(pairs) -> dict[str, int]:
    tab: dict[str, int] = {}
    for p in pairs:
        for (n, _, _) in p["O"] + p["W"]:
            tab.setdefault(n, len(tab))
    return tab


def _lean_sig(S, tab) -> str:
    return "[" + ", ".join(f"⟨{tab[n]}, {KIND_LEAN[k]}, {lean_bool(d)}⟩" for (n, k, d) in S) + "]"


def _enc_sig(S, tab) -> str:
    return " ".join(f"{tab[n]}:{k}:{int(d)}" for (n, k, d) in S) or "-"


def generate(live: Optional[dict] = None) -> dict:
    live = live or collect_pairs()
    pairs = live["pairs"]
    tab = _name_table(pairs)
    live["names"] = tab
    # identical (O, W) pairs are emitted once
    distinct: dict[tuple, int] = {}
    rows = []
    for p in pairs:
        key = (tuple(p["O"]), tuple(p["W"]))
        if key not in distinct:
            distinct[key] = len(distinct)
            p["flag_py"] = py_find_uncovered(p["O"], p["W"])
            rows.append((distinct[key], p))
        else:
            p["flag_py"] = next(q["flag_py"] for _, q in rows if (tuple(q["O"]), tuple(q["W"])) == key)
        p["row"] = distinct[key]
    body = []
    for i, p in rows:
        comment = f"  -- {i}: {p['target']}   {p['so']}  ~>  {p['sn']}".replace("\n", " ")
        comment = re.sub(r" at 0x[0-9a-fA-F]+", " at 0x..", comment)   # no addresses: the file must be stable
        body.append(comment[:400])
        body.append(f"  ⟨{i}, {_lean_sig(p['O'], tab)},\n      {_lean_sig(p['W'], tab)}, "
                    f"{lean_bool(p['flag_py'] is not None)}⟩,")
    if body:
        body[-1] = body[-1].rstrip(",")
    names = sorted(tab, key=tab.get)
    src = f"""/- GENERATED by harness/props/c19.py from the live plugin registry of /repo on every run — do not edit.
   {len(pairs)} (original, substitute) pairs, {len(rows)} distinct; names are ids into `nameTable`. -/
import J2O.Model.C19
namespace J2O.Gen.C19
open J2O.C19

structure Entry where
  id : Nat
  orig : Sig Nat
  subst : Sig Nat
  /-- the extractor's claim: some representative call form is accepted by `orig` and rejected by `subst` -/
  flagged : Bool

def nameTable : List String := {lean_list(map(lean_str, names))}

def pairs : List Entry := [
{chr(10).join(body)}
]

end J2O.Gen.C19
"""
    write_if_changed(LEAN / "J2O/Gen/C19.lean", src)
    return live


# ----------------------------------------------------------------------------- call forms


def form_str(npos: int, kws) -> str:
    return f"npos={npos};kw={','.join(sorted(kws))}"


def causes(W, npos: int, kw) -> list[str]:
    """Why the substitute rejects the form (Python mirror, used for grouping/reporting only)."""
    out = []
    pos = [p for p in W if p[1] in (0, 1)]
    if npos > len(pos) and not any(p[1] == 2 for p in W):
        out.append(f"more-than-{len(pos)}-positional")
    vk = any(p[1] == 4 for p in W)
    for k in kw:
        if not (any(p[0] == k and p[1] in (1, 3) for p in W) or vk):
            out.append(f"unexpected-keyword:{k}")
    for i, p in enumerate(pos):
        hit = p[1] == 1 and p[0] in kw
        if i < npos and hit:
            out.append(f"multiple-values:{p[0]}")
        if i >= npos and not (p[2] or hit):
            out.append(f"missing:{p[0]}")
    for p in W:
        if p[1] == 3 and not (p[2] or p[0] in kw):
            out.append(f"missing:{p[0]}")
    return sorted(out)


def pick_representatives(pair: dict, forms: list[tuple[int, list[str]]]) -> list[dict]:
    """One form per distinct set of rejection causes: the one closest to how the function is normally
    called (required arguments positional, `self` positional for methods)."""
    O, W = pair["O"], pair["W"]
    posO = [p for p in O if p[1] in (0, 1)]
    n_req = len([p for p in posO if not p[2]])
    groups: dict[tuple, list] = {}
    for (n, kw) in forms:
        if FRESH in kw:
            continue
        if pair["is_method"] and n < 1:
            continue
        groups.setdefault(tuple(causes(W, n, kw)), []).append((n, kw))
    reps = []
    for cause, fs in sorted(groups.items()):
        fs.sort(key=lambda f: (abs(f[0] - n_req), len(f[1]), f[0], sorted(f[1])))
        n, kw = fs[0]
        reps.append({"npos": n, "kw": sorted(kw), "call_form": form_str(n, kw), "cause": list(cause),
                     "group_size": len(fs)})
    return reps


# ----------------------------------------------------------------------------- argument factory


class _Captured(Exception):
    pass


def _concrete_inputs(tc: dict, rng: np.random.Generator) -> Optional[list]:
    vals = tc.get("input_values")
    if vals is not None:
        return [np.asarray(v) for v in vals]
    shapes = tc.get("input_shapes")
    if shapes is None:
        return []
    dts = tc.get("input_dtypes") or [np.float32] * len(shapes)
    out = []
    for sh, dt in zip(shapes, dts):
        sh = tuple(sh) if isinstance(sh, (list, tuple)) else (sh,)
        sh = tuple(3 if isinstance(d, str) else int(d) for d in sh)
        dt = np.dtype(dt)
        if dt.kind == "f":
            a = (rng.standard_normal(sh) * 0.25 + 0.5).astype(dt)
        elif dt.kind in "iu":
            a = rng.integers(0, 3, size=sh).astype(dt)
        elif dt.kind == "b":
            a = rng.random(sh) > 0.5
        else:
            return None
        out.append(a)
    return out


def capture_call(pair: dict, max_cases: int = 4):
    """Run the plugin's own testcases eagerly with a recorder on the patched attribute; the first
    call of the target gives a valid (args, kwargs) for the original."""
    from jax2onnx.plugins import plugin_system as ps
    plugin = ps.PLUGIN_REGISTRY.get(pair["plugin"])
    tcs = list((getattr(plugin, "metadata", None) or {}).get("testcases", []) or [])
    tgt, attr, orig = pair["tgt_obj"], pair["attr"], pair["orig"]
    rng = np.random.default_rng(12345)
    tried = 0
    for tc in tcs:
        if tried >= max_cases:
            break
        fn = tc.get("callable")
        if fn is None or tc.get("input_params"):
            continue
        tried += 1
        box: dict = {}

        def recorder(*a, **k):
            if "call" not in box:
                box["call"] = (a, dict(k))
            return orig(*a, **k)

        try:
            if hasattr(fn, "with_dtype"):
                fn = fn.with_dtype(np.float32)
            if hasattr(fn, "instantiate"):
                fn = fn.instantiate()
            xs = _concrete_inputs(tc, rng)
            if xs is None:
                continue
            had = attr in getattr(tgt, "__dict__", {})
            setattr(tgt, attr, recorder)
            try:
                fn(*xs)
            finally:
                if had or not inspect.isclass(tgt):
                    setattr(tgt, attr, orig)
                else:
                    delattr(tgt, attr)
        except Exception:
            if "call" not in box:
                continue
        if "call" in box:
            return box["call"], tc.get("testcase")
    return None, None


def _is_arr(v) -> bool:
    import jax
    if isinstance(v, np.ndarray):
        return v.dtype.kind in "fiub"
    if isinstance(v, jax.Array):
        try:
            return np.dtype(v.dtype).kind in "fiub"
        except TypeError:
            return False
    return False


def _split_traced(value, slots: list):
    """Replace arrays (also inside lists/tuples) by slot markers; everything else stays closed over."""
    if _is_arr(value):
        slots.append(np.asarray(value))
        return ("__slot__", len(slots) - 1)
    if isinstance(value, (list, tuple)) and not hasattr(value, "_fields") and any(_is_arr(x) for x in value):
        return type(value)(_split_traced(x, slots) for x in value)
    return ("__const__", value)


def _fill(tmpl, arrs):
    if isinstance(tmpl, tuple) and len(tmpl) == 2 and tmpl[0] == "__slot__":
        return arrs[tmpl[1]]
    if isinstance(tmpl, tuple) and len(tmpl) == 2 and tmpl[0] == "__const__":
        return tmpl[1]
    return type(tmpl)(_fill(x, arrs) for x in tmpl)


def build_call(pair: dict, captured, npos: int, kws: list[str]):
    """Concrete (args, kwargs) for the call form: captured values, else the parameter's default."""
    so: inspect.Signature = pair["so"]
    (a, k) = captured
    ba = so.bind(*a, **k)
    vals = dict(ba.arguments)
    params = list(so.parameters.values())
    pos = [p for p in params if p.kind in (K.POSITIONAL_ONLY, K.POSITIONAL_OR_KEYWORD)]
    if npos > len(pos):
        return None

    def value(p):
        if p.name in vals:
            return vals[p.name]
        if p.default is not K.empty:
            return p.default
        raise KeyError(p.name)

    try:
        args = [value(p) for p in pos[:npos]]
        byname = {p.name: p for p in params}
        kwargs = {name: value(byname[name]) for name in kws}
    except KeyError:
        return None
    return args, kwargs


def _np_tree(x):
    import jax
    leaves = jax.tree_util.tree_leaves(x)
    return [np.asarray(l) for l in leaves]


RANDOM_TARGETS = re.compile(r"random\.|Dropout|dropout")


def run_form(pair: dict, args, kwargs) -> dict:
    """Eager original first (binding is not validity), then the one-call program through to_onnx."""
    import jax
    from jax2onnx import to_onnx
    tgt, attr = pair["tgt_obj"], pair["attr"]
    res: dict = {}
    try:
        # the original captured before any conversion ran in this process (a conversion may leave
        # patched attributes behind, see notes/C19.md)
        expected = pair["orig"](*args, **kwargs)
        exp_leaves = _np_tree(expected)
    except Exception as e:
        return {"status": "original_rejects", "eager_error": f"{type(e).__name__}: {str(e)[:160]}"}
    slots: list = []
    t_args = [_split_traced(v, slots) for v in args]
    t_kwargs = {k: _split_traced(v, slots) for k, v in kwargs.items()}

    def program(*arrs):
        return getattr(tgt, attr)(*[_fill(t, arrs) for t in t_args],
                                  **{k: _fill(t, arrs) for k, t in t_kwargs.items()})

    specs = [jax.ShapeDtypeStruct(s.shape, s.dtype) for s in slots]
    try:
        model = to_onnx(program, specs)
    except TypeError as e:
        tb = traceback.extract_tb(e.__traceback__)
        where = f"{tb[-1].filename.split('/')[-1]}:{tb[-1].name}" if tb else "?"
        kind = "binding_typeerror" if BIND_ERR.search(str(e)) else "other_typeerror"
        return {"status": kind, "error": f"TypeError: {str(e)[:200]}", "raised_in": where,
                "traced_inputs": len(slots)}
    except (NotImplementedError, ValueError) as e:
        return {"status": "explicit_rejection", "error": f"{type(e).__name__}: {str(e)[:200]}"}
    except Exception as e:
        return {"status": "other_error", "error": f"{type(e).__name__}: {str(e)[:200]}"}
    res["status"] = "exported"
    if RANDOM_TARGETS.search(pair["target"]):
        res["numeric"] = "skipped (random function)"
        return res
    try:
        import irtools
        feeds = {i.name: s for i, s in zip(model.graph.input, slots)}
        if len(feeds) != len(slots):
            res["numeric"] = "skipped (inputs pruned)"
            return res
        got = irtools.run_ort(model, feeds)

        def flat(arrs):
            out = []
            for x in arrs:
                x = np.asarray(x)
                if x.dtype.kind == "c":          # exported as a trailing pair of reals
                    x = np.stack([x.real, x.imag], axis=-1)
                out.append(x.astype(np.float64).reshape(-1))
            return np.concatenate(out) if out else np.zeros((0,))

        g, e = flat(got), flat(exp_leaves)
        # layout of the result container (tuple of scalars vs one vector, complex as pairs) is C05's
        # business; here only the values are compared
        ok = g.shape == e.shape and bool(np.allclose(g, e, rtol=1e-3, atol=1e-5, equal_nan=True))
        res["numeric"] = "agree" if ok else "DISAGREE"
        if not ok:
            res["ort"] = [np.asarray(g).reshape(-1)[:6].tolist() for g in got]
            res["jax"] = [e.reshape(-1)[:6].tolist() for e in exp_leaves]
    except Exception as e:
        res["numeric"] = f"ort unavailable: {type(e).__name__}: {str(e)[:120]}"
    return res


# ----------------------------------------------------------------------------- model validation


def _random_sig(rng: common.Rng):
    pool = ["a", "b", "c", "d", "e", "f", "g", "h", "i", "j"]
    names = rng.shuffle(pool)
    n_po, n_pk = rng.randint(0, 2), rng.randint(0, 3)
    n_ko = rng.randint(0, 2)
    vp, vk = rng.chance(0.35), rng.chance(0.35)
    S = []
    seen_default = False
    for i in range(n_po + n_pk):
        if not seen_default and rng.chance(0.4):
            seen_default = True
        S.append((names.pop(), 0 if i < n_po else 1, seen_default))
    if vp:
        S.append((names.pop(), 2, False))
    for _ in range(n_ko):
        S.append((names.pop(), 3, rng.chance(0.5)))
    if vk:
        S.append((names.pop(), 4, False))
    return S


def _sig_source(S) -> str:
    parts, prev = [], None
    for (n, k, d) in S:
        if prev == 0 and k != 0:
            parts.append("/")
        if k == 3 and prev not in (2, 3):
            parts.append("*")
        parts.append({0: n, 1: n, 2: "*" + n, 3: n, 4: "**" + n}[k] + ("=0" if d else ""))
        prev = k
    if prev == 0:
        parts.append("/")
    return "def f(" + ", ".join(parts) + "): return 1"


def validate_model(chk: Check, rng: common.Rng, n: int, driver=None) -> None:
    """`binds` against (1) real calls of synthesised functions — must agree exactly — and
    (2) inspect.Signature.bind — may be stricter only for positional-only names by keyword + **kwargs."""
    cases, lines = [], []
    tab = {x: i for i, x in enumerate(["a", "b", "c", "d", "e", "f", "g", "h", "i", "j", "zz", "yy"])}
    for _ in range(n):
        S = _random_sig(rng)
        ns: dict = {}
        exec(_sig_source(S), ns)
        f = ns["f"]
        sig = inspect.signature(f)
        assert sig_model(sig) == S, (S, sig)
        npos_max = len([p for p in S if p[1] in (0, 1)]) + 2
        for _ in range(4):
            npos = rng.randint(0, npos_max)
            cand = [p[0] for p in S] + ["zz", "yy"]
            kws = [k for k in cand if rng.chance(0.3)]
            try:
                f(*([0] * npos), **{k: 0 for k in kws})
                real = True
            except TypeError:
                real = False
            try:
                sig.bind(*([0] * npos), **{k: 0 for k in kws})
                insp = True
            except TypeError:
                insp = False
            cases.append((S, npos, kws, real, insp))
            lines.append(f"B {_enc_sig(S, tab)} ; {npos} " + " ".join(str(tab[k]) for k in kws))
    ans = (driver or (lambda ls: common.run_driver("C19", ls)))(lines)
    bad, diverge = [], 0
    for (S, npos, kws, real, insp), a in zip(cases, ans):
        m = a == "1"
        chk.count({"op": "binds", "sig": _sig_source(S)[4:-11], "npos": npos, "kw": kws, "model": m,
                   "python_call": real, "inspect_bind": insp}, nontrivial=m or bool(kws))
        if m != real or m != py_binds(S, npos, kws):
            bad.append((_sig_source(S), npos, kws, m, real))
        if m != insp:
            po_kw = any(p[1] == 0 and p[0] in kws for p in S) and any(p[1] == 4 for p in S)
            if m and not insp and po_kw:
                diverge += 1
            else:
                bad.append((_sig_source(S), npos, kws, m, "inspect", insp))
    chk.add("traces_validated_against_impl", len(lines))
    chk.info("model_validation", {"random_sig_call_pairs": len(lines), "disagreements_with_real_calls": len(bad),
                                  "inspect_stricter_posonly_kw_with_varkw": diverge})
    if bad:
        # the hand-written model contradicts Python itself: defect of the check, never a VIOLATION
        raise RuntimeError(f"binding model disagrees with real Python calls: {bad[:5]}")


def validate_live(chk: Check, live: dict, driver=None) -> int:
    """The model on every representative form of every live pair vs the live Signature objects."""
    tab = live["names"]
    tab2 = dict(tab)
    tab2[FRESH] = max(tab.values(), default=0) + 1
    lines, cases = [], []
    done = set()
    for p in live["pairs"]:
        if p["row"] in done:
            continue
        done.add(p["row"])
        for (n, kw) in py_candidates(p["O"], p["W"]):
            lines.append(f"F {_enc_sig(p['O'], tab)} ; {_enc_sig(p['W'], tab)} ; {n} " +
                         " ".join(str(tab2[k]) for k in kw))
            cases.append((p, n, kw))
    ans = (driver or (lambda ls: common.run_driver("C19", ls)))(lines)
    bad = []
    for (p, n, kw), a in zip(cases, ans):
        real = []
        kwn = [("zz_unknown_kw" if k == FRESH else k) for k in kw]
        for sig in (p["so"], p["sn"]):
            try:
                sig.bind(*([None] * n), **{k: None for k in kwn})
                real.append("1")
            except TypeError:
                real.append("0")
        if a.split() != real:
            po_kw = any(q[1] == 0 and q[0] in kw for q in p["O"] + p["W"])
            if not po_kw:
                bad.append((p["target"], n, kw, a, real))
    chk.add("traces_validated_against_impl", len(lines))
    chk.info("live_signature_validation", {"forms": len(lines), "disagreements": len(bad)})
    if bad:
        raise RuntimeError(f"binding model disagrees with the live Signature objects: {bad[:5]}")
    return len(lines)


# ----------------------------------------------------------------------------- ignored arguments


def unread_parameters(pair: dict) -> Optional[list[str]]:
    """Wrapper parameters never read in the wrapper body (AST). None = no source."""
    try:
        src = textwrap.dedent(inspect.getsource(pair["new"]))
        fn = ast.parse(src).body[0]
    except Exception:
        return None
    if not isinstance(fn, (ast.FunctionDef, ast.AsyncFunctionDef)):
        return None
    a = fn.args
    params = [x.arg for x in a.posonlyargs + a.args + a.kwonlyargs]
    params += [a.vararg.arg] if a.vararg else []
    params += [a.kwarg.arg] if a.kwarg else []
    loads = {x.id for b in fn.body for x in ast.walk(b) if isinstance(x, ast.Name)}
    uses_locals = any(isinstance(x, ast.Call) and getattr(x.func, "id", "") in ("locals", "vars")
                      for b in fn.body for x in ast.walk(b))
    if uses_locals:
        return []
    return [p for p in params if p not in loads and p != "self"]


def probe_truncated_normal() -> dict:
    """The one wrapper whose parameters are unread today: lower/upper must bound the result."""
    import jax
    from jax2onnx import to_onnx
    import irtools
    key = jax.random.PRNGKey(0)
    eager = np.asarray(jax.random.truncated_normal(key, 1.0, 2.0, (4,)))
    model = to_onnx(lambda k: jax.random.truncated_normal(k, 1.0, 2.0, (4,)),
                    [jax.ShapeDtypeStruct((2,), np.uint32)])
    got = np.asarray(irtools.run_ort(model, {model.graph.input[0].name: np.asarray(key)})[0])
    return {"eager_in_bounds": bool(((eager >= 1) & (eager <= 2)).all()),
            "exported_in_bounds": bool(((got >= 1) & (got <= 2)).all()),
            "exported": got.tolist(), "eager": eager.tolist(),
            "ops": [n.op_type for n in model.graph.node]}


def probe_function_plugin() -> dict:
    """FunctionPlugin's wrapper (`@onnx_function`) forwards every call form (it is generic), but what
    happens to a *static* Python keyword?  A module whose __call__ branches on a bool parameter."""
    from jax2onnx import to_onnx, onnx_function
    from jax2onnx.plugins import plugin_system as ps
    from flax import nnx
    import irtools
    before = set(ps.PLUGIN_REGISTRY), set(ps.ONNX_FUNCTION_PLUGIN_REGISTRY)
    out: dict = {}
    try:
        @onnx_function
        class VerifGate(nnx.Module):
            def __call__(self, x, flag=True):
                if flag:
                    return x * 2.0
                return x + 1.0

        g = VerifGate()
        x = np.ones((3,), np.float32)
        for name, call in (("default", lambda a: g(a)), ("flag=False", lambda a: g(a, flag=False)),
                           ("positional False", lambda a: g(a, False))):
            want = np.asarray(call(x))
            try:
                m = to_onnx(call, [(3,)])
                got = np.asarray(irtools.run_ort(m, {m.graph.input[0].name: x})[0])
                out[name] = "agree" if np.allclose(got, want) else f"DISAGREE ort={got.tolist()} jax={want.tolist()}"
            except (NotImplementedError, ValueError) as e:
                out[name] = f"explicit: {type(e).__name__}"
            except Exception as e:
                out[name] = f"{type(e).__name__}: {str(e)[:100]}"
    finally:
        for k in set(ps.PLUGIN_REGISTRY) - before[0]:
            ps.PLUGIN_REGISTRY.pop(k, None)
        for k in set(ps.ONNX_FUNCTION_PLUGIN_REGISTRY) - before[1]:
            ps.ONNX_FUNCTION_PLUGIN_REGISTRY.pop(k, None)
    return out


class _NullCheck:
    def count(self, *a, **k): pass
    def add(self, *a, **k): pass
    def info(self, *a, **k): pass
    def log(self, *a, **k): pass


class OneShotDriver:
    """The three users of the Lean driver run twice: a recording pass collects their request lines, ONE
    `lean --run` invocation answers all of them, the second pass consumes the answers (request generation is
    deterministic: same PRNG state, same live table)."""

    def __init__(self):
        self.recording = True
        self.requests: list[list[str]] = []
        self.answers: list[list[str]] = []

    class _Stop(Exception):
        pass

    def __call__(self, lines):
        if self.recording:
            self.requests.append(list(lines))
            raise OneShotDriver._Stop()
        want = self.requests.pop(0)
        if want != list(lines):
            raise RuntimeError("driver requests changed between the recording and the judging pass")
        return self.answers.pop(0)

    def flush(self):
        flat = [l for r in self.requests for l in r]
        ans = common.run_driver("C19", flat)
        i = 0
        for r in self.requests:
            self.answers.append(ans[i:i + len(r)])
            i += len(r)
        self.recording = False


# ----------------------------------------------------------------------------- the check


def _forms_from_driver(live: dict, driver=None) -> None:
    """allUncovered of every distinct pair through the Lean driver (names decoded)."""
    tab = live["names"]
    inv = {v: k for k, v in tab.items()}
    firsts = {}
    for p in live["pairs"]:
        firsts.setdefault(p["row"], p)
    rows = sorted(firsts)
    ans = (driver or (lambda ls: common.run_driver("C19", ls)))(
        [f"A {_enc_sig(firsts[r]['O'], tab)} ; {_enc_sig(firsts[r]['W'], tab)}" for r in rows])
    by_row = {}
    for r, a in zip(rows, ans):
        a = a.strip()
        forms = []
        if a:
            for f in a.split(" | "):
                t = f.split()
                forms.append((int(t[0]), [inv.get(int(x), FRESH) for x in t[1:]]))
        by_row[r] = forms
    for p in live["pairs"]:
        p["forms"] = by_row[p["row"]]


def _captures(pairs: list[dict]) -> None:
    """capture_call with sharing between aliases of the same original function."""
    by_orig: dict[int, Any] = {}
    for p in pairs:
        cap, tc = capture_call(p)
        if cap is not None:
            by_orig.setdefault(id(p["orig"]), (cap, tc))
        p["capture"], p["capture_tc"] = cap, tc
    for p in pairs:
        if p["capture"] is None and id(p["orig"]) in by_orig:
            p["capture"], p["capture_tc"] = by_orig[id(p["orig"])]
    # same plugin, same original signature (module alias wrapping the same implementation)
    for p in pairs:
        if p["capture"] is None:
            for q in pairs:
                if q["capture"] is not None and q["plugin"] == p["plugin"] and q["O"] == p["O"]:
                    p["capture"], p["capture_tc"] = q["capture"], q["capture_tc"]
                    break


def _extras_call(pair: dict, captured, npos: int, kws: list[str]):
    """The form plus the optional arguments of the captured call, as long as the enlarged form is
    still accepted by the original and rejected by the substitute."""
    so = pair["so"]
    ba = so.bind(*captured[0], **captured[1])
    pos = [p[0] for p in pair["O"] if p[1] in (0, 1)]
    addr = {p[0] for p in pair["O"] if p[1] in (1, 3)}
    extra = [n for n in ba.arguments if n in addr and n not in kws and n not in pos[:npos]]
    kw2 = list(kws)
    for n in extra:
        if py_binds(pair["O"], npos, kw2 + [n]) and not py_binds(pair["W"], npos, kw2 + [n]):
            kw2.append(n)
    return kw2 if len(kw2) > len(kws) else None


def replay_form(pair: dict, npos: int, kws: list[str]) -> dict:
    cap = pair.get("capture")
    if cap is None:
        return {"status": "not_replayed", "why": "no testcase of the plugin calls the target"}
    bc = build_call(pair, cap, npos, kws)
    if bc is None:
        return {"status": "not_replayed", "why": "no value for a required argument"}
    out = run_form(pair, *bc)
    if out["status"] == "original_rejects":
        kw2 = _extras_call(pair, cap, npos, kws)
        if kw2:
            bc = build_call(pair, cap, npos, kw2)
            if bc is not None:
                out2 = run_form(pair, *bc)
                if out2["status"] != "original_rejects":
                    out2["replayed_form"] = form_str(npos, kw2)
                    return out2
    return out


def _what(pair, rep, out) -> str:
    return (f"{pair['target']}({rep['call_form']}) is accepted by the library function "
            f"{str(pair['so'])[:120]} but fails while tracing: {out.get('error', out.get('numeric', ''))[:160]}")


FAIL_STATUS = ("binding_typeerror", "other_typeerror", "other_error")


def _matrix_tie(matrix: dict, driver) -> None:
    """Lean's verdict (capture keys equal? classes) for the two keyword values of every two-call-site export."""
    ans = driver([t["line"] for t in matrix["tie"]]) if matrix["tie"] else []
    for t, a in zip(matrix["tie"], ans):
        f = a.split()
        if len(f) != 4:
            raise RuntimeError(f"C19 driver: bad answer {a!r} for {t['line']!r}")
        t["model"] = {"keys_equal": f[0] == "1", "type_name_keys_equal": f[1] == "1", "class_a": f[2], "class_b": f[3]}


def judge_matrix(chk: Check, matrix: dict) -> int:
    """Oracle (eager JAX vs ORT) and one-sided key tie of the FunctionPlugin argument matrix."""
    unlisted = 0
    stats: dict = {}
    tie_of = {id(t["rec"]): t for t in matrix["tie"]}
    for rec in matrix["results"]:
        st, num = rec["status"], rec.get("numeric")
        tag = st if st != "exported" else f"exported:{num}"
        stats[tag] = stats.get(tag, 0) + 1
        chk.count({"fnmatrix": rec["target"], "class": rec["class"], "form": rec["form"], "program": rec["program"],
                   "status": st, "numeric": num}, nontrivial=st == "exported")
        t = tie_of.get(id(rec))
        shared_wrongly = False
        if t is not None and "model" in t:
            shared = rec["functions_used"] == 1
            keq = t["model"]["keys_equal"]
            rec["model"] = t["model"]
            stats["tie_checked"] = stats.get("tie_checked", 0) + 1
            if shared and not keq:
                shared_wrongly = True
                stats["tie_shared_where_model_keys_differ"] = stats.get("tie_shared_where_model_keys_differ", 0) + 1
            elif keq and not shared:
                stats["tie_split_where_model_keys_equal"] = stats.get("tie_split_where_model_keys_equal", 0) + 1
        outcome = None
        if st == "export_error":
            outcome = rec["outcome"]
        elif st == "exported" and num in ("DISAGREE", "ort_type_error"):
            outcome = num
        call = {"kw2": "g(x, p=a) + 2*g(x, p=b)", "pos2": "g(x, a) + 2*g(x, b)",
                "kwswap": "g(x, p=a, q=b) + 2*g(x, p=b, q=a)", "kw1": "g(x, p=a) ; g(x, p=b) in two exports",
                "pos1": "g(x, a) ; g(x, b) in two exports", "mixed": "g(x, a, q=b) + 2*g(x, b, q=a)"}[rec["form"]]
        replay = {"matrix": {k: rec[k] for k in ("target", "class", "form", "program")}, "a": rec["a"], "b": rec["b"],
                  "program": f"@onnx_function {rec['target']} g(x, p=None, q=None); {call}", "input_x": matrix["x"],
                  "observation": {k: v for k, v in rec.items() if k not in ("target", "class", "form", "program")},
                  "how": "harness/vcheck.py C19 --replay <this file>"}
        if outcome is not None:
            key = fnmatrix.finding_key(rec["target"], rec["class"], rec["form"], outcome)
            what = (f"@onnx_function {rec['target']} g(x, p=None, q=None): {call} with a={rec['a']}, b={rec['b']} "
                    f"({rec['class']}) works outside conversion but the export gives {outcome}: "
                    f"{rec.get('error') or ''}"
                    + (f" onnx={rec.get('ort')} jax={rec.get('jax')}" if "ort" in rec else "")
                    + (f"; the two call sites share ONE function body although their capture keys differ in the "
                       f"model (capture_key_injective)" if shared_wrongly else ""))[:500]
            if not chk.finding(key, what, replay):
                unlisted += 1
        elif shared_wrongly:
            chk.violation({**replay, "note": "the two call sites share one ONNX function although the model's capture "
                                             "keys differ (broken correspondence with J2O.C19.Key.captureKey); the "
                                             "exported model still agrees with eager JAX on this input"},
                          name=f"fnplugin-key-tie-{rec['target']}-{rec['class']}-{rec['form']}", no_failing_input=True)
            unlisted += 1
    chk.info("onnx_function_argument_matrix", {**stats, "exports": len(matrix["results"]), "wall_s": matrix["wall_s"]})
    chk.log(f"@onnx_function argument matrix: {stats}")
    return unlisted


def run(chk: Check) -> None:
    rng = common.Rng(chk.seed)
    thorough = chk.tier == "thorough"
    live = generate()
    pairs = live["pairs"]
    flagged = [p for p in pairs if p["flag_py"] is not None]
    chk.info("pairs", {"patch_sites": live["n_specs"], "pairs_with_both_signatures": len(pairs),
                       "distinct_signature_pairs": max((p["row"] for p in pairs), default=-1) + 1,
                       "generic_substitutes": sum(1 for p in pairs if p["generic"]),
                       "monkey_patch_specs": sum(1 for p in pairs if p["kind"] == "monkey"),
                       "onnx_function_sites": sum(1 for p in pairs if p["kind"] == "function"),
                       "flagged_pairs": len(flagged)})
    chk.info("originals_absent_in_installed_library", live["missing"])
    chk.info("callables_without_signature", live["nosig"])
    chk.log(f"{len(pairs)} pairs ({sum(1 for p in pairs if p['generic'])} generic substitutes), "
            f"{len(flagged)} flagged, {len(live['missing'])} targets absent, {len(live['nosig'])} without signature")
    sweep_dir, sweep_procs = start_sweep_workers(chk.tier, 12 if thorough else 8)
    t1 = time.time()
    proved = chk.prove(MODS, checker=thorough)
    chk.log(f"extraction {round(t1 - chk.t0, 1)} s, Lean build+audit {round(time.time() - t1, 1)} s")

    # ---- the model against Python itself and against the live signature objects; uncovered forms
    #      (one Lean driver invocation for all three)
    drv = OneShotDriver()
    n_val = 750 if not thorough else 8000
    matrix = fnmatrix.run_matrix(chk, chk.seed, thorough)
    chk.log(f"@onnx_function argument matrix: {len(matrix['results'])} exports in {matrix['wall_s']} s")
    steps = [lambda: validate_model(chk_or_null[0], common.Rng(chk.seed), n_val, drv),
             lambda: validate_live(chk_or_null[0], live, drv),
             lambda: _forms_from_driver(live, drv),
             lambda: _matrix_tie(matrix, drv)]
    chk_or_null = [_NullCheck()]
    for st in steps:                       # recording pass
        try:
            st()
        except OneShotDriver._Stop:
            pass
    drv.flush()
    chk_or_null[0] = chk
    for st in steps:                       # judging pass
        st()
    flag_mismatch = [p["target"] for p in pairs if bool(p["forms"]) != (p["flag_py"] is not None)]
    if flag_mismatch:
        proved = False
        chk.broken = getattr(chk, "broken", []) + [f"flag mismatch {flag_mismatch[:5]}"]
    for p in pairs:
        chk.count({"target": p["target"], "original": str(p["so"])[:200], "substitute": str(p["sn"])[:200],
                   "uncovered_forms": len(p["forms"])}, nontrivial=not p["generic"])

    # ---- search: replay every representative uncovered form on the real code
    _captures(flagged)
    stats = {"forms_total": 0, "representatives": 0, "confirmed": 0, "original_rejects": 0,
             "not_replayed": 0, "explicit_rejection": 0, "exported": 0}
    unlisted = 0
    details = []
    for p in flagged:
        stats["forms_total"] += len(p["forms"])
        reps = pick_representatives(p, p["forms"])
        if not reps:
            stats["not_replayed"] += 1
            details.append({"target": p["target"], "status": "no representable form"})
        for rep in reps:
            stats["representatives"] += 1
            out = replay_form(p, rep["npos"], rep["kw"])
            st = out["status"]
            details.append({"target": p["target"], "call_form": rep["call_form"], "cause": rep["cause"],
                            "status": st, "error": out.get("error", out.get("eager_error", ""))[:140]})
            chk.count({"replay": p["target"], "form": rep["call_form"], "status": st}, nontrivial=True)
            key = {"target": p["target"], "call_form": rep["call_form"], "cause": ",".join(rep["cause"])}
            replay = {"plugin": p["plugin"], "original_signature": str(p["so"]), "substitute_signature": str(p["sn"]),
                      "testcase_used_for_arguments": p.get("capture_tc"), "observation": out,
                      "how": "harness/vcheck.py C19 --replay <this file>"}
            if st in FAIL_STATUS:
                stats["confirmed"] += 1
                if not chk.finding(key, _what(p, rep, out), replay):
                    unlisted += 1
            elif st == "exported" and out.get("numeric") == "DISAGREE":
                key["kind"] = "wrong_result"
                if not chk.finding(key, _what(p, rep, out), replay):
                    unlisted += 1
            elif st == "original_rejects":
                stats["original_rejects"] += 1
            elif st == "not_replayed":
                stats["not_replayed"] += 1
            elif st == "explicit_rejection":
                stats["explicit_rejection"] += 1
            else:
                stats["exported"] += 1
    chk.info("replay", stats)
    chk.log(f"replayed {stats['representatives']} representative forms of {len(flagged)} flagged pairs: "
            f"{stats['confirmed']} fail while tracing, {stats['original_rejects']} rejected by the original itself, "
            f"{stats['not_replayed']} not replayed (t={round(time.time() - chk.t0, 1)} s)")
    chk.info("replay_details", details)
    chk.add("disagreements_checked", stats["representatives"])

    # ---- meaning of forwarded arguments: systematic parameter sweep (worker processes started above)
    unlisted += collect_sweep(chk, sweep_dir, sweep_procs, 3000 if thorough else 900)

    # ---- "no argument is silently ignored": AST pass + execution probe (validation)
    ignored = []
    for p in pairs:
        if p["generic"] or p["kind"] != "monkey":
            continue
        u = unread_parameters(p)
        if u:
            ignored.append({"target": p["target"], "unread_parameters": u})
    chk.info("wrappers_with_unread_parameters", ignored)
    for it in ignored:
        if it["target"] == "jax.random.truncated_normal":
            pr = probe_truncated_normal()
            it["probe"] = pr
            if pr["eager_in_bounds"] and not pr["exported_in_bounds"]:
                if not chk.finding({"target": it["target"], "kind": "ignored_arguments",
                                    "parameters": ",".join(it["unread_parameters"])},
                                   "jax.random.truncated_normal(key, 1.0, 2.0, (4,)) exports a constant zero tensor: "
                                   "key/lower/upper are never read by the substitute", {"probe": pr}):
                    unlisted += 1
        else:
            # a wrapper newly ignoring a parameter: no value-level probe is known for it
            if not chk.finding({"target": it["target"], "kind": "ignored_arguments",
                                "parameters": ",".join(it["unread_parameters"])},
                               f"substitute of {it['target']} never reads {it['unread_parameters']}",
                               {"source": "AST pass over the wrapper body"}):
                unlisted += 1

    fp = probe_function_plugin()
    chk.info("function_plugin_static_keyword_probe", fp)
    for name, res in fp.items():
        if res != "agree" and not res.startswith("explicit"):
            if not chk.finding({"target": "onnx_function:__call__", "kind": "static_keyword", "call": name},
                               f"@onnx_function module with __call__(self, x, flag=True) branching on flag, called "
                               f"with {name}: {res}", {"probe": fp}):
                unlisted += 1

    unlisted += judge_matrix(chk, matrix)

    if live["errors"]:
        chk.violation({"extraction_errors": live["errors"],
                       "note": "binding_specs()/make_value raised for these plugins: the substitute cannot be installed"},
                      name="extraction-errors", no_failing_input=True)
    if not proved and unlisted == 0:
        chk.violation({"broken": getattr(chk, "broken", []),
                       "build_log_tail": getattr(chk, "build_log", "")[-3000:],
                       "note": "a Lean obligation about the regenerated signature table no longer checks and no "
                               "failing call was found on the real code"},
                      name="obligation-broken", no_failing_input=True)
    chk.assumptions += [
        "inspect.signature describes what a callable binds (substitutes: follow_wrapped=False)",
        "binding is modelled on call forms (positional count, keyword names); values never influence binding",
        "argument values for replays come from the plugin's own testcases (captured) or parameter defaults",
    ]
    chk.coverage["rule"] = (
        "every (original, substitute) signature pair of the live registry (non-trivial = substitute is not the "
        "generic (*args, **kwargs)); model validation: seeded random signatures x call forms against real calls "
        "(non-trivial = binds or has keywords); replay: one representative form per distinct rejection cause of "
        "every flagged pair")
    chk.coverage["exhaustive"] = False


def semantic_sample(chk: Check, rng: common.Rng, cands: list[dict], k: int) -> int:
    """Captured call, all-keyword and all-positional variants of sampled wrappers: ORT vs eager JAX."""
    seen, uniq = set(), []
    for p in cands:
        if p["target"] not in seen:
            seen.add(p["target"])
            uniq.append(p)
    sample = rng.sample(uniq, min(k, len(uniq)))
    _captures(sample)
    stats = {"pairs": 0, "calls": 0, "agree": 0, "no_capture": 0, "other": 0}
    unlisted = 0
    for p in sample:
        cap = p.get("capture")
        if cap is None:
            stats["no_capture"] += 1
            continue
        stats["pairs"] += 1
        try:
            ba = p["so"].bind(*cap[0], **cap[1])
        except TypeError:
            continue
        supplied = list(ba.arguments)
        posn = [q[0] for q in p["O"] if q[1] in (0, 1)]
        variants = {}
        n_cap = len(cap[0])
        variants["as_captured"] = (n_cap, [n for n in cap[1]])
        n_min = 1 if p["is_method"] else 0
        n_min = max(n_min, len([q for q in p["O"] if q[1] == 0]))
        kws = [n for n in supplied if n not in posn[:n_min]]
        variants["all_keyword"] = (n_min, kws)
        n_max = 0
        for n in posn:
            if n in supplied:
                n_max += 1
            else:
                break
        variants["all_positional"] = (n_max, [n for n in supplied if n not in posn[:n_max]])
        for vname, (n, kw) in variants.items():
            if any(q[1] in (2, 4) and q[0] in kw for q in p["O"]):
                continue
            if not (py_binds(p["O"], n, kw) and py_binds(p["W"], n, kw)):
                continue
            bc = build_call(p, cap, n, kw)
            if bc is None:
                continue
            out = run_form(p, *bc)
            stats["calls"] += 1
            chk.count({"semantic": p["target"], "variant": vname, "form": form_str(n, kw),
                       "status": out["status"], "numeric": out.get("numeric")}, nontrivial=True)
            if out["status"] == "exported" and out.get("numeric") == "agree":
                stats["agree"] += 1
            elif out["status"] in ("binding_typeerror",) or out.get("numeric") == "DISAGREE":
                key = {"target": p["target"], "call_form": form_str(n, kw), "kind": "semantic:" + vname}
                if not chk.finding(key, _what(p, {"call_form": form_str(n, kw)}, out),
                                   {"observation": out, "variant": vname, "plugin": p["plugin"],
                                    "testcase_used_for_arguments": p.get("capture_tc")}):
                    unlisted += 1
            else:
                stats["other"] += 1
                stats.setdefault("other_samples", [])
                if len(stats["other_samples"]) < 8:
                    stats["other_samples"].append({"target": p["target"], "variant": vname,
                                                   "status": out["status"],
                                                   "detail": (out.get("error") or out.get("eager_error") or
                                                              out.get("numeric") or "")[:120]})
    chk.info("semantic_sample", stats)
    return unlisted


# ----------------------------------------------------------------------------- parameter sweep (meaning)

SKIP_PARAMS = {"out", "device", "out_sharding", "precision", "preferred_element_type", "rngs", "rng", "key",
               "dropout_rng", "module", "promote_dtype", "sow_weights", "order", "copy", "implementation",
               "unroll", "body_fun", "cond_fun", "init_val", "self"}


def _np_like(x):
    try:
        return np.asarray(x)
    except Exception:
        return None


def _is_zero(v) -> bool:
    return isinstance(v, (int, float)) and not isinstance(v, bool) and v == 0


def candidate_values(pair: dict, pname: str, param: inspect.Parameter, vals: dict) -> list:
    """Non-default values for one parameter of the original: by name, then by the type of its default.
    Every candidate is tried eagerly on the original first; what it rejects is discarded."""
    import jax.numpy as jnp
    first = None
    for v in vals.values():
        if _is_arr(v):
            first = np.asarray(v)
            break
    rank = first.ndim if first is not None else 1
    d = param.default
    by_name = {
        "dtype": [jnp.int32, jnp.float16, jnp.float32],
        "axis": [0, -1] + ([1] if rank > 1 else []) + ([(0, 1)] if rank > 1 else []),
        "axes": [(0,), tuple(range(rank))[::-1]],
        "keepdims": [True], "keepdim": [True],
        "initial": [1.5], "ddof": [1], "decimals": [1], "k": [1, -1], "offset": [1],
        "min": [-0.25], "max": [0.4], "a_min": [-0.25], "a_max": [0.4],
        "where": [np.ones(first.shape, bool) if first is None else (np.arange(first.size).reshape(first.shape) % 2 == 0)]
        if first is not None else [],
        "stable": [False], "descending": [True], "endpoint": [False], "retstep": [True], "num": [7],
        "side": ["right"], "indexing": ["ij"], "mode": ["clip", "wrap"], "fill_value": [2],
        "approximate": [False, True], "negative_slope": [0.3], "alpha": [0.7], "epsilon": [1e-3, 0.0], "eps": [1e-3, 0.0],
        "ord": [1, 2], "rcond": [1e-3], "n": [2], "prepend": [0.0], "append": [0.0], "base": [3.0],
        "unique_indices": [True], "indices_are_sorted": [True], "promote_integers": [False],
        "use_bias": [False], "deterministic": [True], "scale": [0.5], "is_causal": [True],
        "count_include_pad": [False], "strides": [(1, 1)], "padding": ["SAME"], "invert": [True],
        "assume_unique": [True], "total_repeat_length": [], "size": [],
    }
    out = list(by_name.get(pname, []))
    if isinstance(d, bool):
        out.append(not d)
    elif isinstance(d, int) and pname not in by_name:
        out += [d + 1, 0 if d != 0 else 1]
    elif isinstance(d, float) and pname not in by_name:
        out.append(d * 2 + 0.5)
    res, seen = [], set()
    for v in out:
        key = repr(v)
        if key in seen or (d is not K.empty and isinstance(v, (bool, int, float, str, tuple)) and v == d and type(v) is type(d)):
            continue
        seen.add(key)
        res.append(v)
    return res


PRODUCERS = {
    "id": None,
    "abs": lambda a: abs(a),
    "mul_self": lambda a: a * a,
    "pow2": lambda a: a ** 2,
}


def sweep_forms(pair: dict, supplied: list[str], quick: bool) -> list[tuple[int, list[str]]]:
    """Positional / keyword / MIXED forms of one value assignment: for every split point k the first k
    positional parameters go positionally (defaults filled in explicitly), the rest by keyword."""
    O = pair["O"]
    pos = [q for q in O if q[1] in (0, 1)]
    names = [q[0] for q in pos]
    kmin = max(1 if pair["is_method"] else 0, len([q for q in pos if q[1] == 0 and q[0] in supplied]))
    idx = [names.index(n) for n in supplied if n in names]
    last = (max(idx) + 1) if idx else 0
    forms = []
    for k in range(kmin, max(last, kmin) + 1):
        kw = [n for n in supplied if n not in names[:k]]
        if any(q[0] in kw and q[1] not in (1, 3) for q in O):
            continue
        if any(not q[2] and q[0] not in supplied for q in pos[:k]):
            continue
        if py_binds(O, k, kw) and py_binds(pair["W"], k, kw):
            forms.append((k, kw))
    if quick and len(forms) > 4:
        forms = [forms[0], forms[len(forms) // 2 - 1], forms[len(forms) // 2], forms[-1]]
    return forms


def _dtype_class_ok(got: np.dtype, want: np.dtype) -> bool:
    if got == want:
        return True
    if want.kind in "iu" and got == np.dtype(np.int64):
        return True          # integers may widen to int64 (C05)
    if want.kind == "c" and got.kind == "f":
        return True          # complex is exported as a pair of reals (C05)
    return False


def run_form_checked(pair: dict, args, kwargs, producer: str = "id") -> dict:
    """run_form + dtype comparison, with an optional producer applied to the first float array argument
    (inside the traced program and in the eager reference alike)."""
    import jax
    from jax2onnx import to_onnx
    import irtools
    tgt, attr = pair["tgt_obj"], pair["attr"]
    prod = PRODUCERS[producer]
    slots: list = []
    t_args = [_split_traced(v, slots) for v in args]
    t_kwargs = {k: _split_traced(v, slots) for k, v in kwargs.items()}
    pslot = next((i for i, a in enumerate(slots) if a.dtype.kind == "f"), None) if prod else None

    def feed(arrs):
        arrs = list(arrs)
        if pslot is not None:
            arrs[pslot] = prod(arrs[pslot])
        return arrs

    def call(f, arrs):
        arrs = feed(arrs)
        return f(*[_fill(t, arrs) for t in t_args], **{k: _fill(t, arrs) for k, t in t_kwargs.items()})

    try:
        expected = call(pair["orig"], [jax.numpy.asarray(a) for a in slots])
        raw_leaves = jax.tree_util.tree_leaves(expected)
        exp_leaves = [np.asarray(l) for l in raw_leaves]
        typed = [hasattr(l, "dtype") for l in raw_leaves]     # Python scalars carry no dtype to compare
    except Exception as e:
        return {"status": "original_rejects", "eager_error": f"{type(e).__name__}: {str(e)[:120]}"}
    if any(l.dtype == object for l in exp_leaves) or not exp_leaves:
        return {"status": "original_rejects", "eager_error": "non-array result"}

    def program(*arrs):
        return call(getattr(tgt, attr), arrs)

    specs = [jax.ShapeDtypeStruct(a.shape, a.dtype) for a in slots]
    try:
        model = to_onnx(program, specs)
    except TypeError as e:
        return {"status": "binding_typeerror" if BIND_ERR.search(str(e)) else "other_typeerror",
                "error": f"TypeError: {str(e)[:200]}"}
    except (NotImplementedError, ValueError) as e:
        return {"status": "explicit_rejection", "error": f"{type(e).__name__}: {str(e)[:160]}"}
    except Exception as e:
        return {"status": "other_error", "error": f"{type(e).__name__}: {str(e)[:200]}"}
    res: dict = {"status": "exported"}
    gin = list(model.graph.input)
    if len(gin) != len(slots):
        res["numeric"] = "skipped (inputs differ)"
        return res
    try:
        got = irtools.run_ort(model, {i.name: a for i, a in zip(gin, slots)})
    except Exception as e:
        msg = str(e)
        if "Type Error" in msg or "bound to different types" in msg:
            res["numeric"] = "ORT_TYPE_ERROR"        # the model contradicts itself about an element type
            res["error"] = msg[:200]
        else:
            # no kernel / operator newer than the runtime: other properties' business (C11, C03)
            res["numeric"] = "skipped (runtime cannot run the model)"
        return res
    if len(got) == len(exp_leaves):
        for j, (g, e) in enumerate(zip(got, exp_leaves)):
            g = np.asarray(g)
            if typed[j] and not _dtype_class_ok(g.dtype, e.dtype):
                res["numeric"] = "DTYPE"
                res["why"] = f"output {j}: onnx {g.dtype} vs jax {e.dtype}"
                return res
    if RANDOM_TARGETS.search(pair["target"]):
        res["numeric"] = "skipped (random function)"
        return res

    def flat(arrs):
        out = []
        for x in arrs:
            x = np.asarray(x)
            if x.dtype.kind == "c":
                x = np.stack([x.real, x.imag], axis=-1)
            out.append(x.astype(np.float64).reshape(-1))
        return np.concatenate(out) if out else np.zeros((0,))

    g, e = flat(got), flat(exp_leaves)
    if any(l.dtype.kind in "iu" for l in exp_leaves) and (np.abs(e).max(initial=0) >= 2 ** 31 - 1
                                                          or np.abs(g).max(initial=0) >= 2 ** 31 - 1):
        res["numeric"] = "skipped (integer overflow: wrap vs saturate is not specified)"
        return res
    half = any(l.dtype in (np.dtype(np.float16),) or "bfloat16" in l.dtype.name for l in exp_leaves)
    rtol, atol = (2e-2, 2e-2) if half else (1e-3, 1e-4)
    ok = g.shape == e.shape and bool(np.allclose(g, e, rtol=rtol, atol=atol, equal_nan=True))
    res["numeric"] = "agree" if ok else "DISAGREE"
    if not ok:
        res["ort"], res["jax"] = g[:6].tolist(), e[:6].tolist()
    return res


def capture_all(pair: dict, max_cases: int = 6) -> list:
    """Like capture_call, but one capture per testcase (distinct sets of supplied parameters first)."""
    from jax2onnx.plugins import plugin_system as ps
    plugin = ps.PLUGIN_REGISTRY.get(pair["plugin"])
    tcs = list((getattr(plugin, "metadata", None) or {}).get("testcases", []) or [])
    tgt, attr, orig = pair["tgt_obj"], pair["attr"], pair["orig"]
    rng = np.random.default_rng(2024)
    caps, seen = [], set()
    for tc in tcs[:max_cases * 2]:
        fn = tc.get("callable")
        if fn is None or tc.get("input_params"):
            continue
        box: dict = {}

        def recorder(*a, **k):
            if "call" not in box:
                box["call"] = (a, dict(k))
            return orig(*a, **k)

        try:
            if hasattr(fn, "with_dtype"):
                fn = fn.with_dtype(np.float32)
            if hasattr(fn, "instantiate"):
                fn = fn.instantiate()
            xs = _concrete_inputs(tc, rng)
            if xs is None:
                continue
            had = attr in getattr(tgt, "__dict__", {})
            setattr(tgt, attr, recorder)
            try:
                fn(*xs)
            finally:
                if had or not inspect.isclass(tgt):
                    setattr(tgt, attr, orig)
                else:
                    delattr(tgt, attr)
        except Exception:
            pass
        if "call" in box:
            try:
                ba = pair["so"].bind(*box["call"][0], **box["call"][1])
            except TypeError:
                continue
            if any(q[1] in (2, 4) and q[0] in ba.arguments and ba.arguments[q[0]] for q in pair["O"]):
                continue
            import jax
            if any(isinstance(l, jax.core.Tracer) for l in jax.tree_util.tree_leaves(
                    [v for v in ba.arguments.values() if isinstance(v, (list, tuple, dict)) or hasattr(v, "shape")])):
                continue          # the testcase calls the target under vmap/grad: no concrete arguments
            sig = (tuple(ba.arguments), tuple(repr(type(v)) for v in ba.arguments.values()))
            if sig in seen:
                continue
            seen.add(sig)
            caps.append((box["call"], tc.get("testcase")))
            if len(caps) >= max_cases:
                break
    return caps


def _call_from(pair: dict, vals: dict, k: int, kw: list[str]):
    params = list(pair["so"].parameters.values())
    pos = [q for q in params if q.kind in (K.POSITIONAL_ONLY, K.POSITIONAL_OR_KEYWORD)]

    def value(q):
        if q.name in vals:
            return vals[q.name]
        if q.default is not K.empty:
            return q.default
        raise KeyError(q.name)

    try:
        return [value(q) for q in pos[:k]], {n: vals[n] for n in kw}
    except KeyError:
        return None


class SweepSink:
    """Collects what a sweep (possibly in a worker process) saw; replayed into the Check by the parent."""

    def __init__(self):
        self.cases: list = []
        self.findings: list = []
        self.stats: dict = {}

    def count(self, case, nontrivial=True):
        self.cases.append((case, nontrivial))

    def finding(self, key, what, replay):
        self.findings.append((key, what, replay))
        return True

    def info(self, k, v):
        self.stats = v

    def log(self, msg):
        pass


def sweep_targets(pairs: list[dict]) -> list[dict]:
    seen_t, targets = set(), []
    for p in pairs:
        if p["kind"] != "monkey" or id(p["orig"]) in seen_t:
            continue
        seen_t.add(id(p["orig"]))
        targets.append(p)
    return targets


def parameter_sweep(chk, rng, pairs: list[dict], thorough: bool, shard=None, only_target=None) -> int:
    """For every substituted function with a plugin testcase: every parameter of the original with a
    non-default value, in positional, keyword and mixed forms, behind producers that trigger plugin-internal
    fusions; values AND dtypes against eager JAX."""
    targets = sweep_targets(pairs)
    if shard is not None:
        targets = [t for i, t in enumerate(targets) if i % shard[1] == shard[0]]
    if only_target is not None:
        targets = [t for t in targets if t["target"] == only_target]
    stats = {"targets": 0, "targets_without_capture": 0, "assignments": 0, "calls": 0, "agree": 0,
             "original_rejects": 0, "explicit_rejection": 0, "skipped_numeric": 0, "deviations": 0}
    unlisted = 0
    budget_calls = 10 ** 9 if thorough else 14      # per target in the quick tier
    t_start = time.time()
    for p in targets:
        caps = capture_all(p, 6 if thorough else 3)
        if not caps:
            stats["targets_without_capture"] += 1
            continue
        stats["targets"] += 1
        params = p["so"].parameters
        work = []        # (vals, what, producers)
        pair_work = []   # the same for pairs of parameters; run after the singles with their own budget
        for ci, (cap, tcname) in enumerate(caps):
            try:
                vals = dict(p["so"].bind(*cap[0], **cap[1]).arguments)
            except TypeError:
                continue
            ck, ckw = len(cap[0]), list(cap[1])
            cbc = _call_from(p, vals, ck, ckw)
            try:
                ctrl = run_form_checked(p, cbc[0], cbc[1], "id") if cbc else {"status": "none"}
            except Exception:
                ctrl = {"status": "harness"}
            if not (ctrl["status"] == "exported" and (ctrl.get("numeric") == "agree"
                                                       or str(ctrl.get("numeric")).startswith("skipped"))):
                # the plugin's own call does not survive the one-call program of this harness (an argument
                # that must stay static became a graph input, ...): nothing can be concluded from variants
                stats.setdefault("captures_without_control", 0)
                stats["captures_without_control"] += 1
                continue
            work.append((vals, {"capture": tcname}, ["id"]))
            extra = [n for n, q in params.items()
                     if n not in vals and n not in SKIP_PARAMS and q.kind in (K.POSITIONAL_OR_KEYWORD, K.KEYWORD_ONLY)
                     and q.default is not K.empty]
            if ci > 0 and not thorough:
                extra = []
            singles = []
            for n in extra:
                cands = candidate_values(p, n, params[n], vals)
                if not thorough:
                    cands = cands[:2]
                for v in cands:
                    prods = ["id", "abs", "mul_self", "pow2"] if (thorough or n == "dtype") else ["id", "abs"]
                    work.append(({**vals, n: v}, {"capture": tcname, "param": n, "value": repr(v)[:40]}, prods))
                    singles.append((n, v))
            # PAIRS of non-default parameters: a wrapper may honour each parameter alone and drop one of them
            # on a fast path that only some OTHER parameter's value selects (quick: every pair once, first
            # capture only; thorough: every pair of candidate values)
            if ci == 0 or thorough:
                seen_pairs = set()
                for i1, (n1, v1) in enumerate(singles):
                    for (n2, v2) in singles[i1 + 1:]:
                        if n1 == n2 or (not thorough and (n1, n2) in seen_pairs and not (_is_zero(v1) or _is_zero(v2))):
                            continue
                        seen_pairs.add((n1, n2))
                        pair_work.append(({**vals, n1: v1, n2: v2},
                                          {"capture": tcname, "param": n2, "with": n1,
                                           "value": repr(v2)[:30] + " & " + n1 + "=" + repr(v1)[:30]}, ["id"]))
        calls = 0
        n_single = len(work)
        # pairs in which one member is a boundary value (0 / 0.0: the values that select fast paths) go first:
        # the quick tier's call budget per function must reach them
        pair_work.sort(key=lambda w: 0 if " & " in w[1].get("value", "") and
                       any(tok.strip() in ("0", "0.0") or tok.strip().endswith("=0") or tok.strip().endswith("=0.0")
                           for tok in w[1]["value"].split(" & ")) else 1)
        work = work + pair_work
        single_bad: set = set()     # (param, repr(value)) whose use ALONE already deviates / is rejected / was not run
        single_ok: set = set()
        for wi, (vals, what, prods) in enumerate(work):
            if wi == n_single:
                calls = max(0, budget_calls - (10 ** 9 if thorough else 10))    # pairs: their own (smaller) budget
            if "with" in what:
                # a PAIR is judged only when each of its two parameters, used alone with the same value, agreed
                # with the library: what deviates alone is already reported once, by the single assignment
                k1 = (what["with"], what["value"].split(" & ")[1].split("=", 1)[1])
                k2 = (what["param"], what["value"].split(" & ")[0])
                if k1 not in single_ok or k2 not in single_ok or k1 in single_bad or k2 in single_bad:
                    stats["pairs_skipped_single_not_clean"] = stats.get("pairs_skipped_single_not_clean", 0) + 1
                    continue
                stats["pairs_judged"] = stats.get("pairs_judged", 0) + 1
            stats["assignments"] += 1
            forms = sweep_forms(p, list(vals), not thorough)
            if "param" in what and not thorough:
                # the new parameter by keyword and (if possible) positionally
                pn = what["param"]
                forms = [f for f in forms if pn in f[1]][:1] + [f for f in forms if pn not in f[1]][-1:]
            for fi, (k, kw) in enumerate(forms):
                plain_deviates = False
                for pr in (prods if fi == 0 else prods[:1]):
                    if calls >= budget_calls or plain_deviates:
                        break
                    bc = _call_from(p, vals, k, kw)
                    if bc is None:
                        continue
                    try:
                        out = run_form_checked(p, bc[0], bc[1], pr)
                    except Exception as e:      # argument plumbing of the harness, not a verdict
                        stats.setdefault("harness_skips", 0)
                        stats["harness_skips"] += 1
                        continue
                    calls += 1
                    stats["calls"] += 1
                    st, num = out["status"], out.get("numeric")
                    case = {"sweep": p["target"], "form": form_str(k, kw), "producer": pr, **what,
                            "status": st, "numeric": num}
                    chk.count(case, nontrivial=st == "exported")
                    if st == "original_rejects":
                        stats["original_rejects"] += 1
                    elif st == "explicit_rejection":
                        stats["explicit_rejection"] += 1
                    elif st == "exported" and num == "agree":
                        stats["agree"] += 1
                        if "param" in what and "with" not in what:
                            single_ok.add((what["param"], what["value"][:30]))
                    elif st == "exported" and str(num).startswith("skipped"):
                        stats["skipped_numeric"] += 1
                    else:
                        stats["deviations"] += 1
                        if "param" in what and "with" not in what:
                            single_bad.add((what["param"], what["value"][:30]))
                        plain_deviates = pr == "id"
                        key = {"target": p["target"], "kind": "meaning", "call_form": form_str(k, kw),
                               "param": what.get("param", ""), "value": what.get("value", ""),
                               "producer": pr, "outcome": num or st}
                        whatmsg = (f"{p['target']}({form_str(k, kw)}"
                                   + (f", {what['param']}={what['value']}" if "param" in what else "")
                                   + (f", first array argument = {pr}(x)" if pr != "id" else "")
                                   + f") agrees with the library outside conversion but the export gives "
                                     f"{num or st}: {out.get('why') or out.get('error') or ''} "
                                     f"{('onnx=' + str(out.get('ort')) + ' jax=' + str(out.get('jax'))) if 'ort' in out else ''}")[:400]
                        if not chk.finding(key, whatmsg, {"plugin": p["plugin"], "observation": out,
                                                          "testcase_used_for_arguments": what.get("capture"),
                                                          "values": {n: repr(v)[:60] for n, v in vals.items()},
                                                          "how": "harness/vcheck.py C19 --replay <this file>"}):
                            unlisted += 1
    stats["wall_s"] = round(time.time() - t_start, 1)
    chk.info("parameter_sweep", stats)
    chk.log(f"parameter sweep: {stats['targets']} functions, {stats['calls']} calls, {stats['agree']} agree, "
            f"{stats['deviations']} deviations in {stats['wall_s']} s")
    return unlisted


def sweep_worker(i: int, n: int, tier: str, out: str) -> None:
    """Entry point of one sweep worker process (own import of /repo, own registry walk)."""
    live = collect_pairs()
    sink = SweepSink()
    parameter_sweep(sink, None, live["pairs"], tier == "thorough", shard=(i, n))
    with open(out, "w") as fh:
        json.dump({"cases": sink.cases, "findings": sink.findings, "stats": sink.stats}, fh, default=str)


def start_sweep_workers(tier: str, n: int):
    import os
    import subprocess
    import sys
    import tempfile
    d = tempfile.mkdtemp(prefix="c19sweep_")
    harness = str(common.VERIF / "harness")
    procs = []
    for i in range(n):
        out = os.path.join(d, f"w{i}.json")
        code = (f"import sys; sys.path.insert(0, {harness!r}); import common; common.use_repo(); "
                f"from props import c19; c19.sweep_worker({i}, {n}, {tier!r}, {out!r})")
        env = dict(os.environ)
        env.setdefault("XLA_FLAGS", "--xla_cpu_multi_thread_eigen=false intra_op_parallelism_threads=1")
        env.setdefault("OMP_NUM_THREADS", "1")
        procs.append((subprocess.Popen([sys.executable, "-c", code], stdout=subprocess.DEVNULL,
                                       stderr=subprocess.PIPE, env=env), out))
    return d, procs


def collect_sweep(chk: Check, d: str, procs, timeout: int) -> int:
    import shutil
    unlisted = 0
    total: dict = {}
    try:
        for proc, out in procs:
            try:
                _, err = proc.communicate(timeout=timeout)
            except Exception:
                proc.kill()
                raise RuntimeError("parameter-sweep worker timed out")
            if proc.returncode != 0:
                raise RuntimeError(f"parameter-sweep worker failed: {err.decode()[-1500:]}")
            data = json.loads(open(out).read())
            for case, nt in data["cases"]:
                chk.count(case, nontrivial=nt)
            for key, what, rep in data["findings"]:
                if not chk.finding(key, what, rep):
                    unlisted += 1
            for k, v in data["stats"].items():
                if isinstance(v, (int, float)):
                    total[k] = round(total.get(k, 0) + v, 1) if k != "wall_s" else max(total.get(k, 0), v)
    finally:
        shutil.rmtree(d, ignore_errors=True)
    chk.info("parameter_sweep", total)
    chk.log(f"parameter sweep ({len(procs)} workers): {total.get('targets')} functions, {total.get('calls')} calls, "
            f"{total.get('agree')} agree, {total.get('deviations')} deviations, slowest worker {total.get('wall_s')} s")
    return unlisted


def replay(path: str) -> int:
    rep = json.loads(open(path).read())
    print(json.dumps(rep, indent=1, default=str)[:2500])
    key = rep.get("finding_key", {})
    if "matrix" in rep:
        m = rep["matrix"]
        out = fnmatrix.run_matrix(None, int(rep.get("seed", 0)), rep.get("tier") == "thorough",
                                  only=(m["target"], m["class"], m["form"]))
        bad = [r for r in out["results"]
               if r["status"] == "export_error" or r.get("numeric") in ("DISAGREE", "ort_type_error")
               or (r.get("functions_used") == 1 and rep.get("observation", {}).get("model", {}).get("keys_equal") is False)]
        print("now:", [{k: r.get(k) for k in ("status", "numeric", "outcome", "error", "functions_used", "ort", "jax")}
                       for r in out["results"]])
        return 1 if bad else 0
    if key.get("kind") == "meaning":
        live = collect_pairs()
        sink = SweepSink()
        parameter_sweep(sink, None, live["pairs"], True, only_target=key["target"])
        same = [k for k, _, _ in sink.findings
                if all(k.get(f) == key.get(f) for f in ("call_form", "param", "value", "producer"))]
        print("now:", same[:3] if same else "no deviation for this call")
        return 1 if same else 0
    if "call_form" not in key:
        if key.get("kind") == "ignored_arguments" and key.get("target") == "jax.random.truncated_normal":
            pr = probe_truncated_normal()
            print(pr)
            return 1 if not pr["exported_in_bounds"] else 0
        return 0
    live = collect_pairs()
    m = re.match(r"npos=(\d+);kw=(.*)", key["call_form"])
    npos, kws = int(m.group(1)), [k for k in m.group(2).split(",") if k]
    cands = [p for p in live["pairs"] if p["target"] == key["target"]]
    _captures(cands)
    for p in cands:
        out = replay_form(p, npos, kws)
        print("now:", out)
        if out["status"] in FAIL_STATUS or out.get("numeric") == "DISAGREE":
            return 1
    return 0
