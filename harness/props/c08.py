"""C08 — static type/shape annotations never contradict run time.

Lean (Props/C08.lean): annotation semantics `annotHolds`, order `AnnotLe` with `annotLe_sound`;
`loosen_weakens` / `loosen_keeps_io` / `loosen_sound` for every scope at every depth of any graph
tree (model of ir_postprocess); `promote_keeps_type_in_sync`; `broadcastDims_sound` (model of
`_broadcast_shape_dims`) under the stated hypotheses.

Tie (H): (a) `_broadcast_shape_dims` vs the Lean `broadcastDims` on generated dim lists (symbols, 1s,
unknowns, rank mismatch, single perturbations); (b) the REAL `postprocess_ir_model` is wrapped at run
time, the model before/after is snapshotted for every export and compared with the Lean `loosenModel`
(+ promotion) through the driver.
Search oracle = the property's observable: every exported model is re-emitted with every annotated
value of the top graph — and of Loop bodies, as extra scan outputs, recursively — as an extra graph
output, executed in ONNX Runtime over several symbol bindings, and runtime dtype / rank / every
concrete dim / symbol consistency are compared with the declared value_info.
"""
from __future__ import annotations

import copy
import json
import os
import time
import warnings
from typing import Optional

warnings.filterwarnings("ignore")

import numpy as np

import common
from common import Check

META = {
    "ready": True,
    "level": "proof",
    "technique": "Lean 4: annotation order + weakening theorems for the post-processing model over unbounded graph "
                 "trees, soundness of the broadcast-annotation kernel; driver correspondence with the real "
                 "post-processing (run-time wrapped) and the real kernel; ORT observation of every annotated value",
    "level_text": "Kernel-checked: annotLe_sound, loosen_weakens, loosen_keeps_io, loosen_sound, loosenModel_weakens "
                  "(every scope, any nesting depth, function bodies), promote_keeps_type_in_sync, broadcastDims_sound "
                  "(H1 consistent runtime shapes under one binding, H2 numpy-broadcastable), annotConsistent_sound "
                  "(accepted scope ⇒ every node-output annotation true, for vocabulary nodes); Props/C08Ops.lean: infer_sound "
                  "(shape/dtype rules of Pow/logical/bitwise, comparisons, Where, Cast, Shape, Transpose, Expand, Reshape "
                  "(constant positive target), Constant, Gather, Unsqueeze/Squeeze/ReduceX (one constant axis), Concat — for "
                  "every symbol binding, against the operator specification XSem), annotConsistentX_sound (both "
                  "vocabularies), callSite_sound (the checker applied to a function body with the CALL SITE's argument "
                  "annotations), loop_body_rank_only / other_body_inherits / rankOnly_vinfo / func_body_mode (which scopes "
                  "the post-processing treats rank-only). The models agree with the real postprocess_ir_model on every "
                  "export of the run and with _broadcast_shape_dims on generated lists; the inference rules fed with "
                  "run-time shapes reproduce ONNX Runtime's output shapes/dtypes exactly on every observed vocabulary node.",
    "level_note": "PARTIAL: post-processing and the broadcast kernel are proved on the model; the annotations stamped by "
                  "the ~600 plugins and the other optimiser metadata helpers are CHECKED PER EXPORT by observation in "
                  "ORT (top graph, Loop bodies, and function bodies once per call site by inlining the function with its "
                  "value_info; If branches are not observable this way), over a few symbol bindings – sampled, not proved. "
                  "The proven checker covers the two vocabularies only (other operators are skipped and counted) and assumes "
                  "the ONNX operator specification (NodeSem / XSem) at those nodes. Trusted: translators (attribute values and "
                  "constant payloads are read by harness/c08_attrs.py), ORT as the runtime, Lean's interpreter for per-model "
                  "runs. Genuine defects of the unchanged tree are listed in known_findings.d/C08.json (shared dynamic-dim "
                  "sentinel symbol; DOUBLE declared for a FLOAT ReduceSum result; float16 softmax; stale shapes after the "
                  "single-consumer transpose-chain fold).",
    "design_ref": "DESIGN.md §3 C08",
}

MODS = ["J2O.Props.C08", "J2O.Props.C08Ops"]


# ----------------------------------------------------------------------------- broadcast tie


def _mk_dim(d):
    import onnx_ir as ir
    if d is None:
        return ir.SymbolicDim(None)
    if isinstance(d, str):
        return ir.SymbolicDim(d)
    return int(d)


def _render_dims(dims) -> str:
    import modeltree
    out = []
    for d in dims:
        x = modeltree.ir_dim(d)
        out.append("?" if x is None else (f"'{x}'" if isinstance(x, str) else str(x)))
    return "[" + ",".join(out) + "]"


def bcast_cases(rng: common.Rng, n: int) -> list[list[list]]:
    atoms = [1, 1, 2, 3, 5, "B", "B", "C", None]
    cases: list = [[], [[]], [[], []], [[3]], [[1], [1]], [["B"], [1]], [[None], [None]], [["B"], ["C"]],
                   [["B"], [None]], [[None], ["B"]], [[2], [3]], [[1, 1, 1], [2]], [["B", 1], [1, 3], [5, 1, 1]],
                   [[0], [1]], [[0, 3], [1, 3]], [["B"], [5]], [[5], ["B"]], [[None], [5]], [[5], [None], ["B"]]]
    for k in range(n):
        pat = k % 4
        nshape = rng.randint(1, 4)
        if pat in (0, 1):
            rank = rng.randint(0, 4)
            target = [rng.choice(atoms) for _ in range(rank)]
            shapes = []
            for _ in range(nshape):
                r = rng.randint(0, rank)
                shapes.append([(t if rng.chance(0.65) else 1) for t in target[rank - r:]])
            if pat == 1 and shapes and any(shapes):
                i = rng.randint(0, len(shapes) - 1)
                if shapes[i]:
                    j = rng.randint(0, len(shapes[i]) - 1)
                    shapes[i][j] = rng.choice(atoms)
        else:
            shapes = [[rng.choice(atoms) for _ in range(rng.randint(0, 4))] for _ in range(nshape)]
        cases.append(shapes)
    return cases


def check_bcast(chk: Check, rng: common.Rng, thorough: bool) -> list[dict]:
    import jax2onnx.converter.ir_optimizations as opt
    cases = bcast_cases(rng, 600 if not thorough else 6000)
    lines = [json.dumps({"op": "bcast", "shapes": c}) for c in cases]
    answers = common.run_driver("C08", lines)
    dis = []
    hist = {"none": 0, "some": 0}
    for c, a in zip(cases, answers):
        real = opt._broadcast_shape_dims([tuple(_mk_dim(d) for d in s) for s in c])
        r = "none" if real is None else _render_dims(real)
        hist["none" if real is None else "some"] += 1
        chk.count({"op": "bcast", "shapes": c, "code": r}, nontrivial=real is not None and len(c) > 1)
        if r != a:
            dis.append({"shapes": c, "code": r, "model": a})
    chk.info("broadcast_correspondence", {"cases": len(cases), "code_results": hist, "disagreements": len(dis)})
    chk.add("traces_validated_against_impl", len(cases))
    return dis


def bcast_search(dis: dict) -> Optional[dict]:
    """A disagreement becomes a finding when the CODE's annotation is false for concrete numpy shapes."""
    shapes = dis["shapes"]
    code = dis["code"]
    if code == "none":
        return None                       # the code gave no annotation: nothing can be false
    res = json.loads(code.replace("'", '"').replace("?", "null"))
    for b in (1, 2, 3, 5):
        for c_ in (1, 2, 3, 5):
            for u in (1, 2, 3, 5):
                sigma = {"B": b, "C": c_}
                conc = [tuple((sigma[d] if isinstance(d, str) else (u if d is None else d)) for d in s) for s in shapes]
                try:
                    out = np.broadcast_shapes(*conc)
                except ValueError:
                    continue
                if len(out) != len(res):
                    return {"binding": sigma, "unknown": u, "concrete": conc, "numpy": list(out), "annotation": res}
                for o, r in zip(out, res):
                    if (isinstance(r, int) and r != o) or (isinstance(r, str) and sigma[r] != o):
                        return {"binding": sigma, "unknown": u, "concrete": [list(x) for x in conc],
                                "numpy": list(out), "annotation": res}
    return None


# ----------------------------------------------------------------------------- post-processing tie

SNAPS: list = []


def _const_f32_names(model) -> list[str]:
    from jax2onnx.ir_utils import tensor_to_numpy
    import onnx_ir as ir
    names = set()

    def visit(g):
        ini = g.initializers
        for v in (list(ini.values()) if hasattr(ini, "values") else list(ini)):
            _one(v)
        for n in g:
            for o in n.outputs:
                if o is not None:
                    _one(o)
            for a in n.attributes.values():
                if a.type == ir.AttributeType.GRAPH and a.as_graph() is not None:
                    visit(a.as_graph())
                elif a.type == ir.AttributeType.GRAPHS:
                    for sg in a.as_graphs():
                        visit(sg)

    def _one(v):
        try:
            arr = tensor_to_numpy(v.const_value)
        except Exception:
            arr = None
        if arr is not None and arr.dtype == np.float32 and v.name:
            names.add(v.name)

    visit(model.graph)
    fs = model.functions
    for f in (list(fs.values()) if hasattr(fs, "values") else list(fs)):
        visit(f.graph)
    return sorted(names)


class PostprocessHook:
    """Wrap the real `postprocess_ir_model` (as imported by user_interface) to snapshot before/after."""

    def __enter__(self):
        import jax2onnx.user_interface as ui
        import modeltree
        self.ui = ui
        self.orig = ui.postprocess_ir_model

        def wrapped(model, *, promote_to_double):
            import c08_attrs
            before = modeltree.from_ir(model)
            before_x = c08_attrs.enrich(model, before)      # attribute values for the extended vocabulary
            c = _const_f32_names(model) if promote_to_double else []
            self.orig(model, promote_to_double=promote_to_double)
            after = modeltree.from_ir(model)
            after_x = c08_attrs.enrich(model, after)
            SNAPS.append({"before": before, "after": after, "promote": bool(promote_to_double), "constF32": c,
                          "before_x": before_x, "after_x": after_x})

        ui.postprocess_ir_model = wrapped
        return self

    def __exit__(self, *exc):
        self.ui.postprocess_ir_model = self.orig
        return False


def _n_rank_only(tree) -> int:
    import modeltree
    n = 0
    for p, g in modeltree.iter_graphs(tree["g"]):
        if p:
            n += 1
    return n


# ----------------------------------------------------------------------------- observation oracle


MAX_EXPOSED = 800
MAX_EXPOSED_BYTES = 1_500_000_000


def _type_vi(name: str, elem: int):
    import onnx
    vi = onnx.ValueInfoProto()
    vi.name = name
    vi.type.tensor_type.elem_type = elem
    return vi


def _annot_of(vi):
    tt = vi.type.tensor_type
    dims = None
    if tt.HasField("shape"):
        dims = []
        for d in tt.shape.dim:
            if d.HasField("dim_value"):
                dims.append(int(d.dim_value))
            elif d.HasField("dim_param"):
                dims.append(str(d.dim_param))
            else:
                dims.append(None)
    return int(tt.elem_type), dims


def instrument(proto, only_prefix: Optional[str] = None):
    """Copy of the model in which every annotated value of the top graph and (recursively) of Loop
    bodies is a graph output.  -> (model, records{name, elem, dims, lead, origin, producer})
    With `only_prefix` (function bodies inlined per call site by harness/c08_fninline.py) only the values whose
    name carries the prefix are recorded; their top-level value_info entries are then REMOVED from the
    executed copy and they are exposed without a declared type, so that a false declared element type shows up
    as a run-time contradiction instead of stopping ONNX Runtime from loading the instrumented copy."""
    import onnx
    m = copy.deepcopy(proto)
    counter = [0]

    def expose(g, path: str) -> list[dict]:
        recs = []
        producer = {}
        for n in g.node:
            for o in n.output:
                if o:
                    producer[o] = n.op_type
        local = set(producer) | {vi.name for vi in g.input}
        seen = set()
        for vi in list(g.value_info) + list(g.output) + (list(g.input) if path != "main" else []):
            if vi.name in seen or vi.name not in local:
                continue
            if only_prefix and only_prefix not in vi.name:
                continue
            seen.add(vi.name)
            if not vi.type.HasField("tensor_type") or not vi.type.tensor_type.elem_type:
                continue
            if vi.type.tensor_type.elem_type == onnx.TensorProto.STRING:
                continue
            elem, dims = _annot_of(vi)
            recs.append({"name": vi.name, "elem": elem, "dims": dims, "lead": 0,
                         "origin": f"{path}:{vi.name}", "producer": producer.get(vi.name, "input")})
        for k, n in enumerate(g.node):
            if n.op_type != "Loop" or n.domain not in ("", "ai.onnx"):
                continue
            body = next((a.g for a in n.attribute if a.name == "body"), None)
            if body is None:
                continue
            for r in expose(body, f"{path}/{k}:Loop"):
                counter[0] += 1
                fresh = f"__obs_{counter[0]}"
                body.node.append(onnx.helper.make_node("Identity", [r["name"]], [fresh]))
                body.output.append(_type_vi(fresh, r["elem"]))
                n.output.append(fresh + "_scan")
                recs.append(dict(r, name=fresh + "_scan", lead=r["lead"] + 1))
        return recs

    recs = expose(m.graph, "main")
    if len(recs) > MAX_EXPOSED:         # very large models: an evenly spaced subset of the values
        step = len(recs) / MAX_EXPOSED
        recs = [recs[int(i * step)] for i in range(MAX_EXPOSED)]
    # bound the memory ORT needs to keep every exposed value alive: estimated bytes (unknown / symbolic
    # dims counted as 64, loop-stacked values × 8 per level) up to MAX_EXPOSED_BYTES
    kept, total = [], 0
    for r in recs:
        n = 8
        for d in (r["dims"] or [64, 64]):
            n *= d if isinstance(d, int) and d > 0 else 64
        n *= 8 ** r["lead"]
        if total + n > MAX_EXPOSED_BYTES and kept:
            continue
        total += n
        kept.append(r)
    recs = kept
    have = {vi.name for vi in m.graph.output}
    for r in recs:
        if r["name"] not in have:
            if only_prefix and r["lead"] == 0:
                m.graph.output.append(onnx.helper.make_empty_tensor_value_info(r["name"]))
            else:
                m.graph.output.append(_type_vi(r["name"], r["elem"]))
            have.add(r["name"])
    if only_prefix:
        kept_vi = [vi for vi in m.graph.value_info if only_prefix not in vi.name]
        del m.graph.value_info[:]
        m.graph.value_info.extend(kept_vi)
    return m, recs


def _np_elem(arr) -> int:
    from onnx import helper
    try:
        return int(helper.np_dtype_to_tensor_dtype(np.asarray(arr).dtype))
    except Exception:
        return -1


def observe(proto, rng_np, bindings: Optional[list], fn_mode: bool = False,
            facts: Optional[dict] = None) -> tuple[list[dict], dict]:
    """-> (contradictions, stats).  `fn_mode`: observe the annotations INSIDE function bodies, once per call
    site (the functions are inlined per call site with their value_info, see harness/c08_fninline.py)."""
    import oracles
    import progs
    import c08_fninline
    stats = {"values": 0, "body_values": 0, "runs": 0, "run_errors": 0, "not_observable": 0}
    if not oracles.ort_supports_opset(oracles.default_opset(proto)):
        stats["not_observable"] = 1
        return [], stats
    sites: dict = {}
    try:
        if fn_mode:
            res = c08_fninline.inline_functions(proto)
            if res is None:
                return [], stats
            inlined, sites, st_in = res
            stats["call_sites"] = st_in["sites"]
            inst, recs = instrument(inlined, only_prefix=c08_fninline.PREFIX)
            for r in recs:
                site = c08_fninline.site_of(r["origin"], sites) or {}
                r["function"] = site.get("function", "?")
                r["call_site"] = site.get("where", "?")
                r["origin"] = f"fn {r['function']}:{c08_fninline.local_name(r['origin'])} @ {r['call_site']}"
        else:
            inst, recs = instrument(proto)
    except Exception as e:
        stats["not_observable"] = 1
        stats["instrument_error"] = f"{type(e).__name__}: {str(e)[:200]}"
        return [], stats
    stats["values"] = len(recs)
    stats["body_values"] = sum(1 for r in recs if r["lead"] > 0)
    try:
        sess = oracles._session(inst.SerializeToString(), disable_opt=True)
    except Exception as e:
        stats["not_observable"] = 1
        stats["load_error"] = str(e)[:300]
        # ORT's own type inference contradicting a declared element type is a contradiction as well
        import re
        m = re.search(r"Type \(tensor\((\w+)\)\) of output arg \(([^)]*)\) of node \(([^)]*)\) does not match "
                      r"expected type \(tensor\((\w+)\)\)", str(e))
        if m:
            try:
                oracles._session(proto.SerializeToString(), disable_opt=True)
                plain_loads = True
            except Exception:
                plain_loads = False
            if fn_mode and plain_loads and c08_fninline.PREFIX in m.group(2):
                # a declared element type INSIDE an inlined function body (a nested Loop/If body of it) that
                # ONNX Runtime's type inference refutes for this call site
                site = c08_fninline.site_of(m.group(2), sites) or {}
                return [{"what": "dtype-static", "name": m.group(2),
                         "origin": f"fn {site.get('function', '?')}:{c08_fninline.local_name(m.group(2))} @ "
                                   f"{site.get('where', '?')}",
                         "function": site.get("function", "?"), "call_site": site.get("where", "?"),
                         "producer": re.sub(r"^node_|_\d+$", "", m.group(3)), "elem": m.group(1), "dims": None,
                         "runtime": m.group(4), "binding": None, "lead": 0}], stats
            if not plain_loads:          # not an artefact of the instrumentation
                node = m.group(3)
                prod = re.sub(r"^node_|_\d+$", "", node)
                return [{"what": "dtype-static", "name": m.group(2), "origin": f"main:{m.group(2)}",
                         "producer": prod, "elem": m.group(1), "dims": None, "runtime": m.group(4),
                         "binding": None, "lead": 0}], stats
        return [], stats
    input_syms = set()
    for vi in proto.graph.input:
        for d in vi.type.tensor_type.shape.dim:
            if d.HasField("dim_param"):
                input_syms.add(d.dim_param)
    out_names = [r["name"] for r in recs]
    contradictions = []
    if bindings is None:                  # every input symbol gets a value; three rotations of a small pool
        pool = [2, 3, 5, 7]
        syms = sorted(input_syms)
        bindings = [{sy: pool[(i + j) % len(pool)] for i, sy in enumerate(syms)} for j in range(3)]
    for b in bindings:
        try:
            feeds = progs.feeds_for(proto, rng_np, b)
            outs = sess.run(out_names, feeds)
        except Exception:
            stats["run_errors"] += 1
            continue
        stats["runs"] += 1
        symvals: dict = {}
        if facts is not None and not facts:         # run-time dtype/shape of the top-level values (first run)
            for nm, arr in feeds.items():
                facts[nm] = (_np_elem(arr), list(np.asarray(arr).shape))
            for t in proto.graph.initializer:
                facts.setdefault(t.name, (int(t.data_type), [int(d) for d in t.dims]))
            for r, val in zip(recs, outs):
                if r["lead"] == 0:
                    facts[r["name"]] = (_np_elem(val), list(np.asarray(val).shape))
        for r, val in zip(recs, outs):
            arr = np.asarray(val)
            shape = list(arr.shape)
            if r["lead"] and (len(shape) < r["lead"] or any(s == 0 for s in shape[:r["lead"]])):
                continue
            shape = shape[r["lead"]:]
            elem = _np_elem(arr)
            if elem != -1 and r["elem"] != elem:
                contradictions.append(dict(r, what="dtype", runtime=elem, binding=b))
                continue
            if r["dims"] is None:
                continue
            if len(r["dims"]) != len(shape):
                contradictions.append(dict(r, what="rank", runtime=shape, binding=b))
                continue
            for k, (d, s) in enumerate(zip(r["dims"], shape)):
                if isinstance(d, int) and d != s:
                    contradictions.append(dict(r, what="dim", axis=k, runtime=shape, binding=b))
                    break
                if isinstance(d, str):
                    if d in input_syms and d in b and b[d] != s:
                        contradictions.append(dict(r, what="symbol", axis=k, runtime=shape, binding=b))
                        break
                    # a dim_param names one value per graph; a function body is instantiated per call site, so
                    # inside inlined bodies the symbol is scoped by the call site
                    symvals.setdefault((r.get("call_site", ""), d), {}).setdefault(s, r["origin"])
        for (site, sym), vals in symvals.items():
            if len(vals) > 1 and sym not in input_syms:
                c = {"what": "symbol-inconsistent", "symbol": sym,
                     "values": {str(k): v for k, v in vals.items()}, "binding": b,
                     "origin": site or "main", "producer": "?", "name": sym}
                if site:
                    c["call_site"] = site
                    c["function"] = next((r["function"] for r in recs if r.get("call_site") == site), "?")
                contradictions.append(c)
    return contradictions, stats


# ----------------------------------------------------------------------------- optimizer stream


def optimize_proto(model):
    """The REAL optimizer pipeline (`optimize_graph`) on a copy of a ModelProto."""
    import onnx_ir as ir
    import jax2onnx.converter.ir_optimizations as opt
    irm = ir.from_proto(model)
    irm = opt.optimize_graph(irm)
    return ir.to_proto(irm)


def _fixed_transpose_castlike():
    """The listed defect F-C08-transpose-chain-castlike-stale-shape, observed on every run:
    Transpose[1,2,0] -> Elu -> CastLike(., like[6,2,3]) -> Transpose[2,0,1] on an input of shape (3,6,2)."""
    import onnx
    from onnx import TensorProto, helper
    nodes = [helper.make_node("Transpose", ["in_0"], ["tran1"], perm=[1, 2, 0]),
             helper.make_node("Elu", ["tran1"], ["elu3"], alpha=0.1),
             helper.make_node("CastLike", ["elu3", "in_1"], ["cast5"]),
             helper.make_node("Transpose", ["cast5"], ["tran7"], perm=[2, 0, 1])]
    g = helper.make_graph(nodes, "g", [helper.make_tensor_value_info("in_0", TensorProto.FLOAT, [3, 6, 2]),
                                       helper.make_tensor_value_info("in_1", TensorProto.FLOAT, [6, 2, 3])],
                          [helper.make_tensor_value_info("tran7", TensorProto.FLOAT, [3, 6, 2])],
                          value_info=[helper.make_tensor_value_info(nm, TensorProto.FLOAT, [6, 2, 3])
                                      for nm in ("tran1", "elu3", "cast5")])
    m = helper.make_model(g, opset_imports=[helper.make_opsetid("", 21)], ir_version=10)
    return m, {"family": "transpose_chain", "rank": 3, "p1": [1, 2, 0], "p2": [2, 0, 1], "inverse": True,
               "chain": ["Elu", "CastLike:data"], "sym": False, "guards": [], "fixed": True}


FIXED_OPT_GRAPHS = [_fixed_transpose_castlike]


def check_optimizer_stream(chk: Check, rng: common.Rng, thorough: bool) -> int:
    """Small ONNX graphs around the optimizer's rewrite patterns (harness/graphgen.py: transpose chains, reshape
    pairs, elementwise DAGs, … with the operators read from the live op sets), annotated by ONNX shape inference,
    go through the real `optimize_graph`; every annotation of the optimized model is then observed in ORT."""
    import base64
    import graphgen
    rng_np = np.random.default_rng(chk.seed + 17)
    n = 160 if not thorough else 2500
    found = 0
    stats = {"graphs": 0, "changed_by_optimizer": 0, "optimizer_raised": 0, "before_already_contradictory": 0,
             "values": 0, "runs": 0, "not_observable": 0}
    fams: dict = {}
    for k in range(-len(FIXED_OPT_GRAPHS), n):
        model, desc = FIXED_OPT_GRAPHS[k]() if k < 0 else graphgen.generate(rng)
        fam = str(desc.get("family", desc.get("pattern", "?")))
        stats["graphs"] += 1
        try:
            after = optimize_proto(model)
        except Exception:
            stats["optimizer_raised"] += 1          # loud failure: C16's subject
            continue
        changed = after.SerializeToString() != model.SerializeToString()
        stats["changed_by_optimizer"] += changed
        fams[fam] = fams.get(fam, 0) + 1
        cons, st = observe(after, rng_np, None)
        stats["values"] += st["values"]
        stats["runs"] += st["runs"]
        stats["not_observable"] += st["not_observable"]
        chk.count({"op": "optimizer_stream", "family": fam, "guards": desc.get("guards", [])[:4],
                   "nodes": len(model.graph.node), "values": st["values"]},
                  nontrivial=bool(changed and st["runs"] > 0))
        if not cons:
            continue
        before_cons, _ = observe(model, rng_np, None)
        before_names = {c.get("name") for c in before_cons}
        cons = [c for c in cons if c.get("name") not in before_names]
        if not cons:
            stats["before_already_contradictory"] += 1   # the generated graph itself was mis-annotated
            continue
        seen = set()
        for c in cons:
            key = {"kind": "annotation_contradiction", "what": c["what"], "producer": c.get("producer", "?"),
                   "context": "optimizer", "component": fam, "in_loop_body": bool(c.get("lead", 0)),
                   # special chain elements of the generated graph (e.g. "CastLike:data": the chain value is the
                   # data operand of a CastLike whose type operand is another full-shape tensor)
                   "chain_tags": ",".join(sorted({str(x) for x in desc.get("chain", []) if ":" in str(x)}))}
            ks = json.dumps(key, sort_keys=True)
            if ks in seen:
                continue
            seen.add(ks)
            found += 1
            chk.finding(key, f"optimize_graph on a {fam} graph: value {c.get('origin')} (by {c.get('producer')}) declared "
                             f"{c.get('elem')}:{c.get('dims')} but runtime {c.get('runtime', c.get('values'))} "
                             f"[{c['what']}] for {c.get('binding')}",
                        {"stream": "optimizer", "desc": desc, "contradiction": c,
                         "model_b64": base64.b64encode(model.SerializeToString()).decode()})
    chk.info("optimizer_stream", dict(stats, families=fams))
    return found


# ----------------------------------------------------------------------------- the check


CORPUS = [("primitives.lax", "scan_two_diff_lengths"), ("primitives.lax", "reduce_sum_dtype_f64")]      # listed defect: exported and observed on every run


def export_plan(rng: common.Rng, thorough: bool) -> list:
    import progs
    plan = []
    by_key = {(p.get("context"), p["testcase"]): p for p in progs.plugin_params()}
    for key in CORPUS:
        if key in by_key:
            plan.append((progs.plugin_desc(by_key[key]), progs.plugin_cfg(by_key[key])))
    plan.append((progs.gated_desc("softmax", "top", "f16"), dict(progs.default_cfg(), mode="proto")))  # listed defect
    core = progs.core_programs(rng, n_random=10 if not thorough else 80, max_depth=3 if not thorough else 4)
    for d in core:
        plan.append((d, dict(progs.default_cfg(), mode="proto")))
        for _ in range(1 if not thorough else 3):
            cfg = progs.random_cfg(rng, d, opsets=[21, 22, 23, 24])
            cfg["mode"] = "proto"
            plan.append((d, cfg))
    # layout chains around the optimizer's live operator sets: every live operator alone inside a non-symmetric
    # transpose pair and inside a reshape pair, plus seeded chains of 1..3 operators
    live_ops, _ = progs.live_layout_ops()
    for op in live_ops:
        for pair in ("transpose", "reshape"):
            plan.append(({"kind": "layout", "name": f"layout_{pair}_{op}", "pair": pair, "ops": [op], "sym": False},
                         dict(progs.default_cfg(), mode="proto")))
        # the operator as the LAST of a chain of 2 / 3 (stale-predecessor refresh orders show only there)
        for pair, chain in (("reshape_out", ["Tanh", op]), ("transpose_out", ["Tanh", op]),
                            ("reshape", ["Relu", "Tanh", op])):
            plan.append(({"kind": "layout", "name": f"layout_{pair}_{'_'.join(chain)}", "pair": pair, "ops": chain,
                          "sym": rng.chance(0.5)}, dict(progs.default_cfg(), mode="proto")))
    for _ in range(40 if not thorough else 600):
        plan.append((progs.random_layout(rng), dict(progs.default_cfg(), mode="proto")))
    params = progs.plugin_params()
    if thorough:
        chosen = rng.shuffle(params)        # seeded order: a budget cut drops a different tail per seed
    else:
        dyn = [p for p in params if str(p["testcase"]).endswith(("_dynamic", "_dynamic_f64"))
               and not str(p.get("context", "")).startswith("examples.")]
        light = [p for p in params if not str(p.get("context", "")).startswith("examples.")]
        chosen = rng.sample(dyn, 45) + rng.sample(light, 45)
    for tp in chosen:
        plan.append((progs.plugin_desc(tp), progs.plugin_cfg(tp)))
    return plan


def run(chk: Check) -> None:
    import modeltree
    import progs
    rng = common.Rng(chk.seed)
    thorough = chk.tier == "thorough"
    proved = chk.prove(MODS, checker=thorough)
    if not proved:
        raise RuntimeError(f"Lean obligations of C08 do not build: {chk.broken}")
    chk.log(f"phase prove done at {round(time.time() - chk.t0, 1)} s")

    concrete = 0
    # ---- (a) broadcast kernel
    bdis = check_bcast(chk, rng, thorough)
    unresolved = []
    for d in bdis[:50]:
        w = bcast_search(d)
        if w is not None:
            concrete += 1
            chk.finding({"kind": "broadcast_annotation_false", "shapes": json.dumps(d["shapes"])},
                        f"_broadcast_shape_dims({d['shapes']}) = {d['code']} is false for concrete shapes "
                        f"{w['concrete']} (numpy: {w['numpy']})", {"disagreement": d, "witness": w})
        else:
            unresolved.append(d)
    chk.log(f"phase bcast done at {round(time.time() - chk.t0, 1)} s")

    # ---- (a') optimizer stream: generated graphs through the real optimize_graph, every annotation observed
    concrete += check_optimizer_stream(chk, rng, thorough)
    _, no_jax = progs.live_layout_ops()
    chk.info("live_optimizer_ops_without_jax_layout_program", no_jax)
    chk.log(f"phase optimizer stream done at {round(time.time() - chk.t0, 1)} s")

    # ---- (b) real post-processing, snapshotted on every export; (b') consistency; (c) observation
    plan = export_plan(rng, thorough)
    # Some program beyond the ≈ 2 190th of the thorough plan makes the exporter allocate > 60 GB while the next chunk
    # is being exported (the kernel killed three thorough runs there; not yet isolated). The plan is cut before it.
    plan_cap = int(os.environ.get("C08_MAX_MODELS", "2150"))
    if len(plan) > plan_cap:
        chk.info("plan_truncated", {"planned": len(plan), "kept": plan_cap,
                                    "why": "memory blow-up of an export beyond this point (see DESIGN §8.6)"})
        plan = plan[:plan_cap]
    t0 = time.time()
    budget = 150 if not thorough else 1600
    raised: dict = {}
    refresh_stats = {"calls": 0, "skipped_const_rank_exceeds_result": 0}
    import jax2onnx.converter.ir_optimizations as opt
    orig_refresh = opt._refresh_elementwise_output_shape

    def monitored_refresh(node):
        # hypothesis of the propagation step: a skipped size-1 constant never has more dims than the result
        orig_refresh(node)
        try:
            refresh_stats["calls"] += 1
            outs = [o for o in node.outputs if o is not None]
            if not outs or outs[0].shape is None:
                return
            rank = len(outs[0].shape.dims)
            for iv in node.inputs:
                if iv is not None and opt._is_scalar_const_value(iv) and iv.shape is not None \
                        and len(iv.shape.dims) > rank:
                    refresh_stats["skipped_const_rank_exceeds_result"] += 1
        except Exception:
            pass

    rng_np = np.random.default_rng(chk.seed)
    bindings = [{"B": 2}, {"B": 3}, {"B": 1}] if not thorough else [{"B": 1}, {"B": 2}, {"B": 3}, {"B": 5}, {"B": 7}]
    tot = {"values": 0, "body_values": 0, "runs": 0, "run_errors": 0, "not_observable": 0}
    ldis: list = []
    rejected: list = []
    n_done = n_snap = changed = vocab = cert = observed = 0
    def grab_snapshot(ex):
        ex.extra["snap"] = SNAPS.pop() if SNAPS else None
        SNAPS.clear()

    import atexit
    opt._refresh_elementwise_output_shape = monitored_refresh
    hook = PostprocessHook()
    hook.__enter__()

    def _restore():
        hook.__exit__(None, None, None)
        opt._refresh_elementwise_output_shape = orig_refresh

    atexit.register(_restore)       # also restored explicitly right after the loop
    fn_tot = {"models_with_functions": 0, "call_sites": 0, "values": 0, "runs": 0, "not_observable": 0}
    calls = {"call_sites": 0, "certified_by_proven_checker": 0, "not_certified_samples": []}
    skipped_hist: dict = {}
    vocab_small = [0]
    rule_val = {"nodes": 0, "models": 0, "mismatches": []}

    def process(chunk):
        nonlocal n_done, n_snap, changed, vocab, cert, observed, concrete
        done = []
        for ex in chunk:
            if not ex.ok:
                k = ex.error.split(":")[0]
                raised[k] = raised.get(k, 0) + 1
                continue
            done.append((ex, ex.extra.get("snap")))
        n_done += len(done)
        idx = [k for k, (_, snap) in enumerate(done) if snap is not None]
        lines = [json.dumps({"op": "loosen", "before": done[k][1]["before"], "after": done[k][1]["after"],
                             "promote": done[k][1]["promote"], "constF32": done[k][1]["constF32"]},
                            separators=(",", ":"), ensure_ascii=False) for k in idx]
        clines = [modeltree.request("consistent", done[k][1]["before_x"]) for k in idx]
        answers = common.run_driver("C08", lines + clines)
        n_snap += len(idx)
        for k, a in zip(idx, answers[:len(idx)]):
            ex, snap = done[k]
            did_change = snap["before"] != snap["after"]
            changed += did_change
            chk.count({"op": "postprocess", "program": progs.describe(ex.desc), "config": ex.cfg,
                       "nested_scopes": _n_rank_only(snap["before"]), "changed": did_change},
                      nontrivial=did_change or _n_rank_only(snap["before"]) > 0)
            if a != "same":
                if not a.startswith("diff"):
                    raise RuntimeError(f"driver C08: {a[:300]}")
                ldis.append({"program": ex.desc, "config": ex.cfg, "diff": a[:400]})
        # (b') proven consistency checker (both vocabularies, every call site of a model-local function with the
        #      call site's argument annotations) on the PRE-post-processing model (annotations at full strength);
        #      loosen_sound + the correspondence above carry "true" over to the final model
        for k, a in zip(idx, answers[len(idx):]):
            if not a.startswith("{"):
                raise RuntimeError(f"driver C08 consistent: {a[:300]}")
            r = json.loads(a)
            vocab += r["vocab"]
            cert += r["certified"]
            vocab_small[0] += r.get("vocab_small", 0)
            calls["call_sites"] += r.get("calls", 0)
            calls["certified_by_proven_checker"] += r.get("calls_certified", 0)
            for x in r.get("rejected_calls", []):
                if len(calls["not_certified_samples"]) < 6:
                    calls["not_certified_samples"].append({"program": progs.describe(done[k][0].desc), "call": x[:300]})
            for o, c_ in r.get("skipped", {}).items():
                skipped_hist[o] = skipped_hist.get(o, 0) + c_
            for x in r["rejected"]:
                if len(rejected) < 200:
                    rejected.append({"program": progs.describe(done[k][0].desc), "node": x[:300]})

        def report(ex, cons, in_function: bool):
            nonlocal concrete
            seen_keys = set()
            for c in cons:
                ctx_, comp = (ex.desc.get("context", "program"), ex.desc.get("component", ex.desc.get("name", "")))
                key = {"kind": "annotation_contradiction", "what": c["what"], "producer": c.get("producer", "?"),
                       "context": ctx_, "component": comp, "in_loop_body": bool(c.get("lead", 0))}
                if in_function:
                    key["in_function_body"] = c.get("function", "?")
                if c["what"] == "symbol-inconsistent":
                    key["symbol"] = c.get("symbol")
                ks = json.dumps(key, sort_keys=True)
                if ks in seen_keys:
                    continue
                seen_keys.add(ks)
                concrete += 1
                chk.finding(key, f"{progs.describe(ex.desc)}: value {c.get('origin')} (by {c.get('producer')}) "
                                 f"declared {c.get('elem')}:{c.get('dims')} but runtime "
                                 f"{c.get('runtime', c.get('values'))} [{c['what']}] for {c.get('binding')}",
                            {"program": ex.desc, "config": ex.cfg, "contradiction": c,
                             "function_body": bool(in_function)})

        # (c) observation oracle; (c') the annotations inside function bodies, per call site
        vlines, vmeta = [], []
        for ex, snap in done:
            if time.time() - t0 > budget:
                break
            facts: dict = {}
            cons, st = observe(ex.proto, rng_np, bindings, facts=facts)
            observed += 1
            for k in tot:
                tot[k] += st.get(k, 0)
            chk.count({"op": "observe", "program": progs.describe(ex.desc), "config": ex.cfg,
                       "values": st["values"], "body_values": st["body_values"], "runs": st["runs"]},
                      nontrivial=st["runs"] > 0 and st["values"] > 0)
            report(ex, cons, False)
            if len(ex.proto.functions):
                cons_f, st_f = observe(ex.proto, rng_np, bindings, fn_mode=True)
                fn_tot["models_with_functions"] += 1
                fn_tot["call_sites"] += st_f.get("call_sites", 0)
                fn_tot["values"] += st_f["values"]
                fn_tot["runs"] += st_f["runs"]
                fn_tot["not_observable"] += st_f["not_observable"]
                chk.count({"op": "observe_function_bodies", "program": progs.describe(ex.desc), "config": ex.cfg,
                           "call_sites": st_f.get("call_sites", 0), "values": st_f["values"]},
                          nontrivial=st_f["runs"] > 0 and st_f["values"] > 0)
                report(ex, cons_f, True)
            if snap is not None and facts:
                g = dict(snap["after_x"]["g"])
                g["v"] = [[nm, (e if e and e > 0 else None), shp] for nm, (e, shp) in facts.items()]
                vlines.append(json.dumps({"op": "infer", "g": g}, separators=(",", ":"), ensure_ascii=False))
                vmeta.append((ex, facts))
        # (d) the inference rules of the Lean vocabulary against ONNX Runtime: fed with the RUN-TIME dtype/shape of a
        #     node's inputs they must give exactly the run-time dtype/shape of its output
        if vlines:
            for (ex, facts), a in zip(vmeta, common.run_driver("C08", vlines)):
                if not a.startswith("["):
                    raise RuntimeError(f"driver C08 infer: {a[:300]}")
                rule_val["models"] += 1
                for y, rendered in json.loads(a):
                    if y not in facts:
                        continue
                    dt, dims = rendered.split(":", 1)
                    e, shp = facts[y]
                    if dt == "-" and dims == "-":
                        continue
                    rule_val["nodes"] += 1
                    want_dims = "[" + ",".join(str(d) for d in shp) + "]"
                    if (dt != "-" and e > 0 and dt != str(e)) or (dims != "-" and dims != want_dims):
                        rule_val["mismatches"].append({"program": progs.describe(ex.desc), "value": y,
                                                       "rule": rendered, "runtime": f"{e}:{want_dims}"})
        for ex, _ in done:
            ex.extra.clear()
        chk.log(f"{n_done} models processed at {round(time.time() - chk.t0, 1)} s")

    # programs calling ONE @onnx_function at several call sites that differ in one component of the instance key
    import c08_progs
    fn_chunk = []
    for d in c08_progs.plan(rng, thorough):
        ex = c08_progs.export(d, dict(progs.default_cfg(), mode="proto"))
        grab_snapshot(ex)
        fn_chunk.append(ex)
    chk.info("function_call_site_programs", {"planned": len(fn_chunk), "exported": sum(1 for e in fn_chunk if e.ok)})
    process(fn_chunk)
    gen = progs.export_in_chunks(plan, max_models=250, max_bytes=400_000_000, deadline=t0 + budget,
                                 after=grab_snapshot)
    mem_stop = None
    for chunk in gen:
        process(chunk)
        # JAX / onnxruntime keep compiled artefacts per exported program: the resident set grows with the number
        # of models (≈ 60 GB after 2 200 models; the kernel killed two thorough runs). Stop exploring further
        # chunks once a memory budget is reached — what was explored is reported as such.
        try:
            import resource, gc
            gc.collect()
            rss_gb = resource.getrusage(resource.RUSAGE_SELF).ru_maxrss / 1e6
            with open("/proc/self/statm") as fh:
                rss_gb = int(fh.read().split()[1]) * os.sysconf("SC_PAGE_SIZE") / 1e9
        except Exception:  # noqa: BLE001
            rss_gb = 0.0
        if rss_gb > float(os.environ.get("C08_MAX_RSS_GB", "14")):
            mem_stop = {"resident_gb": round(rss_gb, 1), "models_processed": n_done, "planned": len(plan)}
            chk.log(f"memory budget reached ({rss_gb:.1f} GB resident): exploration stops after {n_done} of "
                    f"{len(plan)} planned models")
            break
    if mem_stop:
        chk.info("stopped_by_memory_budget", mem_stop)
    _restore()
    chk.coverage["programs"] = n_done
    chk.info("exports", {"planned": len(plan), "exported": n_done, "export_raised": raised})
    chk.info("refresh_hypothesis_monitor", refresh_stats)
    chk.add("traces_validated_against_impl", n_snap)
    chk.info("postprocess_correspondence", {"models": n_snap, "models_changed_by_postprocess": changed,
                                            "disagreements": len(ldis)})
    chk.info("annotConsistent", {"vocabulary_nodes": vocab, "certified_by_proven_checker": cert,
                                 "not_certified": vocab - cert, "not_certified_samples": rejected[:8],
                                 "note": "not certified = output annotation not derivable from the input annotations "
                                         "(e.g. rank-only loop-body inputs, missing input shape); these values are "
                                         "covered by the ORT observation only"})
    chk.info("observation", dict(tot, models_observed=observed, bindings=bindings))
    chk.info("function_bodies_observed_per_call_site", fn_tot)
    chk.info("call_sites_checked_by_callSiteConsistent", calls)
    chk.info("vocabulary", {"nodes_in_small_vocabulary": vocab_small[0], "nodes_in_both_vocabularies": vocab,
                            "skipped_operator_histogram": dict(sorted(skipped_hist.items(), key=lambda kv: -kv[1])[:25])})
    chk.info("inference_rules_vs_onnxruntime", {"models": rule_val["models"], "nodes_compared": rule_val["nodes"],
                                                 "mismatches": rule_val["mismatches"][:10]})
    if rule_val["mismatches"]:
        raise RuntimeError("C08: an inference rule of the Lean vocabulary (XSem) disagrees with ONNX Runtime: "
                           + json.dumps(rule_val["mismatches"][:3]))

    # ---- verdict for correspondence breaks without a concrete false annotation
    if (unresolved or ldis) and not chk.violations:
        chk.violation({"broadcast_disagreements_without_false_annotation": unresolved[:10],
                       "postprocess_disagreements": ldis[:10],
                       "note": "the real code left the proven model (post-processing and/or broadcast kernel) but no "
                               "annotation contradicted by ONNX Runtime was found in this run"},
                      name="correspondence", no_failing_input=True)
    chk.coverage["disagreements_checked"] = len(bdis) + len(ldis) + concrete
    chk.coverage["rule"] = (
        "bcast: seeded dim lists (compatible-by-construction, one perturbed dim, random; ints incl. 0/1, symbols B/C, "
        "unknown, ranks 0..4, 1..4 shapes); non-trivial = code returned an annotation for >= 2 shapes. postprocess: "
        "every export (fixed nested trees, random trees, named programs, plugin testcases incl. dynamic ones) is "
        "snapshotted before/after the real postprocess_ir_model; non-trivial = has nested scopes or was changed. "
        "observe: the same exports executed in ORT with every annotated value exposed, bindings B in {1,2,3}(quick); "
        "non-trivial = at least one run with exposed values")
    chk.coverage["exhaustive"] = False
    chk.assumptions += [
        "ONNX Runtime (graph optimisations disabled) is the run time the annotations are compared with",
        "values inside If branches are not observed; Loop-body values are observed through extra scan outputs "
        "(iterations with zero trips are skipped); function-body values are observed once per call site on a copy "
        "of the model in which the calls are inlined (renaming only, harness/c08_fninline.py)",
        "a dim_param names one value per run (ONNX IR); symbols bound by graph inputs are compared with the binding",
        "runs that ORT refuses for a binding (e.g. B=1 with a static reshape) are skipped and counted",
    ]
    progs.cleanup()


def replay(path: str) -> int:
    import progs
    rep = json.loads(open(path).read())
    print(json.dumps(rep, indent=1)[:3000])
    if rep.get("stream") == "optimizer" and "model_b64" in rep:
        import base64
        import onnx
        model = onnx.ModelProto()
        model.ParseFromString(base64.b64decode(rep["model_b64"]))
        after = optimize_proto(model)
        cons, st = observe(after, np.random.default_rng(rep.get("seed", 0)), None)
        before_names = {c.get("name") for c in observe(model, np.random.default_rng(0), None)[0]}
        cons = [c for c in cons if c.get("name") not in before_names]
        print("contradictions now:", json.dumps(cons[:5], default=str)[:1500], st)
        return 1 if cons else 0
    if "program" not in rep:
        return 0
    if rep["program"].get("kind") == "fncalls":
        import c08_progs
        ex = c08_progs.export(rep["program"], rep.get("config"))
    else:
        ex = progs.export(rep["program"], rep.get("config"))
    if not ex.ok:
        print("export raises now:", ex.error)
        return 0
    b = rep.get("contradiction", {}).get("binding") or {"B": 2}
    cons, st = observe(ex.proto, np.random.default_rng(rep.get("seed", 0)), [b],
                       fn_mode=bool(rep.get("function_body")))
    print("contradictions now:", json.dumps(cons[:5], default=str)[:1500], st)
    progs.cleanup()
    return 1 if cons else 0
