"""C02 — the graph optimizer never changes what a model computes.

Proof: lean/J2O/Props/C02.lean — `certify_sound`: whenever the verified validator accepts a
(before, after) pair of graphs, they compute the same outputs for every input, every rank, every
interpretation of the operators satisfying the stated laws.  Tie (H, one-sided): every real pass
of /repo is run on pattern-directed generated graphs (and on real exports); each changed
(before, after) snapshot is translated to terms and must be accepted by `certify`.  Search: ORT
(optimisations off) on before/after with distinct-valued feeds and prime extents.
"""
from __future__ import annotations

import json
import os
import time
from typing import Any, Optional

import numpy as np
import onnx

import common
import graphgen
import termify
from common import Check

META = {
    "ready": True,
    "level": "proof",
    "technique": "Lean 4 verified translation validator (certify_sound) + tensor-algebra theorems + soundness theorems "
                 "for executable models of the optimizer's guards; every real pass application on generated graphs is "
                 "validated by the proven validator, guard models are tied by correspondence; ORT before/after as search",
    "level_text": "Kernel-checked: transpose_pair_cancels, transpose_commutes_pointwise (all ranks, perms, "
                  "arities, tensors), norm_sound, certify_sound (all graph pairs, all inputs, any operator "
                  "interpretation satisfying Laws), cast_laws_of_C17, reduce_transpose_of_monoid; and for the "
                  "optimizer's own guards (Props/C02Guards.lean): shapesCompatible_sound, reshape_pair_guard_sound, "
                  "reshape_pair_across_unary, identityReshapeGuard_sound, inversePerm_guard_sound, "
                  "chainSideOk_fold_sound, chainSideOk_castLike_sound (what the guard accepts satisfies the semantic "
                  "precondition of the rewrite, all ranks / tensors / symbol bindings); for the graph edits all rewrites "
                  "are made of (Props/C02Edits.lean): frame, replaceUses_sound, remove_sound, bypass_sound, "
                  "internal_change_sound (all SSA graphs, any operator semantics) with refutations for observed values. Each rewrite the real passes "
                  "perform on the generated graphs must be accepted by the proven validator; anything it cannot "
                  "justify is executed in ORT.",
    "level_note": "Trusted: Lean kernel + 3 axioms; harness canonicalisation (termify.py); annotation soundness "
                  "of the input graph (hypothesis AnnotSound = property C08) ; ONNX operator facts assumed as "
                  "Laws (cast round trip = C17); tensors modelled as functions on index functions, validated "
                  "against ORT. Reshape facts (element count and row-major order are kept; commutes with unary "
                  "pointwise ops and casts), Not(const) and the scalar Swish identity are assumed ONNX facts (fields "
                  "of Laws); the cast and reduction fields are theorems. Guard models are tied to the live predicates "
                  "and to the passes' fold/no-fold behaviour on minimal graphs (one-sided: code accepts => model accepts); the "
                  "graph-edit model is tied to onnx_ir's replace_all_uses_with / graph.remove on random graphs incl. If captures.",
    "design_ref": "DESIGN.md §3 C02",
}

MODS = ["J2O.Props.C02", "J2O.Props.C02Guards", "J2O.Props.C02Edits"]


def _opt():
    import jax2onnx.converter.ir_optimizations as opt
    return opt


def run_passes_with_snapshots(model: onnx.ModelProto, fail_at: Optional[int] = None):
    """Run the real pass pipeline on a copy; return [(pass_name, before_proto, after_proto)] for
    every pass that changed the serialized model."""
    import onnx_ir as ir
    opt = _opt()
    irm = ir.from_proto(model)
    snaps = []
    prev = ir.to_proto(irm)
    for k, p in enumerate(opt._OPTIMIZER_PASSES):
        try:
            opt._run_top_level_optimizer_pass(p, irm)
        except Exception as e:  # a pass that raises is C16's business; record and stop
            snaps.append((p.name, prev, None, f"raised {type(e).__name__}: {e}"))
            break
        cur = ir.to_proto(irm)
        if cur.SerializeToString() != prev.SerializeToString():
            snaps.append((p.name, prev, cur, None))
        prev = cur
    return snaps, prev


def ort_outputs(model: onnx.ModelProto, feeds: dict[str, np.ndarray]):
    import onnxruntime as ort
    so = ort.SessionOptions()
    so.graph_optimization_level = ort.GraphOptimizationLevel.ORT_DISABLE_ALL
    so.log_severity_level = 4
    sess = ort.InferenceSession(model.SerializeToString(), so, providers=["CPUExecutionProvider"])
    names = {i.name for i in sess.get_inputs()}
    return sess.run(None, {k: v for k, v in feeds.items() if k in names})


def compare_ort(before: onnx.ModelProto, after: onnx.ModelProto, feeds_list, random_by_design: bool = False) -> dict:
    """{'status': 'equal'|'differ'|'after_invalid'|'before_invalid', ...}
    A model with unseeded random operators has no reproducible values: only count, shape and dtype of
    its outputs are compared — unless the generator built it so that the OUTPUT is deterministic
    (family misc_cse_random: 'are two independent draws different?')."""
    values = random_by_design or not termify.has_unseeded_random(before)
    # a feed the BEFORE graph cannot process (e.g. an empty batch through Reshape(…,-1)) says nothing
    outs_b, usable, err = [], [], None
    for k, f in enumerate(feeds_list):
        try:
            outs_b.append(ort_outputs(before, f))
            usable.append(k)
        except Exception as e:  # noqa: BLE001
            err = str(e)[:300]
    if not usable:
        return {"status": "before_invalid", "error": err}
    try:
        onnx.checker.check_model(after, full_check=False)
        outs_a = [ort_outputs(after, feeds_list[k]) for k in usable]
    except Exception as e:
        return {"status": "after_invalid", "error": str(e)[:300]}
    for k, ob, oa in zip(usable, outs_b, outs_a):
        if len(ob) != len(oa):
            return {"status": "differ", "why": f"output count {len(ob)} vs {len(oa)}"}
        for j, (b, a) in enumerate(zip(ob, oa)):
            if b.shape != a.shape:
                return {"status": "differ", "why": f"output {j} shape {b.shape} vs {a.shape}", "feed": k}
            if b.dtype != a.dtype:
                return {"status": "differ", "why": f"output {j} dtype {b.dtype} vs {a.dtype}", "feed": k}
            if not values:
                continue
            if b.dtype.kind in "fc":
                # layout errors move distinct values (spaced >= 0.1) around; a reduction may legally
                # re-associate its sum, so floats are compared up to a few ulps of float32
                same = np.allclose(b.astype(np.float64), a.astype(np.float64), rtol=2e-5, atol=2e-5 * max(1.0, float(np.nanmax(np.where(np.isfinite(b.astype(np.float64)), np.abs(b.astype(np.float64)), 0.0))) if b.size else 1.0), equal_nan=True)
            else:
                same = np.array_equal(b, a)
            if not same:
                return {"status": "differ", "why": f"output {j} values differ",
                        "before": np.asarray(b).reshape(-1)[:6].tolist(),
                        "after": np.asarray(a).reshape(-1)[:6].tolist(), "feed": k}
    return {"status": "equal"}


def annotations_hold(model: onnx.ModelProto, feeds: dict[str, np.ndarray]) -> Optional[bool]:
    """Does this feed respect the model's OWN annotations (hypothesis AnnotSound / C08 of the input
    graph)?  Every annotated value of the top graph is observed in onnxruntime; literal extents must
    be met and every symbol must stand for one number. None: the model does not run on this feed.
    (Example: Reshape(t, Shape(x)) with an empty x — a 0 in a run-time shape tensor means 'copy the
    extent of the input' under allowzero=0, so the inferred annotation is false for that feed.)"""
    m = onnx.ModelProto()
    m.CopyFrom(model)
    have = {o.name for o in m.graph.output}
    produced = {o for n in m.graph.node for o in n.output if o}
    anns = {vi.name: vi for vi in list(m.graph.value_info) + list(m.graph.output) + list(m.graph.input)}
    extra = [vi for vi in m.graph.value_info if vi.name in produced and vi.name not in have]
    m.graph.output.extend(extra)
    try:
        outs = ort_outputs(m, feeds)
    except Exception:  # noqa: BLE001
        return None
    sym: dict[str, int] = {}
    obs = {o.name: np.asarray(a).shape for o, a in zip(m.graph.output, outs)}
    obs.update({k: np.asarray(v).shape for k, v in feeds.items()})
    for name, shp in obs.items():
        vi = anns.get(name)
        if vi is None or not vi.type.tensor_type.HasField("shape"):
            continue
        dims = list(vi.type.tensor_type.shape.dim)
        if len(dims) != len(shp):
            return False
        for d, n in zip(dims, shp):
            if d.HasField("dim_value"):
                if int(d.dim_value) != int(n):
                    return False
            elif d.dim_param:
                if sym.setdefault(d.dim_param, int(n)) != int(n):
                    return False
    return True


def declared_output_mismatch(before: onnx.ModelProto, after: onnx.ModelProto, feeds) -> Optional[str]:
    """The optimized model must still DECLARE for its outputs (and, under strict shape inference, for
    its intermediates) what it produces: a stale annotation left by a rewrite is a changed model
    interface (C02 'same value, shape and element type')."""
    try:
        outs = ort_outputs(after, feeds)
    except Exception:
        return None
    for o, arr in zip(after.graph.output, outs):
        tt = o.type.tensor_type
        if tt.HasField("shape"):
            dims = list(tt.shape.dim)
            if len(dims) != arr.ndim:
                return f"output {o.name} declared rank {len(dims)} but produces rank {arr.ndim}"
            for k, d in enumerate(dims):
                if d.HasField("dim_value") and int(d.dim_value) != int(arr.shape[k]):
                    return (f"output {o.name} declared dim {k} = {d.dim_value} but produces {arr.shape[k]} "
                            f"(shape {list(arr.shape)})")
        if tt.elem_type and onnx.helper.tensor_dtype_to_np_dtype(tt.elem_type) != arr.dtype:
            return f"output {o.name} declared elem_type {tt.elem_type} but produces {arr.dtype}"
    try:
        onnx.checker.check_model(before, full_check=True)
    except Exception:
        return None      # the input graph itself is not strictly consistent: nothing to conclude
    try:
        onnx.checker.check_model(after, full_check=True)
    except Exception as e:  # noqa: BLE001
        return "strict shape inference rejects the optimized model: " + str(e)[:160].replace("\n", " ")
    return None


def finding_key(pass_name: str, desc: dict, cmp: dict) -> dict:
    return {"pass": pass_name, "family": desc.get("family"),
            "guards": "+".join(sorted(set(g.split(":")[0] for g in desc.get("guards", [])))),
            "effect": cmp.get("status")}


def run(chk: Check) -> None:
    rng = common.Rng(chk.seed)
    thorough = chk.tier == "thorough"
    proved = chk.prove(MODS, checker=thorough)
    n_cases = int(os.environ.get("C02_CASES", 2500 if thorough else 450))

    # corpus of minimised past failures first
    cases = []
    corpus = common.CORPUS / "C02"
    if corpus.exists():
        for f in sorted(corpus.glob("*.onnx")):
            d = json.loads(f.with_suffix(".json").read_text()) if f.with_suffix(".json").exists() else {"family": "corpus"}
            cases.append((onnx.load(str(f)), d))
    for _ in range(n_cases):
        cases.append(graphgen.generate(rng))

    requests, meta = [], []
    fam_count: dict[str, int] = {}
    guard_count: dict[str, int] = {}
    pass_change: dict[str, int] = {}
    invalid_generated = 0
    feeds_dropped = 0
    t0 = time.time()
    for ci, (model, desc) in enumerate(cases):
        fam_count[desc["family"]] = fam_count.get(desc["family"], 0) + 1
        for g in desc.get("guards", []):
            guard_count[g] = guard_count.get(g, 0) + 1
        feeds_list = [graphgen.make_feeds(model, rng, {"B": 3, "A": 2, "N": 3, "X": 4, "Y": 4}),
                      graphgen.make_feeds(model, rng, {"B": 5, "A": 5, "N": 5, "X": 2, "Y": 2}),
                      # an empty batch: symbolic extents may be 0 at run time
                      graphgen.make_feeds(model, rng, {"B": 0, "A": 2, "N": 3, "X": 3, "Y": 5})]
        try:
            onnx.checker.check_model(model)
            ort_outputs(model, feeds_list[0])
        except Exception:
            invalid_generated += 1
            continue
        # feeds under which the generated graph contradicts its own annotations are outside the
        # property (the optimizer may rely on the annotations of a valid model)
        kept = [f for f in feeds_list if annotations_hold(model, f) is not False]
        feeds_dropped += len(feeds_list) - len(kept)
        feeds_list = kept
        if not feeds_list:
            invalid_generated += 1
            continue
        snaps, final = run_passes_with_snapshots(model)
        changed_any = False
        for (pname, before, after, err) in snaps:
            if after is None:
                continue
            changed_any = True
            pass_change[pname] = pass_change.get(pname, 0) + 1
            req = termify.pair_request(before, after, by_position=(pname == "name_fix"))
            meta.append({"case": ci, "pass": pname, "desc": desc, "before": before, "after": after,
                         "feeds": feeds_list, "req": req is not None})
            requests.append(req)
        chk.count({"family": desc["family"], "guards": desc.get("guards", []),
                   "passes_that_changed_it": [s[0] for s in snaps]}, nontrivial=changed_any or bool(desc.get("guards")))
        # end-to-end: whole pipeline vs original, always executed
        cmp = compare_ort(model, final, feeds_list, desc["family"] == "misc_cse_random")
        if cmp["status"] == "equal":
            stale = declared_output_mismatch(model, final, feeds_list[0])
            if stale:
                cmp = {"status": "after_invalid", "error": stale, "why": stale}
        if cmp["status"] in ("differ", "after_invalid"):
            meta.append({"case": ci, "pass": "<pipeline>", "desc": desc, "before": model, "after": final,
                         "feeds": feeds_list, "req": False, "precomputed": cmp})
            requests.append(None)
    gen_s = time.time() - t0

    # ---- real exports: the optimizer stage of real conversions (pre -> post) -----------------
    real_n = 0
    try:
        import exporter
        from props import c12 as _c12, c16 as _c16
        real_progs = [(n, f, s, {}) for n, f, s in _c12.programs()] + list(_c16.policy_programs())
        for name, fn, specs, kw in real_progs:
            try:
                st = exporter.export_stages(fn, [tuple(x) for x in specs], **kw)
            except Exception:
                continue
            real_n += 1
            desc = {"family": "real_export", "program": name, "guards": sorted(kw)}
            feeds_list = [graphgen.make_feeds(st["pre"], rng, {"B": 2, "H": 4, "W": 5}),
                          graphgen.make_feeds(st["pre"], rng, {"B": 3, "H": 2, "W": 7})]
            if st["pre"].SerializeToString() == st["post"].SerializeToString():
                continue
            pass_change["<whole pipeline on real export>"] = pass_change.get("<whole pipeline on real export>", 0) + 1
            req = termify.pair_request(st["pre"], st["post"], budget=20000)
            meta.append({"case": f"real:{name}", "pass": "<pipeline>", "desc": desc, "before": st["pre"],
                         "after": st["post"], "feeds": feeds_list, "req": req is not None})
            requests.append(req)
            chk.count({"family": "real_export", "program": name, "config": kw}, nontrivial=True)
    except Exception as e:  # noqa: BLE001
        chk.log(f"real-export stream unavailable: {type(e).__name__}: {e}")
    chk.info("real_exports", real_n)

    # ---- guard kernels: the code's own predicates vs their Lean models (Props/C02Guards.lean) ----
    import c02_guards
    chk.info("guard_kernels", c02_guards.check(chk, rng))
    # ---- the ONNX facts assumed as Laws (Reshape, Not, Swish) executed in onnxruntime ----
    import c02_laws
    chk.info("assumed_laws_validated_in_onnxruntime", c02_laws.check(chk, rng))
    # ---- graph edits: onnx_ir's replace_all_uses_with / graph.remove vs Model/GraphEdit.lean ----
    import c02_edits
    chk.info("graph_edits", c02_edits.check(chk, rng, 600 if thorough else 250))

    lines = [r for r in requests if r is not None]
    answers = iter(common.run_driver("C02", lines)) if lines else iter([])
    certified = rejected = toobig = errors = 0
    uncertified_by_pass: dict[str, int] = {}
    viol_seen: set[str] = set()
    rejected_samples: list[dict] = []
    for req, m in zip(requests, meta):
        verdict = None
        if req is not None:
            verdict = next(answers).split(" ")[0]
        if verdict == "certified":
            certified += 1
            continue
        if verdict and verdict.startswith("error"):
            errors += 1
        if req is None and not m.get("precomputed"):
            toobig += 1
        if verdict == "rejected":
            rejected += 1
        cmp = m.get("precomputed") or compare_ort(m["before"], m["after"], m["feeds"],
                                                   m["desc"].get("family") == "misc_cse_random")
        chk.add("disagreements_checked")
        if cmp["status"] in ("differ", "after_invalid"):
            key = finding_key(m["pass"], m["desc"], cmp)
            ks = json.dumps(key, sort_keys=True)
            if ks in viol_seen:
                continue
            viol_seen.add(ks)
            replay = {"pass": m["pass"], "desc": m["desc"], "ort": cmp, "validator": verdict,
                      "how": "vcheck.py C02 --replay <this file>: run the pass pipeline of jax2onnx.converter.ir_optimizations on the embedded input graph up "
                             "to and including this pass; execute before/after in onnxruntime"}
            listed = chk.finding(key, f"pass {m['pass']} changes results on pattern {key['family']} "
                                      f"[{key['guards']}]: {cmp.get('why', cmp.get('error', ''))[:120]}",
                                 _with_models(replay, m))
            if not listed:
                _save_models(chk, m, key)
        else:
            uncertified_by_pass[m["pass"]] = uncertified_by_pass.get(m["pass"], 0) + 1
            if len(rejected_samples) < 20:
                rejected_samples.append({"pass": m["pass"], "desc": m["desc"], "validator": verdict or "not-asked",
                                         "ort": cmp["status"]})
    chk.info("programs", len(cases))
    chk.info("families", fam_count)
    chk.info("guard_perturbations", guard_count)
    chk.info("pass_changed_graph", pass_change)
    chk.info("pairs", {"total": len(requests), "certified_by_lean_validator": certified,
                       "rejected_by_validator": rejected, "too_big_for_tree_terms": toobig,
                       "driver_errors": errors,
                       "rejected_but_equal_in_ORT(by pass)": uncertified_by_pass})
    chk.info("rejected_but_equal_samples", rejected_samples)
    chk.info("invalid_generated_graphs_skipped", invalid_generated)
    chk.info("feeds_dropped_because_they_contradict_the_input_graphs_annotations", feeds_dropped)
    chk.info("generation_s", round(gen_s, 1))
    chk.add("traces_validated_against_impl", len(requests))
    if not proved:
        chk.violation({"broken": getattr(chk, "broken", []),
                       "build_log_tail": getattr(chk, "build_log", "")[-3000:]},
                      name="obligation-broken", no_failing_input=not chk.violations)
    chk.assumptions += [
        "AnnotSound: annotations of the input graph are true at run time (C08)",
        "Laws: cast round trips accepted by the C17 reference are identities on well-typed tensors",
        "ONNX Runtime with graph optimisations disabled is the reference executor for the search",
    ]
    chk.coverage["rule"] = ("pattern-directed graphs (graphgen.py): one rewrite pattern + seeded guard perturbations; "
                            "every pass of _OPTIMIZER_PASSES snapshotted; non-trivial = some pass changed the graph "
                            "or a guard perturbation was present")


def _save_models(chk: Check, m: dict, key: dict) -> None:
    pass   # the models travel inside the replay file (see `_with_models`)


def _with_models(replay: dict, m: dict) -> dict:
    """make a replay self-contained: the input graph (serialized, base64) and the feeds' shapes/seeds."""
    import base64
    r = dict(replay)
    r["before_onnx_b64"] = base64.b64encode(m["before"].SerializeToString()).decode()
    r["feeds"] = [{k: {"shape": list(v.shape), "dtype": str(v.dtype),
                       "data_b64": base64.b64encode(np.ascontiguousarray(v).tobytes()).decode()}
                   for k, v in f.items()} for f in m["feeds"][:3]]
    return r


def replay(path: str) -> int:
    """Re-run a recorded violation against the real code of the current tree: exit 1 if it still fails."""
    import base64
    rep = json.loads(open(path).read())
    print(json.dumps({k: v for k, v in rep.items() if k not in ("before_onnx_b64", "feeds")}, indent=1)[:3000])
    if rep.get("guard"):
        import c02_guards
        failing = c02_guards._search(rep["guard"], rep["input"], None)
        print("replay:", "still fails: " + json.dumps(failing) if failing else "no longer fails")
        return 1 if failing else 0
    if "before_onnx_b64" not in rep:
        print("replay: this file names a broken obligation without a concrete input; re-run the check itself")
        return 0
    before = onnx.ModelProto()
    before.ParseFromString(base64.b64decode(rep["before_onnx_b64"]))
    feeds_list = [{k: np.frombuffer(base64.b64decode(v["data_b64"]), dtype=np.dtype(v["dtype"])).reshape(v["shape"])
                   for k, v in f.items()} for f in rep.get("feeds", [])]
    upto = rep.get("pass")
    import onnx_ir as ir
    opt = _opt()
    irm = ir.from_proto(before)
    if upto in (None, "<pipeline>"):
        for p in opt._OPTIMIZER_PASSES:
            opt._run_top_level_optimizer_pass(p, irm)
    else:
        for p in opt._OPTIMIZER_PASSES:
            if p.name == upto:
                opt._run_top_level_optimizer_pass(p, irm)
    after = ir.to_proto(irm)
    cmp = compare_ort(before, after, feeds_list, rep.get("desc", {}).get("family") == "misc_cse_random")
    if cmp["status"] == "equal":
        stale = declared_output_mismatch(before, after, feeds_list[0]) if feeds_list else None
        if stale:
            cmp = {"status": "after_invalid", "why": stale}
    print("replay:", json.dumps(cmp))
    return 1 if cmp["status"] in ("differ", "after_invalid") else 0
