"""C13 — conversion leaves the host process as it found it.

Lean side (lean/J2O/Model/C13.lean, Lemmas/C13.lean, Props/C13.lean): the patch machine —
own-attribute tables with MRO lookup and descriptors, `apply_patches` (entry loop, LIFO unwind,
`_MISSING`/delete-on-restore, duplicates on one key), `apply_monkey_patches` with the refcounted
`_PATCH_STATE`, arbitrary nesting, an exception injected at every step.  Theorems:
`run_restores` (+ named instances), full strength since fix 21b5229 (the target's OWN entry is put
back; the entry loop of apply_monkey_patches is inside its try), regression theorems about the
pre-fix machine, `x64_restored`.

Tie (H): seeded sandbox worlds (modules, class hierarchies with single and multiple
inheritance, missing attributes, static/class-method descriptors, a frozen target) and seeded
programs with injected exceptions run through the REAL `apply_patches` /
`apply_monkey_patches` (temporary registry) and through the Lean driver; final own tables,
`getattr` results, `_PATCH_STATE`, raised-flag must be equal.

Validation / search = the property's own observable on the real code: `inspect.getattr_static`
resolution of every attribute of the jax*/flax*/equinox*/… modules and classes (and of every
patch target of the live registry), the x64 flag, `_PATCH_STATE`, user-module state and
behavioural probes, before/after every call of seeded histories of succeeding and failing real
`to_onnx` calls.  Every real patch application is classified at the moment it happens (own /
missing / inherited) by shadowing `getattr` in `_patching` (information).
"""
from __future__ import annotations

import contextlib
import inspect
import json
import os
import sys
import types
import warnings
from typing import Any, Optional

import numpy as np

warnings.filterwarnings("ignore")

import common
from common import Check

META = {
    "ready": True,
    "level": "proof",
    "technique": "Lean 4 theorems about an executable model of the patch machine (apply_patches, "
                 "apply_monkey_patches/_PATCH_STATE, nesting, exceptions at every step; x64 flag stack) + "
                 "driver correspondence with the real context managers on seeded sandbox worlds + "
                 "namespace snapshots around seeded histories of real conversions",
    "level_text": "Kernel-checked, FULL strength since fix 21b5229: run_restores (for every program nesting "
                  "apply_patches / apply_monkey_patches contexts, every hierarchy incl. diamonds, registry, start "
                  "state with positive reference counts, and every exception point incl. the entry loop of "
                  "apply_monkey_patches: own-attribute tables and _PATCH_STATE are restored EXACTLY — own, "
                  "inherited, missing, metaclass-provided and descriptor keys alike), run_restores_from_clean, "
                  "applyPatches_restores, monkey_restores, patchState_empty_after, lookup_restored, x64_restored; "
                  "regression theorems about the pre-fix machine (old_capture_leaks, old_entry_fault_leaks).",
    "level_note": "Only hypothesis left: reference counts of a pre-existing _PATCH_STATE are >= 1 (a code invariant; "
                  "vacuous from the empty table). jit/pjit trace caches, threads and ContextVars are OUTSIDE the "
                  "Lean model: covered by behavioural probes only (warm jitted probes and jitted functions whose "
                  "first trace happens inside a conversion, called after every conversion); the pollution they found "
                  "was repaired by e2c85fd (F-C13-jit-cache-pollution, fixed). Trusted: Lean kernel + 3 axioms; the hand-written model "
                  "(validated by the sandbox correspondence each run); unwinding setattr/delattr assumed not to "
                  "raise; Python's getattr = MRO lookup + descriptor protocol; targets have a __dict__.",
    "design_ref": "DESIGN.md §3 C13",
}

MODS = ["J2O.Props.C13"]


# ============================================================================= sandbox (tie H)


class Boom(Exception):
    pass


class BoomBase(BaseException):
    """an exception that is NOT an `Exception` (like KeyboardInterrupt / SystemExit / GeneratorExit):
    `finally` must unwind for it exactly as for any other exception"""


class Tok:
    __slots__ = ("n",)

    def __init__(self, n):
        self.n = n


class Wrap:
    __slots__ = ("k", "orig")

    def __init__(self, k, orig):
        self.k, self.orig = k, orig


class FrozenMeta(type):
    def __setattr__(cls, name, value):
        raise TypeError(f"cannot set {name!r} on frozen sandbox class")

    def __delattr__(cls, name):
        raise TypeError(f"cannot delete {name!r} on frozen sandbox class")


_FNS: dict[int, Any] = {}


def fn_n(n: int):
    if n not in _FNS:
        def f(*a, **k):
            return n
        f._n = n
        _FNS[n] = f
    return _FNS[n]


ATTRS = ["a0", "a1", "a2", "a3"]


class Sandbox:
    """targets: 0,1 modules; 2 = C0; 3 = C1(C0); 4 = C2(C1); 5 = C3(C0); 6 = D(C1, C3) (diamond);
    7 = frozen class F(C0)."""

    def __init__(self, own: list, frozen_own: dict):
        self.t: list[Any] = []
        self.t.append(types.ModuleType("c13_sandbox_m0"))
        self.t.append(types.ModuleType("c13_sandbox_m1"))
        C0 = type("C0", (object,), {})
        C1 = type("C1", (C0,), {})
        C2 = type("C2", (C1,), {})
        C3 = type("C3", (C0,), {})
        D = type("D", (C1, C3), {})
        F = FrozenMeta("F", (C0,), {ATTRS[a]: self.mk(v) for a, v in frozen_own.items()})
        self.t += [C0, C1, C2, C3, D, F]
        self.is_class = [False, False, True, True, True, True, True, True]
        self.frozen = 7
        for t, a, v in own:
            if t != self.frozen:
                setattr_raw(self.t[t], ATTRS[a], self.mk(v))
        self.mro = []
        for i, t in enumerate(self.t):
            if self.is_class[i]:
                self.mro.append([self.t.index(c) for c in t.__mro__ if c in self.t])
            else:
                self.mro.append([i])

    def mk(self, v: dict) -> Any:
        if "tok" in v:
            return Tok(v["tok"])
        if "static" in v:
            return staticmethod(Tok(v["static"]))
        if "classm" in v:
            return classmethod(fn_n(v["classm"]))
        if "bound" in v:
            return types.MethodType(fn_n(v["bound"]), self.t[v["t"]])
        return Wrap(v["wrap"], None if v["orig"] is None else self.mk(v["orig"]))

    def canon(self, o: Any) -> str:
        if isinstance(o, Tok):
            return f"t{o.n}"
        if isinstance(o, staticmethod):
            return f"s{o.__func__.n}"
        if isinstance(o, classmethod):
            return f"c{o.__func__._n}"
        if isinstance(o, types.MethodType):
            return f"b{o.__func__._n}@{self.t.index(o.__self__)}"
        if isinstance(o, Wrap):
            return f"w{o.k}({'-' if o.orig is None else self.canon(o.orig)})"
        return f"?{type(o).__name__}"


def setattr_raw(t: Any, name: str, v: Any) -> None:
    if isinstance(t, type):
        type.__setattr__(t, name, v)
    else:
        setattr(t, name, v)


_MISSING = object()


def gen_val(rng: common.Rng, allow_desc: bool = True) -> dict:
    r = rng.randint(0, 9)
    if r <= 5 or not allow_desc:
        return {"tok": rng.randint(0, 30)}
    if r <= 7:
        return {"static": rng.randint(0, 30)}
    return {"classm": rng.randint(0, 30)}


def gen_world(rng: common.Rng, profile: str) -> dict:
    """profile: 'good' → every key own-plain or missing everywhere (theorem hypothesis holds);
    'inherit' → sparse own tables (inherited lookups dominate); 'mixed' → everything."""
    own, frozen_own = [], {}
    dens = {"good": 0.75, "inherit": 0.3, "mixed": 0.5}[profile]
    for t in range(7):
        for a in range(len(ATTRS)):
            if profile == "good":
                # whole columns are either populated on every class or nowhere
                populated = (a % 2 == 0)
                if t < 2:
                    if rng.chance(dens):
                        own.append([t, a, gen_val(rng, False)])
                elif populated:
                    own.append([t, a, gen_val(rng, False)])
            elif rng.chance(dens):
                own.append([t, a, gen_val(rng, profile != "good")])
    for a in range(len(ATTRS)):
        if rng.chance(0.5):
            frozen_own[a] = gen_val(rng, False)
    return {"own": own, "frozen_own": frozen_own}


def gen_spec(rng: common.Rng, world_profile: str, p_fault: float) -> dict:
    t = rng.randint(0, 7)
    a = rng.randint(0, len(ATTRS) - 1)
    s: dict[str, Any] = {"tgt": t, "attr": a}
    if rng.chance(0.4):
        s["assign"] = gen_val(rng, world_profile == "mixed" and rng.chance(0.3))
    else:
        s["monkey"] = rng.randint(1, 40)
    if t == 7:
        s["fault"] = rng.choice(["set", "set", "resolve", "make"])
        if s["fault"] == "make" and "assign" in s:
            s["fault"] = "set"
    elif rng.chance(p_fault):
        s["fault"] = rng.choice(["resolve", "make"])
        if s["fault"] == "make" and "assign" in s:
            s["fault"] = "resolve"
    else:
        s["fault"] = "none"
    return s


def gen_prog(rng: common.Rng, depth: int, nreg: int, profile: str, p_fault: float) -> dict:
    r = rng.randint(0, 99)
    if depth <= 0:
        return {"t": "raise"} if r < 12 else {"t": "skip"}
    if r < 8:
        return {"t": "skip"}
    if r < 14:
        return {"t": "raise"}
    if r < 30:
        return {"t": "seq", "a": gen_prog(rng, depth - 1, nreg, profile, p_fault),
                "b": gen_prog(rng, depth - 1, nreg, profile, p_fault)}
    if r < 38:
        return {"t": "catch", "body": gen_prog(rng, depth - 1, nreg, profile, p_fault)}
    if r < 78:
        n = rng.choice([0, 1, 1, 2, 3, 4, 6])
        specs = [gen_spec(rng, profile, p_fault) for _ in range(n)]
        if specs and rng.chance(0.35):      # duplicate key inside one list
            d = dict(rng.choice(specs))
            d.pop("assign", None)
            d["monkey"] = rng.randint(41, 60)
            if d["fault"] == "make" or d["tgt"] != 7:
                d["fault"] = "none" if d["tgt"] != 7 else "set"
            specs.insert(rng.randint(0, len(specs)), d)
        return {"t": "patches", "specs": specs, "body": gen_prog(rng, depth - 1, nreg, profile, p_fault)}
    faults = ["make" if rng.chance(p_fault * 0.6) else "none" for _ in range(nreg)]
    return {"t": "monkey", "faults": faults, "body": gen_prog(rng, depth - 1, nreg, profile, p_fault)}


def gen_case(rng: common.Rng, idx: int) -> dict:
    profile = ["good", "good", "inherit", "mixed"][idx % 4]
    world = gen_world(rng, profile)
    nreg = rng.choice([0, 1, 2, 3, 4])
    reg = []
    for _ in range(nreg):
        t = rng.randint(0, 7 if profile != "good" else 6)
        reg.append([t, rng.randint(0, len(ATTRS) - 1), rng.randint(61, 90)])
    if reg and rng.chance(0.3):
        reg.append(list(reg[0][:2]) + [rng.randint(61, 90)])      # two plugins on one site
    ps = []
    if rng.chance(0.15) and reg:                                    # an enclosing conversion holds this site already
        own = next((v for (t, a, v) in world["own"] if t == reg[0][0] and a == reg[0][1]), None)
        ps.append([reg[0][0], reg[0][1], {"tok": 99}, own if rng.chance(0.7) else None, rng.randint(1, 2)])
    p_fault = rng.choice([0.0, 0.1, 0.25])
    prog = gen_prog(rng, rng.choice([1, 2, 3, 3]), len(reg), profile, p_fault)
    # monkey fault lists must be aligned with the final registry and mark frozen-target sites
    def fix(p):
        if p["t"] == "monkey":
            f = (p["faults"] + ["none"] * len(reg))[: len(reg)]
            p["faults"] = ["set" if reg[i][0] == 7 and f[i] == "none" else f[i] for i in range(len(reg))]
        for k in ("a", "b", "body"):
            if k in p:
                fix(p[k])
    fix(prog)
    return {"profile": profile, "world": world, "reg": reg, "ps": ps, "prog": prog,
            "base_exc": bool(idx % 3 == 1)}


_NOFIELD = object()


def _st_field(st, names, default=_NOFIELD):
    """one field of a `_PATCH_STATE` entry, whatever its representation (dict keys or attributes)"""
    for n in names:
        if isinstance(st, dict):
            if n in st:
                return st[n]
        elif hasattr(st, n):
            return getattr(st, n)
    if default is _NOFIELD:
        raise KeyError(f"_PATCH_STATE entry {type(st).__name__} has none of {names}")
    return default


def ps_entries_are_dicts() -> bool:
    """Are `_PATCH_STATE` entries plain dicts (so that a pre-existing entry of an enclosing conversion
    can be written directly)?  Probed on a dummy class through the real context manager."""
    from jax2onnx.plugins import plugin_system as psys

    class Dummy:
        def f(self):
            return 1

    saved_iter = psys._iter_patch_specs
    saved_state = dict(psys._PATCH_STATE)
    psys._PATCH_STATE.clear()
    psys._iter_patch_specs = lambda: iter([(lambda orig: orig, [Dummy], "f")])
    try:
        with psys.apply_monkey_patches():
            vals = list(psys._PATCH_STATE.values())
        return bool(vals) and all(isinstance(v, dict) and {"orig", "count"} <= set(v) for v in vals)
    except Exception:  # noqa: BLE001
        return False
    finally:
        psys._iter_patch_specs = saved_iter
        psys._PATCH_STATE.clear()
        psys._PATCH_STATE.update(saved_state)


def run_real(case: dict) -> str:
    """Run the case through the REAL apply_patches / apply_monkey_patches; canonical result line."""
    from jax2onnx.plugins import _patching, plugin_system as psys
    from jax2onnx.plugins._patching import AssignSpec, MonkeyPatchSpec

    sb = Sandbox(case["world"]["own"], {int(k): v for k, v in case["world"]["frozen_own"].items()})
    plan: dict[str, list] = {"faults": []}
    # the model does not distinguish exception classes: every injected exception of this case is either an
    # ordinary Exception or a BaseException that is not an Exception
    Exc = BoomBase if case.get("base_exc") else Boom

    def make_site(i, t, a, k):
        def patch_fn(orig):
            if plan["faults"][i] == "make":
                raise Exc(f"patch_fn {i}")
            return Wrap(k, orig)
        return (patch_fn, [sb.t[t]], ATTRS[a])

    sites = [make_site(i, t, a, k) for i, (t, a, k) in enumerate(case["reg"])]

    def build(s):
        tgt: Any = "c13_no_such_module_xyz.attr" if s["fault"] == "resolve" else sb.t[s["tgt"]]
        if "assign" in s:
            return AssignSpec(tgt, ATTRS[s["attr"]], sb.mk(s["assign"]))
        k = s["monkey"]

        def mv(orig, k=k, bad=(s["fault"] == "make")):
            if bad:
                raise Exc("make_value")
            return Wrap(k, orig)
        return MonkeyPatchSpec(tgt, ATTRS[s["attr"]], mv)

    def ex(p):
        t = p["t"]
        if t == "skip":
            return
        if t == "raise":
            raise Exc("body")
        if t == "seq":
            ex(p["a"]); ex(p["b"]); return
        if t == "catch":
            try:
                ex(p["body"])
            except BaseException:
                pass
            return
        if t == "patches":
            with _patching.apply_patches([build(s) for s in p["specs"]]):
                ex(p["body"])
            return
        if t == "monkey":
            plan["faults"] = list(p["faults"])
            with psys.apply_monkey_patches():
                ex(p["body"])
            return
        raise ValueError(t)

    saved_iter = psys._iter_patch_specs
    saved_state = dict(psys._PATCH_STATE)
    psys._PATCH_STATE.clear()
    for t, a, v, own, c in case["ps"]:
        psys._PATCH_STATE[(sb.t[t], ATTRS[a])] = {"orig": sb.mk(v), "count": c,
                                                  "own": _patching._MISSING if own is None else sb.mk(own)}
    psys._iter_patch_specs = lambda: iter(sites)
    raised = False
    try:
        try:
            ex(case["prog"])
        except BaseException:
            raised = True
        own, look, pst = [], [], []
        for t in range(8):
            for a in range(len(ATTRS)):
                o = vars(sb.t[t]).get(ATTRS[a], _MISSING)
                if o is not _MISSING:
                    own.append(f"{t}.{a}={sb.canon(o)}")
                g = getattr(sb.t[t], ATTRS[a], _MISSING)
                if g is not _MISSING:
                    look.append(f"{t}.{a}={sb.canon(g)}")
                st = psys._PATCH_STATE.get((sb.t[t], ATTRS[a]))
                if st is not None:
                    own_v = _st_field(st, ("own", "own_value"), "no-own-field")
                    own_s = "-" if own_v is _patching._MISSING else (own_v if isinstance(own_v, str)
                                                                      else sb.canon(own_v))
                    pst.append(f"{t}.{a}={sb.canon(_st_field(st, ('orig', 'original')))}/{own_s}"
                               f"#{_st_field(st, ('count', 'depth', 'refcount'))}")
    finally:
        psys._iter_patch_specs = saved_iter
        psys._PATCH_STATE.clear()
        psys._PATCH_STATE.update(saved_state)
    return (f"raised={'true' if raised else 'false'} own=[{';'.join(own)}] ps=[{';'.join(pst)}] "
            f"look=[{';'.join(look)}]")


def driver_line(case: dict) -> str:
    sb_mro = Sandbox([], {}).mro
    own = [list(x) for x in case["world"]["own"]]
    own += [[7, int(a), v] for a, v in case["world"]["frozen_own"].items()]
    return json.dumps({"op": "run", "isClass": [False, False, True, True, True, True, True, True],
                       "mro": sb_mro, "own": own, "ps": case["ps"], "reg": case["reg"], "prog": case["prog"],
                       "keys": [[t, a] for t in range(8) for a in range(len(ATTRS))]})


def split_answer(ans: str) -> tuple[str]:
    """model line → (comparable part,)"""
    return (ans,)


def initial_line(case: dict) -> str:
    c = dict(case, prog={"t": "skip"})
    return run_real(c)


# ============================================================================= real observation


PREFIX = ("jax", "jaxlib", "flax", "equinox", "einops", "dm_pix", "optax", "orbax", "ml_dtypes", "jaxtyping",
          "chex", "numpy")


def lib_modules() -> dict:
    return {n: m for n, m in list(sys.modules.items())
            if isinstance(m, types.ModuleType) and n.split(".")[0] in PREFIX}


def registry_targets() -> list[tuple[Any, str, str]]:
    """(target object, attr, origin) of every patch site of the live registry."""
    from jax2onnx.plugins import plugin_system as psys
    from jax2onnx.plugins._patching import _resolve
    out = []
    for p in psys.PLUGIN_REGISTRY.values():
        if isinstance(p, psys.PrimitiveLeafPlugin):
            try:
                for s in p.__class__.binding_specs():
                    try:
                        out.append((_resolve(s.target), s.attr, "leaf:" + p.__class__.__name__))
                    except Exception:
                        pass
            except Exception:
                pass
    for _fn, targets, attr in psys._iter_patch_specs():
        for t in targets:
            out.append((t, attr, "function"))
    return out


def qual(t: Any) -> str:
    if isinstance(t, types.ModuleType):
        return t.__name__
    return f"{getattr(t, '__module__', '?')}.{getattr(t, '__qualname__', repr(t))}"


class Snapshot:
    """`inspect.getattr_static` resolution of every attribute of the library modules and of the
    classes they expose (own dict entries and MRO resolution of every name visible on the class),
    plus every patch target of the live registry, the x64 flag and `_PATCH_STATE`."""

    def __init__(self):
        import jax
        from jax2onnx.plugins import plugin_system as psys
        self.own: dict = {}
        self.res: dict = {}
        seen: set[int] = set()

        def add_class(c):
            if id(c) in seen:
                return
            seen.add(id(c))
            q = qual(c)
            try:
                for a, v in list(vars(c).items()):
                    self.own[("c", q, a)] = v
                names = set()
                for k in c.__mro__:
                    names.update(vars(k).keys())
                for a in names:
                    if a.startswith("__") and a.endswith("__") and a not in ("__call__", "__init__"):
                        continue
                    self.res[("c", q, a)] = inspect.getattr_static(c, a, _MISSING)
            except Exception:
                pass

        for n, m in lib_modules().items():
            try:
                d = dict(vars(m))
            except Exception:
                continue
            for a, v in d.items():
                if a.startswith("__") and a.endswith("__"):
                    continue
                self.res[("m", n, a)] = v
                if inspect.isclass(v) and (getattr(v, "__module__", "") or "").split(".")[0] in PREFIX:
                    add_class(v)
        for t, a, origin in registry_targets():
            if inspect.isclass(t):
                add_class(t)
                self.res[("c", qual(t), a)] = inspect.getattr_static(t, a, _MISSING)
                self.own[("c", qual(t), a)] = vars(t).get(a, _MISSING)
            else:
                self.res[("m", qual(t), a)] = getattr(t, "__dict__", {}).get(a, _MISSING)
        self.x64 = bool(jax.config.jax_enable_x64)
        self.patch_state = len(psys._PATCH_STATE)

    def diff(self, other: "Snapshot") -> dict:
        changed, own_only = [], []
        for k in self.res.keys() | other.res.keys():
            if self.res.get(k, _MISSING) is not other.res.get(k, _MISSING):
                changed.append(k)
        ch = set(changed)
        for k in self.own.keys() | other.own.keys():
            if self.own.get(k, _MISSING) is not other.own.get(k, _MISSING) and k not in ch:
                own_only.append(k)
        return {"resolution_changed": sorted(changed), "own_table_only": sorted(own_only),
                "x64": (self.x64, other.x64), "patch_state": (self.patch_state, other.patch_state)}


class Recorder:
    """Shadows `getattr` inside jax2onnx.plugins._patching: classifies every patch application of
    the real `apply_patches` at the moment it happens."""

    def __init__(self):
        self.counts = {"own": 0, "missing": 0, "inherited": 0}
        self.inherited: dict[str, int] = {}

    def __enter__(self):
        from jax2onnx.plugins import _patching
        self.mod = _patching
        rec = self

        def recording_getattr(obj, name, *default):
            try:
                if sys._getframe(1).f_code.co_name == "apply_patches":
                    if name in getattr(obj, "__dict__", {}):
                        rec.counts["own"] += 1
                    elif getattr(obj, name, _MISSING) is _MISSING:
                        rec.counts["missing"] += 1
                    else:
                        rec.counts["inherited"] += 1
                        k = f"{qual(obj)}.{name}"
                        rec.inherited[k] = rec.inherited.get(k, 0) + 1
            except Exception:
                pass
            return getattr(obj, name, *default)

        _patching.getattr = recording_getattr
        return self

    def __exit__(self, *exc):
        try:
            del self.mod.getattr
        except AttributeError:
            pass
        return False


# ---- programs used in the histories (module level: @onnx_function targets must be module attributes)

_DEFS: dict[str, Any] = {}


def _define_programs() -> dict:
    if _DEFS:
        return _DEFS
    import jax
    import jax.numpy as jnp
    from jax2onnx import onnx_function
    mod = sys.modules[__name__]

    def c13_inner(x):
        return jnp.tanh(x) * 2.0

    def c13_outer(x):
        return mod.c13_inner(x) + mod.c13_inner(x * 0.5)

    def c13_inner_raises(x):
        raise Boom("inside a function body")

    def c13_inner_raises_base(x):
        raise BoomBase("inside a function body, not an Exception")

    mod.c13_inner = onnx_function(c13_inner)
    mod.c13_outer = onnx_function(c13_outer)
    mod.c13_inner_raises = onnx_function(c13_inner_raises)
    mod.c13_inner_raises_base = onnx_function(c13_inner_raises_base)

    from jax.extend.core import Primitive
    unsupported = Primitive("c13_unsupported_primitive")
    unsupported.def_impl(lambda x: x)
    unsupported.def_abstract_eval(lambda x: x)

    @jax.jit
    def jitted(x):
        return jnp.sin(x) @ jnp.ones((3, 2), x.dtype)

    # jitted user functions that are NEVER called before the first conversion that uses them: their first
    # trace happens inside to_onnx, while the plugin world is active (jit/pjit staging caches are runtime
    # state outside the Lean model — this is the behavioural probe for it)
    w32 = np.ones((3, 2), np.float32)
    cold_tanh = jax.jit(lambda a: jnp.tanh(a) * 2.0 + 1.0)
    cold_dot = jax.jit(lambda a: jnp.dot(a, w32) - 0.5)
    cold_arith = jax.jit(lambda a: a * 2.0 + 1.0)
    cold_exp = jax.jit(lambda a: jnp.exp(a) * 0.5)

    def c13_fn_uses_cold(x):
        return cold_exp(x) + 1.0

    mod.c13_fn_uses_cold = onnx_function(c13_fn_uses_cold)
    _DEFS["cold"] = {
        "cold_tanh": (cold_tanh, lambda a: np.tanh(a) * 2.0 + 1.0, True, "uses_cold_tanh"),
        "cold_dot": (cold_dot, lambda a: a @ w32 - 0.5, True, "uses_cold_dot"),
        "cold_arith": (cold_arith, lambda a: a * 2.0 + 1.0, False, "uses_cold_arith"),
        "cold_exp": (cold_exp, lambda a: np.exp(a) * 0.5, True, "fn_uses_cold"),
    }

    _DEFS.update({
        "uses_cold_tanh": lambda x: cold_tanh(x) + 1.0,
        "uses_cold_dot": lambda x: cold_dot(x) * 2.0,
        "uses_cold_arith": lambda x: cold_arith(x) - 1.0,
        "fn_uses_cold": lambda x: mod.c13_fn_uses_cold(x) * 2.0,
        "simple": lambda x: jnp.sin(x) + 1.0,
        "matmul": lambda x: x @ jnp.ones((3, 3), x.dtype),
        "nested_fn": lambda x: mod.c13_outer(x) - 1.0,
        "fn_body_raises": lambda x: mod.c13_inner_raises(x),
        "trace_raises": lambda x: (_ for _ in ()).throw(Boom("while tracing")),
        "trace_raises_base": lambda x: (_ for _ in ()).throw(BoomBase("while tracing, not an Exception")),
        "trace_interrupted": lambda x: (_ for _ in ()).throw(KeyboardInterrupt()),
        "fn_body_raises_base": lambda x: mod.c13_inner_raises_base(x),
        "unsupported": lambda x: unsupported.bind(x) + 1.0,
        "jitted": jitted,
    })
    return _DEFS


def history(rng: common.Rng, thorough: bool) -> list[dict]:
    base = [
        {"prog": "simple", "x64": False},
        {"prog": "matmul", "x64": True},
        {"prog": "nested_fn", "x64": False},
        {"prog": "unsupported", "x64": False},
        {"prog": "trace_raises", "x64": True},
        {"prog": "fn_body_raises", "x64": False},
        {"prog": "jitted", "x64": False},
        {"prog": "nnx_linear", "x64": False},
        {"prog": "nested_fn", "x64": True},
        # jitted user functions whose FIRST trace happens inside the conversion
        {"prog": "uses_cold_tanh", "x64": False},
        {"prog": "uses_cold_dot", "x64": False},
        {"prog": "uses_cold_arith", "x64": False},
        {"prog": "fn_uses_cold", "x64": False},
        # failures in the EMIT stage (after tracing and lowering succeeded) x precision flag
        {"prog": "simple", "x64": True, "emit": "names"},
        {"prog": "matmul", "x64": True, "emit": "dir"},
        {"prog": "simple", "x64": False, "emit": "names"},
        {"prog": "nested_fn", "x64": True, "emit": "file_ok"},
        # exceptions that are not `Exception`s, while tracing and inside a function body
        {"prog": "trace_raises_base", "x64": False},
        {"prog": "trace_interrupted", "x64": True},
        {"prog": "fn_body_raises_base", "x64": False},
        # the same on a host whose flag is ON
        {"prog": "simple", "x64": False, "host_x64": True},
        {"prog": "trace_raises", "x64": False, "host_x64": True},
        {"prog": "matmul", "x64": False, "emit": "dir", "host_x64": True},
    ]
    kinds = ["simple", "matmul", "nested_fn", "unsupported", "trace_raises", "fn_body_raises", "jitted",
             "trace_raises_base", "fn_body_raises_base"]
    extra = []
    for _ in range(4 if not thorough else 24):
        st = {"prog": rng.choice(kinds), "x64": rng.chance(0.5)}
        if rng.chance(0.3):
            st["emit"] = rng.choice(["names", "dir", "file_ok"])
        if rng.chance(0.2):
            st["host_x64"] = True
        extra.append(st)
    steps = [base[0]] + rng.shuffle(base[1:] + extra)
    return steps


def convert_step(st: dict, d: dict) -> tuple[bool, str]:
    """One real to_onnx call of a history step. Returns (converted?, error text)."""
    import shutil
    import tempfile
    from jax2onnx import to_onnx
    kw: dict[str, Any] = {"enable_double_precision": st["x64"]}
    tmp = None
    emit = st.get("emit")
    if emit == "names":
        kw.update(input_names=["v"], output_names=["v"])         # clashing custom names → ValueError when emitting
    elif emit in ("dir", "file_ok"):
        tmp = tempfile.mkdtemp(prefix="c13_")
        kw.update(return_mode="file", output_path=tmp if emit == "dir" else os.path.join(tmp, "m.onnx"))
    try:
        to_onnx(d[st["prog"]], [(2, 3)], **kw)
        return True, ""
    except (Exception, BoomBase, KeyboardInterrupt) as e:
        return False, f"{type(e).__name__}: {str(e)[:80]}"
    finally:
        if tmp:
            shutil.rmtree(tmp, ignore_errors=True)


def cold_jit_probe(exported: set) -> list[dict]:
    """Call, eagerly, every jitted function whose first trace happened inside a conversion so far.
    Returns one record per function that no longer evaluates (or evaluates differently)."""
    d = _define_programs()
    x = (np.arange(6, dtype=np.float32).reshape(2, 3) / 4 - 0.5)
    bad = []
    for name, (fn, ref, patched_call, prog) in d["cold"].items():
        if prog not in exported:
            continue
        try:
            y = np.asarray(fn(x))
            if not np.allclose(y, ref(x), rtol=1e-5, atol=1e-6):
                bad.append({"probe": name, "patched_library_call": patched_call, "what": "different result"})
        except Exception as e:
            bad.append({"probe": name, "patched_library_call": patched_call,
                        "what": f"{type(e).__name__}: {str(e).splitlines()[0][:110]}"})
    return bad


def probes() -> dict:
    """Behavioural probes: eager results of fixed callables (incl. a jitted one)."""
    import jax
    import jax.numpy as jnp
    d = _define_programs()
    x = jnp.arange(6, dtype=jnp.float32).reshape(2, 3) / 4
    out = {}
    for name in ("simple", "matmul", "nested_fn", "jitted"):
        try:
            out[name] = np.asarray(d[name](x)).tobytes().hex()[:64]
        except Exception as e:
            out[name] = f"raised {type(e).__name__}"
    try:
        import flax.linen as nn
        m = nn.MultiHeadAttention(num_heads=2, qkv_features=8)
        q = jnp.ones((1, 4, 8))
        k = jnp.ones((1, 5, 8))
        if "mha_params" not in _DEFS:
            _DEFS["mha_params"] = m.init(jax.random.PRNGKey(0), q, k, k)
        out["linen_mha(q,None,None,inputs_kv=k)"] = np.asarray(
            m.apply(_DEFS["mha_params"], q, None, None, inputs_kv=k)).tobytes().hex()[:64]
    except Exception as e:
        out["linen_mha(q,None,None,inputs_kv=k)"] = f"raised {type(e).__name__}"
    return out


def run_history(chk: Check, rng: common.Rng, thorough: bool) -> None:
    import jax
    import jax.numpy as jnp
    from jax2onnx import to_onnx
    from jax2onnx.plugins import plugin_system as psys

    psys.import_all_plugins()
    d = _define_programs()
    steps = history(rng, thorough)
    nnx_model = None
    try:
        from flax import nnx
        nnx_model = nnx.Linear(3, 2, rngs=nnx.Rngs(0))
        d["nnx_linear"] = lambda x: nnx_model(x)
    except Exception:
        steps = [s for s in steps if s["prog"] != "nnx_linear"]

    def user_state():
        if nnx_model is None:
            return None
        from flax import nnx
        leaves = jax.tree_util.tree_leaves(nnx.state(nnx_model))
        return [np.asarray(l).tobytes() for l in leaves], sorted(vars(nnx_model).keys())

    exported: set = set()
    p0 = probes()        # warm the jit caches BEFORE the first snapshot: jitted probe is called, exported, called again
    first = Snapshot()
    prev = first
    us0 = user_state()
    stat = {"steps": 0, "succeeded": 0, "failed": 0, "resolution_changes": 0, "own_copies": set(),
            "probe_changes": 0}
    with Recorder() as rec:
        for i, st in enumerate(steps):
            if st.get("host_x64"):
                # this step runs on a host whose flag is ON; compare against a snapshot taken under that flag
                jax.config.update("jax_enable_x64", True)
                prev.x64 = True
            ok, err = convert_step(st, d)
            stat["steps"] += 1
            stat["succeeded" if ok else "failed"] += 1
            if not st["x64"] and not st.get("host_x64"):
                exported.add(st["prog"])
            for rec_ in cold_jit_probe(exported):
                stat["jit_cache_pollution"] = stat.get("jit_cache_pollution", 0) + 1
                chk.finding({"kind": "jit_cache_pollution", "first_traced": "inside_to_onnx",
                             "patched_library_call": rec_["patched_library_call"], "probe": rec_["probe"]},
                            f"eager call of the jitted function {rec_['probe']} (never called before the export "
                            f"that traced it) fails after to_onnx: {rec_['what']}",
                            {"history": steps[: i + 1], "probe": rec_["probe"], "what": rec_["what"],
                             "how": "harness/props/c13.py::replay; standalone: notes/C13-jit-cache-repro.py"})
            cur = Snapshot()
            df = prev.diff(cur)
            case = {"step": i, "call": st, "converted": ok, "resolution_changed": [list(k) for k in df["resolution_changed"]][:6],
                    "own_table_only": [list(k) for k in df["own_table_only"]][:6], "x64": df["x64"],
                    "patch_state": df["patch_state"]}
            chk.count(case, nontrivial=True)
            for k in df["resolution_changed"]:
                stat["resolution_changes"] += 1
                chk.finding({"kind": "attribute_changed", "target": k[1], "attr": k[2], "after": st["prog"]},
                            f"{k[1]}.{k[2]} resolves to a different object after to_onnx({st['prog']})",
                            {"history": steps[: i + 1], "changed": [list(x) for x in df["resolution_changed"]][:20],
                             "how": "harness/props/c13.py::replay (re-runs the history, prints the diff)"})
            for k in df["own_table_only"]:
                stat["own_copies"].add(f"{k[1]}.{k[2]}")
            if df["x64"][0] != df["x64"][1]:
                chk.finding({"kind": "x64_flag_changed", "after": st["prog"], "enable_double_precision": st["x64"],
                             "converted": ok},
                            f"jax_enable_x64 is {df['x64'][1]} after to_onnx({st['prog']}) (was {df['x64'][0]})",
                            {"history": steps[: i + 1]})
                jax.config.update("jax_enable_x64", df["x64"][0])
            if st.get("host_x64"):
                jax.config.update("jax_enable_x64", False)
                cur.x64 = False
            if df["patch_state"][1] != df["patch_state"][0]:
                chk.finding({"kind": "patch_state_not_restored", "after": st["prog"], "converted": ok},
                            f"_PATCH_STATE has {df['patch_state'][1]} entries after to_onnx({st['prog']})",
                            {"history": steps[: i + 1]})
            prev = cur
    p1 = probes()
    for k in p0:
        if p0[k] != p1[k]:
            stat["probe_changes"] += 1
            chk.finding({"kind": "behaviour_changed", "probe": k},
                        f"eager probe {k} behaves differently after the history ({p0[k][:24]} → {p1[k][:24]})",
                        {"history": steps, "probe": k, "before": p0[k], "after": p1[k]})
    us1 = user_state()
    if us0 is not None and (us0[1] != us1[1] or any(a != b for a, b in zip(us0[0], us1[0]))):
        chk.finding({"kind": "user_model_mutated", "model": "nnx.Linear"},
                    "the nnx.Linear instance passed to to_onnx was mutated", {"history": steps})
    stat["own_copies"] = sorted(stat["own_copies"])
    chk.info("history", stat)
    chk.info("patch_applications_observed", {"by_class_of_key": rec.counts, "inherited_keys": rec.inherited,
                                             "meaning": "information: since fix 21b5229 all three classes are "
                                                        "restored exactly (run_restores has no hypothesis on keys)"})
    chk.info("snapshot_entries", len(first.res) + len(first.own))


def run_entry_loop_defect(chk: Check) -> None:
    """The known trigger of the entry-loop leak, run LAST (it poisons the registry), then cleaned up."""
    import jax.numpy as jnp
    from jax2onnx import to_onnx, onnx_function
    from jax2onnx.plugins import plugin_system as psys

    def factory():
        @onnx_function
        def c13_not_a_module_attribute(x):
            return jnp.cos(x)
        return c13_not_a_module_attribute

    reg_before = dict(psys.PLUGIN_REGISTRY)
    before = Snapshot()
    fn = factory()
    raised = None
    try:
        to_onnx(lambda x: fn(x) + 1.0, [(2, 3)])
    except Exception as e:
        raised = e
    after = Snapshot()
    df = before.diff(after)
    tb_fn = ""
    if raised is not None:
        import traceback
        tb_fn = traceback.extract_tb(raised.__traceback__)[-1].name
    n_changed = len(df["resolution_changed"])
    chk.count({"entry_loop_trigger": True, "raised": type(raised).__name__ if raised else None, "raised_in": tb_fn,
               "sites_left_patched": n_changed, "patch_state": df["patch_state"]}, nontrivial=True)
    if n_changed or df["patch_state"][1] != df["patch_state"][0]:
        chk.finding({"kind": "patch_leak", "trigger": "onnx_function_target_not_module_attribute",
                     "raised_in": tb_fn},
                    f"to_onnx raised {type(raised).__name__ if raised else None} in {tb_fn}; {n_changed} patch sites "
                    f"stay patched, _PATCH_STATE keeps {df['patch_state'][1]} entries",
                    {"how": "define an @onnx_function function inside another function after a first conversion, "
                            "then call to_onnx on a function using it", "changed": [list(k) for k in
                                                                                    df["resolution_changed"]][:10]})
    # clean up: remove the unresolvable plugin again and undo what the entry loop left behind
    for k in list(psys.PLUGIN_REGISTRY.keys()):
        if k not in reg_before:
            del psys.PLUGIN_REGISTRY[k]
    for k in list(psys.ONNX_FUNCTION_PLUGIN_REGISTRY.keys()):
        if "c13_not_a_module_attribute" in k:
            del psys.ONNX_FUNCTION_PLUGIN_REGISTRY[k]
    for (tgt, attr), st in list(psys._PATCH_STATE.items()):
        try:
            setattr(tgt, attr, st["orig"])
        except Exception:
            pass
    psys._PATCH_STATE.clear()


# ============================================================================= the check


def run(chk: Check) -> None:
    rng = common.Rng(chk.seed)
    thorough = chk.tier == "thorough"
    proved = chk.prove(MODS, checker=thorough)
    if not proved:
        raise RuntimeError(f"Lean obligations of C13 do not build: {getattr(chk, 'broken', [])}")

    # ---- tie H: sandbox through the real context managers and the Lean driver
    n = 260 if not thorough else 3000
    cases = [gen_case(rng, i) for i in range(n)]
    if not ps_entries_are_dicts():
        # the representation of a _PATCH_STATE entry changed: pre-existing entries of an enclosing
        # conversion cannot be written directly any more; nested `monkey` programs still produce them
        for c in cases:
            c["ps"] = []
        chk.info("pre_state_injection", "unavailable (entries of _PATCH_STATE are not dicts); nested programs only")
        chk.log("_PATCH_STATE entries are not dicts: pre-existing state is produced by nesting only")
    answers = common.run_driver("C13", [driver_line(c) for c in cases])
    disagreements: list[dict] = []
    tie = {"cases": 0, "raised": 0, "disagreements": 0, "not_restored_in_sandbox": 0,
           "theorem_instances_confirmed": 0}
    for c, ans in zip(cases, answers):
        if ans.startswith("bad"):
            raise RuntimeError(f"driver rejected a case: {ans}: {json.dumps(c)[:300]}")
        real = run_real(c)
        (model,) = split_answer(ans)
        tie["cases"] += 1
        tie["raised"] += int(real.startswith("raised=true"))
        init = initial_line(c)
        restored = real.split(" ", 1)[1] == init.split(" ", 1)[1]
        chk.count({"profile": c["profile"], "reg": c["reg"], "ps": c["ps"], "prog": c["prog"], "real": real[:200],
                   "restored": restored}, nontrivial=c["prog"]["t"] not in ("skip", "raise"))
        if real != model:
            tie["disagreements"] += 1
            disagreements.append({"case": c, "real": real, "model": ans})
        # run_restores: every program restores every namespace (reference counts >= 1 by construction)
        if restored:
            tie["theorem_instances_confirmed"] += 1
        else:
            tie["not_restored_in_sandbox"] += 1
            chk.finding({"kind": "sandbox_not_restored", "profile": c["profile"]},
                        "the real apply_patches/apply_monkey_patches do not restore the sandbox namespace / "
                        "_PATCH_STATE", {"case": c, "real": real, "initial": init})
    chk.info("tie", tie)
    chk.add("traces_validated_against_impl", tie["cases"])
    chk.info("disagreements_checked", tie["disagreements"])

    # ---- the property's observable on the real code (= the search when the correspondence broke)
    try:
        run_history(chk, rng, thorough)
        run_entry_loop_defect(chk)
    except Exception as e:
        if not chk.violations and not disagreements:
            raise
        # the process is already polluted by a leak that was reported above
        chk.log(f"history aborted after reported violations: {type(e).__name__}: {str(e)[:120]}")
    if disagreements and not chk.violations:
        chk.violation({"correspondence": "real apply_patches/apply_monkey_patches and the Lean model disagree on "
                                         "the final namespace / _PATCH_STATE; no leak was observed on the sandbox "
                                         "or in the real histories",
                       "n_disagreements": len(disagreements), "cases": disagreements[:5]},
                      name="correspondence", no_failing_input=True)
    elif disagreements:
        chk.log(f"{len(disagreements)} model/real disagreements on the sandbox (concrete failing inputs reported above)")

    chk.assumptions += [
        "unwinding steps (setattr of the saved original / delattr) do not raise",
        "Python getattr on modules/classes = first own entry along the MRO + staticmethod/classmethod "
        "descriptor protocol (validated by the sandbox correspondence)",
        "jit/pjit trace and compilation caches, threads, ContextVars are not modelled (behavioural probes only)",
        "library namespaces observed = modules of jax/jaxlib/flax/equinox/einops/dm_pix/optax/orbax/ml_dtypes/"
        "jaxtyping/chex/numpy loaded in the process + every patch target of the live registry",
    ]
    chk.coverage["rule"] = (
        "sandbox: seeded worlds (2 modules, 5 classes incl. a diamond, 1 frozen class; 4 attributes; own values "
        "plain/staticmethod/classmethod; profiles good/inherit/mixed) x seeded programs (depth <= 3; "
        "patches/monkey/seq/catch/raise; faults resolve/make/set; duplicate keys; stale refcounts) through the real "
        "context managers and the model; non-trivial = program contains a context. histories: seeded sequences of "
        "succeeding/failing real to_onnx calls with a namespace snapshot after every call")
    chk.coverage["exhaustive"] = False


def replay(path: str) -> int:
    rep = json.loads(open(path).read())
    print(json.dumps(rep, indent=1)[:3000])
    if "case" in rep and "prog" in rep.get("case", {}):
        c = rep["case"]
        real = run_real(c)
        ans = common.run_driver("C13", [driver_line(c)])[0]
        print("real :", real)
        print("model:", ans)
        return 1 if (real != split_answer(ans)[0] or real.split(' ', 1)[1] != initial_line(c).split(' ', 1)[1]) else 0
    if "history" in rep:
        import jax
        from jax2onnx import to_onnx
        from jax2onnx.plugins import plugin_system as psys
        psys.import_all_plugins()
        d = _define_programs()
        before = Snapshot()
        flag_leaks = 0
        exported: set = set()
        polluted = 0
        for st in rep["history"]:
            if st["prog"] not in d:
                continue
            if st.get("host_x64"):
                jax.config.update("jax_enable_x64", True)
            flag0 = bool(jax.config.jax_enable_x64)
            ok, err = convert_step(st, d)
            print("  ", st, "converted" if ok else f"raised {err}", "| x64 flag", flag0, "->",
                  bool(jax.config.jax_enable_x64))
            if bool(jax.config.jax_enable_x64) != flag0:
                flag_leaks += 1
            jax.config.update("jax_enable_x64", False)
            if not st["x64"] and not st.get("host_x64"):
                exported.add(st["prog"])
            for rec_ in cold_jit_probe(exported):
                polluted += 1
                print("     jit cache pollution:", rec_)
        df = before.diff(Snapshot())
        print(json.dumps({k: ([list(x) for x in v][:20] if isinstance(v, list) else v) for k, v in df.items()},
                         indent=1, default=str))
        return 1 if df["resolution_changed"] or flag_leaks or polluted else 0
    return 0
