"""C09 — precision flag honoured end to end.

Tie T: the live dtype policy (`numpy_dtype_to_ir_with_float_policy`) on all numpy / ml_dtypes
dtypes x {False, True}, and every constant-binding decision function that can be called in
isolation (`bind_const_for_var`, `_bind_literal_value_for_var`, `add_initializer_from_scalar`,
`_bind_closed_jaxpr_constants`, `allocate_value_for_var`, `add_input_for_invar`,
`_promote_float_array`, `_maybe_promote_float_array`, `_maybe_promote_value_to_double`,
`_promote_constant_attributes`) on its whole finite domain, are tabulated into
lean/J2O/Gen/C09.lean; GenProps/C09.lean proves the property-directed obligations by
`decide +kernel` and that the table is a `Policy` with `Policy.ok`, for which Props/C09.lean
proves `single_no_double`, `double_no_f32_detour`, ... for all contexts.
Tie H: (1) every real export of the program generator is translated to one JSON line and scanned
by the proven `noDouble` through the driver (flag off), cross-checked with an independent
protobuf-reflection scan; (2) the real `_temporary_x64` / `_force_jax_x64` are driven through
generated nestings with exceptions / flag flips / thread-local overrides and compared with the
Lean flag machine; the public `to_onnx` is observed before/after, failing conversions included.
Search oracle: element types of the real ModelProto (recursively) and ORT vs JAX(x64) relative
error on all-float64 programs.
"""
from __future__ import annotations

import contextlib
import json
import math
import os
import warnings
from typing import Any, Optional

import numpy as np

warnings.filterwarnings("ignore")

import common
from common import Check, LEAN, lean_bool, lean_list, lean_str, write_if_changed

META = {
    "ready": True,
    "level": "proof",
    "technique": "Lean 4 theorems (dtype policy for every Policy.ok, constant paths for all contexts, "
                 "recursive scanner soundness/completeness by mutual structural induction, x64 flag machine "
                 "by induction over all nestings/exception points) + decide-checked obligations about tables "
                 "regenerated from the live code + driver correspondence (scanner on every real export, flag "
                 "machine against the real context managers) + ORT-vs-JAX(x64) probe",
    "level_text": "Kernel-checked: single_no_double (flag off and no float64 handed in => no DOUBLE type / "
                  "float64 payload on any constant path, for every policy with Policy.ok; the regenerated table "
                  "is one), initScalar/allocValue immunity, double_no_f32_detour (flag on, all-float64 context "
                  "=> stored value is the source value for every exact cast semantics), noDouble_sound/complete "
                  "(unbounded nesting), x64_restored / public_restored_partial (every nesting, exception point, "
                  "flag-flipping body; no thread-local override). Full-strength restoration is refuted in the "
                  "model and replayed on the real code (known finding). Round 2: descend_flag (flag inherited along every "
                  "nesting path of function scopes / Loop / If / Scan bodies), single_no_double_sites / "
                  "double_no_f32_detour_sites (closure, scan, literal, static-keyword and plugin-helper constants at every "
                  "location), helper_no_detour (IR-type-first helper dtype), constI64_never_float, noSingle_sound/complete.",
    "level_note": "Trusted: Lean kernel + 3 axioms; the tabulating harness and the proto->tree translator "
                  "(cross-checked against a protobuf-reflection scan on every export); JAX hands over no float64 "
                  "while x64 is off (hypothesis of single_no_double, observed on every export; plugin abstract-eval "
                  "rules that broke it were fixed in /repo 8efd0fe). Freedom from float32 detours inside plugin "
                  "lowerings is sampled, not proved: 20-op program vocabulary x placements, plus (round 2) every registry "
                  "plugin that is a float64 array function x producers (differential probe) and the repo's own plugin "
                  "testcases re-exported in float64 (quick: seeded sample, thorough: all).",
    "design_ref": "DESIGN.md §3 C09",
}

MODS = ["J2O.Props.C09", "J2O.GenProps.C09", "J2O.Props.C09Scope", "J2O.GenProps.C09Scope"]
FK = {"float16": 16, "float32": 32, "float64": 64}
FKS = {16: "f16", 32: "f32", 64: "f64", 0: "none"}
PROBE = [0.1, 1.0 / 3.0, math.pi, 1e-3]        # none is representable in float32


# ----------------------------------------------------------------------------- tie T: tabulation


class _Aval:
    def __init__(self, dtype, shape=()):
        self.dtype, self.shape = dtype, shape


class _FakeVar:
    """Stand-in for a jaxpr Var: hashable, with `.aval.dtype/.shape` (or no aval at all)."""

    def __init__(self, dtype=None, shape=()):
        if dtype is not None:
            self.aval = _Aval(np.dtype(dtype), shape)


def _np_of(bits: int):
    return {16: np.float16, 32: np.float32, 64: np.float64}[bits]


def _bits(dt) -> int:
    dt = np.dtype(dt)
    return {"float16": 16, "float32": 32, "float64": 64}.get(dt.name, 0)


def _mk_ctx(flag: bool, fm: bool, keep: bool):
    from jax2onnx.converter.ir_context import IRContext
    ctx = IRContext(opset=21, enable_double_precision=flag, input_specs=[])
    ctx._function_mode = fm
    ctx.builder._function_mode = fm
    ctx._inside_function_scope = fm
    ctx._keep_function_float32 = keep
    return ctx


def _value_payload(value):
    """(numpy array of the payload, declared element type code, is it a Constant node output)."""
    from jax2onnx.ir_utils import tensor_to_numpy
    arr = tensor_to_numpy(value.const_value) if value.const_value is not None else None
    code = int(value.dtype.value) if value.dtype is not None else 0
    prod = value.producer()
    return arr, code, (prod is not None and prod.op_type == "Constant")


def _post(value, flag: bool):
    """Apply the real post-processing promotion to a bound constant (both variants)."""
    import jax2onnx.converter.ir_postprocess as pp
    if flag:
        prod = value.producer()
        if prod is not None and prod.op_type == "Constant":
            pp._promote_constant_attributes(prod)
        pp._maybe_promote_value_to_double(value)
    return value


def _exact(arr_final, src) -> bool:
    a = np.asarray(arr_final, dtype=np.float64).reshape(-1)
    b = np.asarray(src, dtype=np.float64).reshape(-1)
    return a.shape == b.shape and bool(np.array_equal(a, b))


def _dtype_candidates():
    import ml_dtypes
    out = [("None", None)]
    for n in ["bool_", "int8", "int16", "int32", "int64", "uint8", "uint16", "uint32", "uint64",
              "float16", "float32", "float64", "longdouble", "complex64", "complex128", "clongdouble",
              "str_", "object_", "datetime64", "void"]:
        out.append((np.dtype(getattr(np, n)).name, getattr(np, n)))
    for n in sorted(dir(ml_dtypes)):
        if n.startswith(("bfloat", "float8", "float4", "float6", "int2", "int4", "uint2", "uint4")):
            try:
                out.append((np.dtype(getattr(ml_dtypes, n)).name, getattr(ml_dtypes, n)))
            except Exception:
                pass
    out += [("float64", float), ("int64", int), ("bool", bool), ("complex128", complex),
            ("float32", "float32"), ("float64", "f8"), ("<invalid>", "notadtype"), ("<invalid>", object())]
    return out


def tabulate() -> dict:
    import jax
    import onnx_ir as ir
    from jax.extend import core as jcore_ext
    from jax2onnx.ir_utils import numpy_dtype_to_ir_with_float_policy as pol, tensor_to_numpy, tensor_attr
    import jax2onnx.converter.conversion_api as ca
    import jax2onnx.converter.ir_postprocess as pp

    tabs: dict[str, list] = {}
    # 1. policy
    rows = []
    for name, obj in _dtype_candidates():
        try:
            isf = bool(np.issubdtype(np.dtype(obj), np.floating)) if obj is not None and name != "<invalid>" else False
        except Exception:
            isf = False
        for flag in (False, True):
            try:
                r: Optional[int] = int(pol(obj, flag).value)
            except TypeError:
                r = None
            rows.append((name, isf, flag, r))
    tabs["policy"] = sorted(set(rows), key=lambda r: (r[0], r[2], -1 if r[3] is None else r[3]))

    # 2. promote helpers
    prom = []
    for which in ("ctx", "api"):
        for dn in ("float16", "float32", "float64", "int32", "bool"):
            for flag in (False, True):
                src = np.asarray(PROBE, dtype=np.float64).astype(dn)
                if which == "ctx":
                    out = _mk_ctx(flag, False, False)._promote_float_array(src)
                else:
                    out = ca._maybe_promote_float_array(src, flag)
                prom.append((which, dn, flag, np.dtype(out.dtype).name, _exact(out, src)))
        for flag in (False, True):
            prom.append(("default", "None", flag, np.dtype(ca._np_float_dtype(flag)).name, True))
    tabs["promote"] = prom

    # 3. constant entry points: (entry, flag, fm, keep, aval, prefer, src, out, code, node, exact)
    ent = []
    for flag in (False, True):
        for fm in (False, True):
            for keep in (False, True):
                # bind_const_for_var
                for aval in (0, 16, 32, 64):
                    for srcb in (16, 32, 64):
                        src = np.asarray(PROBE, dtype=np.float64).astype(_np_of(srcb))
                        ctx = _mk_ctx(flag, fm, keep)
                        v = ctx.bind_const_for_var(_FakeVar(_np_of(aval)) if aval else _FakeVar(), src.copy())
                        _post(v, flag)
                        arr, code, node = _value_payload(v)
                        ent.append(("bc", flag, fm, keep, aval, 0, srcb, _bits(arr.dtype), code, node, _exact(arr, src)))
                # literal
                for aval in (16, 32, 64):
                    for prefer in (0, 32, 64):
                        for srcb, lit in ((64, 0.1), (32, np.float32(0.1)), (16, np.float16(0.1))):
                            ctx = _mk_ctx(flag, fm, keep)
                            var = jcore_ext.Literal(lit, jax.core.ShapedArray((), np.dtype(_np_of(aval))))
                            v = ctx._bind_literal_value_for_var(
                                var, prefer_np_dtype=(np.dtype(_np_of(prefer)) if prefer else None))
                            _post(v, flag)
                            arr, code, node = _value_payload(v)
                            ent.append(("lit", flag, fm, keep, aval, prefer, srcb, _bits(arr.dtype), code, node,
                                        _exact(arr, np.asarray(lit))))
            # add_initializer_from_scalar (keep is irrelevant): python float / numpy scalars
            for srcb, val in ((64, 0.1), (64, np.float64(1 / 3)), (32, np.float32(0.1)), (16, np.float16(0.1)),
                              (64, np.asarray(PROBE)), (32, np.asarray(PROBE, dtype=np.float32))):
                ctx = _mk_ctx(flag, fm, False)
                v = ctx.builder.add_initializer_from_scalar(ctx.fresh_name("c"), val)
                _post(v, flag)
                arr, code, node = _value_payload(v)
                ent.append(("is", flag, fm, False, 0, 0, srcb, _bits(arr.dtype), code, node, _exact(arr, np.asarray(val))))
        # closed-over constants (always the top context)
        for aval in (0, 16, 32, 64):
            for srcb in (16, 32, 64):
                src = np.asarray(PROBE, dtype=np.float64).astype(_np_of(srcb))
                ctx = _mk_ctx(flag, False, False)
                cv = _FakeVar(_np_of(aval)) if aval else _FakeVar()
                jpr = type("J", (), {"constvars": [cv]})()
                ca._bind_closed_jaxpr_constants(ctx, jpr, [src.copy()], default_float=ca._np_float_dtype(flag),
                                                enable_double_precision=flag)
                v = ctx.builder._var2val[cv]
                _post(v, flag)
                arr, code, node = _value_payload(v)
                ent.append(("cc", flag, False, False, aval, 0, srcb, _bits(arr.dtype), code, node, _exact(arr, src)))
    tabs["entry"] = ent
    nonfloat = []
    for flag in (False, True):       # non-float payloads are left alone by every entry point
        ctx = _mk_ctx(flag, False, False)
        for val in (3, True, np.int32(7), np.asarray([1, 2], dtype=np.int64)):
            v = ctx.builder.add_initializer_from_scalar(ctx.fresh_name("i"), val)
            _post(v, flag)
            arr, code, _ = _value_payload(v)
            nonfloat.append(("is", flag, np.asarray(val).dtype.name, arr.dtype.name, code))
            v = ctx.bind_const_for_var(_FakeVar(), np.asarray(val))
            _post(v, flag)
            arr, code, _ = _value_payload(v)
            nonfloat.append(("bc", flag, np.asarray(val).dtype.name, arr.dtype.name, code))
    tabs["nonfloat"] = nonfloat

    # 4. declared types of fresh values / inputs: (entry, flag, fm, keep, aval, code)
    typ = []
    for flag in (False, True):
        for fm in (False, True):
            for keep in (False, True):
                for aval in (16, 32, 64):
                    ctx = _mk_ctx(flag, fm, keep)
                    v = ctx.allocate_value_for_var(_FakeVar(_np_of(aval), (2,)))
                    typ.append(("av", flag, fm, keep, aval, int(v.dtype.value)))
                    ctx = _mk_ctx(flag, fm, keep)
                    v = ctx.add_input_for_invar(_FakeVar(_np_of(aval), (2,)), 0)
                    typ.append(("iv", flag, fm, keep, aval, int(v.dtype.value)))
    tabs["types"] = typ

    # 5. post-processing promotion: (which, dtype in, dtype out, code, exact)
    post = []
    for dn in ("float16", "float32", "float64", "int32", "int64", "bool"):
        src = np.asarray(PROBE, dtype=np.float64).astype(dn)
        val = ir.Value(name="v", type=ir.TensorType(ir.DataType.from_numpy(src.dtype)), shape=ir.Shape(src.shape),
                       const_value=ir.tensor(src))
        pp._maybe_promote_value_to_double(val)
        arr = tensor_to_numpy(val.const_value)
        post.append(("value", dn, arr.dtype.name, int(val.dtype.value), _exact(arr, src)))
        out = ir.Value(name="o")
        node = ir.Node(op_type="Constant", domain="", inputs=[], outputs=[out], name="c",
                       attributes=[tensor_attr("value", ir.tensor(src))])
        pp._promote_constant_attributes(node)
        arr = tensor_to_numpy(node.attributes["value"].as_tensor())
        post.append(("attr", dn, arr.dtype.name, int(ir.DataType.from_numpy(arr.dtype).value), _exact(arr, src)))
    tabs["post"] = post
    return tabs


def generate(tabs: Optional[dict] = None) -> dict:
    tabs = tabs or tabulate()
    b = lean_bool

    def prow(r):
        return f"({lean_str(r[0])}, {b(r[1])}, {b(r[2])}, {'none' if r[3] is None else f'some {r[3]}'})"

    def erow(r):
        return (f"⟨{lean_str(r[0])}, {b(r[1])}, {b(r[2])}, {b(r[3])}, {r[4]}, {r[5]}, {r[6]}, {r[7]}, {r[8]}, "
                f"{b(r[9])}, {b(r[10])}⟩")

    src = f"""/- GENERATED by harness/props/c09.py from /repo on every run — do not edit. -/
namespace J2O.Gen.C09

/-- (numpy dtype name, np.issubdtype(·, floating), flag, `numpy_dtype_to_ir_with_float_policy` code
    or none = TypeError) -/
def policyTable : List (String × Bool × Bool × Option Nat) := {lean_list(map(prow, tabs['policy']), 3)}

/-- (helper, dtype in, flag, dtype out, values unchanged): `IRContext._promote_float_array` ("ctx"),
    `conversion_api._maybe_promote_float_array` ("api"), `_np_float_dtype` ("default") -/
def promoteTable : List (String × String × Bool × String × Bool) := {lean_list(
        (f"({lean_str(r[0])}, {lean_str(r[1])}, {b(r[2])}, {lean_str(r[3])}, {b(r[4])})" for r in tabs['promote']), 3)}

/-- One constant bound through a real entry point and post-processed. Dtypes as bit widths
    (0 = absent). `exact` = the stored values equal the source values. -/
structure EntryRow where
  entry : String
  flag : Bool
  fm : Bool
  keep : Bool
  aval : Nat
  prefer : Nat
  src : Nat
  out : Nat
  code : Nat
  node : Bool
  exact : Bool
  deriving Repr, DecidableEq

def entryTable : List EntryRow := {lean_list(map(erow, tabs['entry']), 2)}

/-- (entry, flag, dtype in, dtype out, code) for non-float payloads -/
def nonfloatTable : List (String × Bool × String × String × Nat) := {lean_list(
        (f"({lean_str(r[0])}, {b(r[1])}, {lean_str(r[2])}, {lean_str(r[3])}, {r[4]})" for r in tabs['nonfloat']), 3)}

/-- (entry "av" = allocate_value_for_var | "iv" = add_input_for_invar, flag, fm, keep, aval bits, code) -/
def typeTable : List (String × Bool × Bool × Bool × Nat × Nat) := {lean_list(
        (f"({lean_str(r[0])}, {b(r[1])}, {b(r[2])}, {b(r[3])}, {r[4]}, {r[5]})" for r in tabs['types']), 4)}

/-- (which, dtype in, dtype out, code, values unchanged): `_maybe_promote_value_to_double` ("value"),
    `_promote_constant_attributes` ("attr") -/
def postTable : List (String × String × String × Nat × Bool) := {lean_list(
        (f"({lean_str(r[0])}, {lean_str(r[1])}, {lean_str(r[2])}, {r[3]}, {b(r[4])})" for r in tabs['post']), 3)}

end J2O.Gen.C09
"""
    write_if_changed(LEAN / "J2O/Gen/C09.lean", src)
    # round 2: the scope tables (real child contexts, sites, ir_dtype_to_numpy) -> Gen/C09Scope.lean
    import sys
    import c09_scope
    global LAST_SCOPE_TABS
    LAST_SCOPE_TABS = c09_scope.tabulate_scope(sys.modules[__name__])
    c09_scope.generate_scope(LAST_SCOPE_TABS)
    return tabs


LAST_SCOPE_TABS: Optional[dict] = None


# ----------------------------------------------------------------------------- scanner tie

DOUBLE_CODES = (11, 15)
NARROW_CODES = (1, 10, 16, 14)
DTYPE_ATTRS = ("to", "dtype", "output_datatype", "output_dtype")


def _type_occs(tp, kind: str) -> list:
    """Element types written in a TypeProto (tensor / sparse / sequence / optional / map)."""
    out = []
    which = tp.WhichOneof("value")
    if which == "tensor_type":
        out.append([kind, int(tp.tensor_type.elem_type)])
    elif which == "sparse_tensor_type":
        out.append([kind, int(tp.sparse_tensor_type.elem_type)])
    elif which == "sequence_type":
        out += _type_occs(tp.sequence_type.elem_type, kind)
    elif which == "optional_type":
        out += _type_occs(tp.optional_type.elem_type, kind)
    elif which == "map_type":
        out += _type_occs(tp.map_type.value_type, kind)
    return out


def _node_tree(n) -> Optional[dict]:
    import onnx
    A = onnx.AttributeProto
    occs, kids = [], []
    for a in n.attribute:
        if a.type == A.TENSOR:
            occs.append(["attr_tensor", int(a.t.data_type)])
        elif a.type == A.TENSORS:
            occs += [["attr_tensor", int(t.data_type)] for t in a.tensors]
        elif a.type == A.SPARSE_TENSOR:
            occs.append(["attr_sparse", int(a.sparse_tensor.values.data_type)])
            occs.append(["sparse_indices", int(a.sparse_tensor.indices.data_type)])
        elif a.type == A.SPARSE_TENSORS:
            for t in a.sparse_tensors:
                occs += [["attr_sparse", int(t.values.data_type)], ["sparse_indices", int(t.indices.data_type)]]
        elif a.type == A.GRAPH:
            kids.append(_graph_tree(a.g, "graph:" + a.name))
        elif a.type == A.GRAPHS:
            kids += [_graph_tree(g, "graph:" + a.name) for g in a.graphs]
        elif a.type == A.TYPE_PROTO:
            occs += _type_occs(a.tp, "attr_type")
        elif a.type == A.TYPE_PROTOS:
            for tp in a.type_protos:
                occs += _type_occs(tp, "attr_type")
        elif a.type == A.INT and a.name in DTYPE_ATTRS:
            occs.append(["cast_to" if a.name == "to" else "dtype_attr", int(a.i)])
    if not occs and not kids:
        return None
    return {"l": n.op_type, "o": occs, "k": kids}


def _graph_tree(g, label: str = "graph") -> dict:
    occs = [["init", int(i.data_type)] for i in g.initializer]
    for s in g.sparse_initializer:
        occs += [["sparse_init", int(s.values.data_type)], ["sparse_indices", int(s.indices.data_type)]]
    for vi in list(g.input) + list(g.output) + list(g.value_info):
        occs += _type_occs(vi.type, "value")
    kids = [t for t in (_node_tree(n) for n in g.node) if t is not None]
    return {"l": label, "o": occs, "k": kids}


def proto_tree(model) -> dict:
    """ModelProto -> rose tree of element type occurrences (the `Tree` of Model/C09.lean)."""
    kids = [_graph_tree(model.graph)]
    for f in model.functions:
        occs = []
        for vi in f.value_info:
            occs += _type_occs(vi.type, "value")
        for a in f.attribute_proto:
            if a.HasField("t"):
                occs.append(["attr_tensor", int(a.t.data_type)])
        kids.append({"l": "function:" + f.name, "o": occs,
                     "k": [t for t in (_node_tree(n) for n in f.node) if t is not None]})
    for ti in model.training_info:
        kids.append(_graph_tree(ti.initialization, "training_init"))
        kids.append(_graph_tree(ti.algorithm, "training_algo"))
    return {"l": "model", "o": [], "k": kids}


def reflect_codes(msg) -> list[int]:
    """Independent oracle: walk EVERY field of the protobuf by reflection and collect every
    element type code: TensorProto.data_type, TypeProto.*.elem_type, dtype-valued INT attributes."""
    out: list[int] = []
    name = msg.DESCRIPTOR.name
    if name == "TensorProto":
        out.append(int(msg.data_type))
    elif name in ("Tensor", "SparseTensor") and msg.DESCRIPTOR.containing_type is not None:
        out.append(int(msg.elem_type))
    elif name == "AttributeProto" and msg.type == 2 and msg.name in DTYPE_ATTRS:   # INT
        out.append(int(msg.i))
    for fd, val in msg.ListFields():
        if fd.type != fd.TYPE_MESSAGE:
            continue
        if fd.message_type.GetOptions().map_entry:
            continue
        if getattr(fd, "is_repeated", None) if hasattr(fd, "is_repeated") else fd.label == fd.LABEL_REPEATED:
            for v in val:
                out += reflect_codes(v)
        else:
            out += reflect_codes(val)
    return out


def tree_codes(t: dict) -> list[int]:
    out = [c for _, c in t["o"]]
    for k in t["k"]:
        out += tree_codes(k)
    return out


def scan_request(tree: dict, bad: str = "double") -> str:
    return json.dumps({"op": "scan", "bad": bad, "tree": tree}, separators=(",", ":"))


def planted_models(rng: common.Rng, n_random: int):
    """Hand-built ModelProtos with one DOUBLE planted at each kind of occurrence x nesting depth
    (pattern-directed), plus clean twins and random mixes. Yields (description, proto, expect_bad)."""
    import onnx
    from onnx import helper as h, TensorProto as T

    def tensor(code, name="t"):
        npdt = {1: np.float32, 11: np.float64, 10: np.float16, 7: np.int64, 15: np.complex128}[code]
        return h.make_tensor(name, code, [1], np.zeros(1, dtype=npdt).tobytes(), raw=True)

    def leaf_graph(kind, code, tag):
        """A graph with exactly one occurrence of `code` of the given kind (others FLOAT)."""
        c = lambda k: code if k == kind else 1
        nodes, inits, vinfo, sparse = [], [], [], []
        x = h.make_tensor_value_info(f"x{tag}", c("input"), [1])
        y = h.make_tensor_value_info(f"y{tag}", c("output"), [1])
        nodes.append(h.make_node("Constant", [], [f"k{tag}"], value=tensor(c("const"), f"kv{tag}")))
        nodes.append(h.make_node("Cast", [f"x{tag}"], [f"c{tag}"], to=c("cast")))
        nodes.append(h.make_node("ConstantOfShape", [f"s{tag}"], [f"cs{tag}"], value=tensor(c("cos"))))
        nodes.append(h.make_node("RandomNormal", [], [f"r{tag}"], dtype=c("dtype"), shape=[1]))
        nodes.append(h.make_node("HannWindow", [f"s{tag}"], [f"w{tag}"], output_datatype=c("outdt")))
        nodes.append(h.make_node("Identity", [f"c{tag}"], [f"y{tag}"]))
        inits.append(tensor(c("init"), f"i{tag}"))
        inits.append(h.make_tensor(f"s{tag}", T.INT64, [1], [1]))
        vinfo.append(h.make_tensor_value_info(f"c{tag}", c("vinfo"), [1]))
        if kind == "seqvalue":
            vinfo.append(h.make_value_info(f"sq{tag}", h.make_sequence_type_proto(
                h.make_tensor_type_proto(code, [1]))))
        if kind == "optvalue":
            vinfo.append(h.make_value_info(f"op{tag}", h.make_optional_type_proto(
                h.make_tensor_type_proto(code, [1]))))
        g = h.make_graph(nodes, f"g{tag}", [x], [y], initializer=inits, value_info=vinfo)
        if kind == "sparse":
            sp = h.make_sparse_tensor(tensor(code, f"sv{tag}"), h.make_tensor(f"si{tag}", T.INT64, [1], [0]), [3])
            g.sparse_initializer.append(sp)
        if kind == "attr_tensors":
            n = h.make_node("Identity", [f"x{tag}"], [f"z{tag}"])
            a = onnx.AttributeProto(name="many", type=onnx.AttributeProto.TENSORS)
            a.tensors.extend([tensor(1), tensor(code)])
            n.attribute.append(a)
            g.node.append(n)
        if kind == "attr_type":
            n = h.make_node("Identity", [f"x{tag}"], [f"z2{tag}"])
            a = onnx.AttributeProto(name="tp", type=onnx.AttributeProto.TYPE_PROTO)
            a.tp.CopyFrom(h.make_tensor_type_proto(code, [1]))
            n.attribute.append(a)
            g.node.append(n)
        if kind == "attr_sparse":
            n = h.make_node("Constant", [], [f"ks{tag}"])
            a = onnx.AttributeProto(name="sparse_value", type=onnx.AttributeProto.SPARSE_TENSOR)
            a.sparse_tensor.CopyFrom(h.make_sparse_tensor(tensor(code, f"sv2{tag}"),
                                                          h.make_tensor(f"si2{tag}", T.INT64, [1], [0]), [3]))
            n.attribute.append(a)
            g.node.append(n)
        return g

    def wrap(inner, how, tag):
        """Nest `inner` one level deeper inside a clean graph."""
        outer = leaf_graph("none", 1, tag)
        if how == "loop":
            outer.node.append(h.make_node("Loop", [], [f"lo{tag}"], body=inner))
        elif how == "if":
            outer.node.append(h.make_node("If", [f"b{tag}"], [f"io{tag}"], then_branch=leaf_graph("none", 1, tag + "t"),
                                          else_branch=inner))
        elif how == "scan":
            outer.node.append(h.make_node("Scan", [], [f"so{tag}"], body=inner, num_scan_inputs=0))
        elif how == "graphs":
            n = h.make_node("Custom", [], [f"co{tag}"], domain="verif")
            a = onnx.AttributeProto(name="bodies", type=onnx.AttributeProto.GRAPHS)
            a.graphs.extend([leaf_graph("none", 1, tag + "g"), inner])
            n.attribute.append(a)
            outer.node.append(n)
        return outer

    def model_of(g, in_function=False, fkind=None, code=1):
        if not in_function:
            return h.make_model(g, opset_imports=[h.make_opsetid("", 21)])
        top = leaf_graph("none", 1, "top")
        f = h.make_function("verif", "F", ["a"], ["b"], list(g.node), [h.make_opsetid("", 21)])
        if fkind == "fvinfo":
            f.value_info.append(h.make_tensor_value_info("fv", code, [1]))
        return h.make_model(top, opset_imports=[h.make_opsetid("", 21), h.make_opsetid("verif", 1)], functions=[f])

    kinds = ["input", "output", "const", "cast", "cos", "dtype", "outdt", "init", "vinfo", "seqvalue",
             "optvalue", "sparse", "attr_tensors", "attr_type", "attr_sparse"]
    wraps = [[], ["loop"], ["if"], ["scan"], ["graphs"], ["loop", "if"], ["if", "loop", "scan"],
             ["scan", "graphs", "loop", "if", "loop"]]
    for kind in kinds + ["none"]:
        for code in (11, 15):
            for ws in wraps:
                g = leaf_graph(kind, code, "L")
                for i, w in enumerate(ws):
                    g = wrap(g, w, f"W{i}")
                yield (f"{kind}/{code}/{'>'.join(ws) or 'top'}", model_of(g), kind != "none")
            # inside a function body (graph-level kinds do not exist there)
            if kind in ("const", "cast", "cos", "dtype", "outdt", "attr_tensors", "attr_type", "attr_sparse", "none"):
                for ws in ([], ["loop"], ["if", "loop"]):
                    g = leaf_graph(kind, code, "L")
                    for i, w in enumerate(ws[:-1] if ws else []):
                        g = wrap(g, w, f"W{i}")
                    if ws:   # function body node holding the nested graph
                        g = wrap(g, ws[-1], "WF")
                        # only node-level occurrences survive in a FunctionProto
                        expect = kind != "none"
                    else:
                        expect = kind != "none"
                    yield (f"fn:{kind}/{code}/{'>'.join(ws) or 'body'}", model_of(g, True), expect)
    yield ("fn:value_info/11", model_of(leaf_graph("none", 1, "L"), True, "fvinfo", 11), True)
    yield ("fn:value_info/1", model_of(leaf_graph("none", 1, "L"), True, "fvinfo", 1), False)
    for i in range(n_random):
        depth = rng.randint(0, 6)
        kind = rng.choice(kinds + ["none", "none"])
        code = rng.choice([11, 15, 1, 10, 7])
        g = leaf_graph(kind, code, "L")
        for d in range(depth):
            g = wrap(g, rng.choice(["loop", "if", "scan", "graphs"]), f"W{d}")
        yield (f"rnd{i}:{kind}/{code}/d{depth}", model_of(g), kind != "none" and code in DOUBLE_CODES)


# ----------------------------------------------------------------------------- x64 flag tie


class _Boom(Exception):
    pass


def _x64_read() -> bool:
    import jax
    return bool(jax.config.jax_enable_x64)


def run_real_prog(prog, glob0: bool, loc: Optional[bool]):
    """Drive the REAL context managers of /repo through `prog`. Returns (final process-wide value,
    raised, values the body saw) — the observables of `run` in Model/C09.lean."""
    import jax
    import jax2onnx.converter.conversion_api as ca
    import jax2onnx.user_interface as ui
    seen: list[bool] = []

    def ex(p):
        if p == "skip":
            seen.append(_x64_read())
        elif p == "raise":
            raise _Boom()
        elif "set" in p:
            jax.config.update("jax_enable_x64", bool(p["set"]))
        elif "seq" in p:
            ex(p["seq"][0])
            ex(p["seq"][1])
        elif "temp" in p:
            with ui._temporary_x64(bool(p["temp"])):
                ex(p["body"])
        elif "force" in p:
            with ca._force_jax_x64(bool(p["force"])):
                ex(p["body"])
        else:
            raise ValueError(p)

    jax.config.update("jax_enable_x64", glob0)
    raised = False
    try:
        with (jax.enable_x64(loc) if loc is not None else contextlib.nullcontext()):
            try:
                ex(prog)
            except _Boom:
                raised = True
        final = _x64_read()
    finally:
        jax.config.update("jax_enable_x64", False)
    return final, raised, seen


def x64_request(prog, glob0, loc) -> str:
    return json.dumps({"op": "x64", "glob": glob0, "loc": loc, "prog": prog}, separators=(",", ":"))


def prog_has_set(p) -> bool:
    if isinstance(p, str):
        return False
    if "set" in p:
        return True
    if "seq" in p:
        return prog_has_set(p["seq"][0]) or prog_has_set(p["seq"][1])
    return prog_has_set(p["body"])


def gen_progs(rng: common.Rng, n_random: int) -> list:
    """All programs of the small pattern grid + seeded deeper nestings."""
    atoms = ["skip", "raise", {"set": False}, {"set": True}, {"seq": ["skip", "raise"]},
             {"seq": [{"set": True}, "skip"]}, {"seq": [{"set": False}, "raise"]}]
    progs: list = []
    cms = [("temp", False), ("temp", True), ("force", False), ("force", True)]
    for k, v in cms:                                  # depth 1
        for a in atoms:
            progs.append({k: v, "body": a})
    for k1, v1 in cms:                                # depth 2, with code before / after the inner one
        for k2, v2 in cms:
            for a in atoms:
                inner = {k2: v2, "body": a}
                progs.append({k1: v1, "body": inner})
                progs.append({k1: v1, "body": {"seq": [inner, "skip"]}})
    for flag in (False, True):                        # the public shape with every body / post atom
        for a in atoms:
            for post in ("skip", "raise"):
                progs.append({"temp": flag, "body": {"seq": [{"force": flag, "body": a}, post]}})

    def rnd(depth):
        if depth == 0 or rng.chance(0.15):
            return rng.choice(atoms)
        r = rng.randint(0, 9)
        if r < 6:
            k, v = rng.choice(cms)
            return {k: v, "body": rnd(depth - 1)}
        return {"seq": [rnd(depth - 1), rnd(depth - 1)]}

    for _ in range(n_random):
        progs.append(rnd(rng.randint(2, 6)))
    return progs


# ----------------------------------------------------------------------------- programs: oracles

TOL_DOUBLE = 1e-12          # a float32 detour shows as >= 1e-9; calibrated ORT kernels stay < 1e-14
X_SHAPE = (3, 4)
STRUCTURAL_OPS = {
    "Loop", "If", "Scan", "Constant", "Cast", "CastLike", "Identity", "Reshape", "Transpose", "Concat",
    "Squeeze", "Unsqueeze", "Expand", "Greater", "Less", "Equal", "GreaterOrEqual", "LessOrEqual", "Shape",
    "Gather", "Slice", "Range", "ConstantOfShape", "And", "Or", "Not", "Where", "Flatten", "Tile", "Split",
    "SequenceInsert", "SequenceEmpty", "ConcatFromSequence", "GatherElements", "GatherND", "ScatterND",
    "Size", "Pad", "TopK", "ArgMax", "ArgMin", "Max", "Min", "Neg", "Abs", "Clip", "Sign", "Dropout",
}


def _inputs(seed: int):
    rs = np.random.RandomState(1234 + seed)
    x1 = rs.uniform(0.5, 1.5, size=X_SHAPE)
    x1[0, 0] = 1.2345678901234567        # cond: true branch
    x2 = rs.uniform(0.5, 1.5, size=X_SHAPE)
    x2[0, 0] = 0.7654321098765432        # cond: false branch
    return [x1, x2]


def _sub_jaxprs(eqn):
    for v in eqn.params.values():
        vs = v if isinstance(v, (tuple, list)) else [v]
        for u in vs:
            if hasattr(u, "jaxpr") and hasattr(u, "consts"):
                yield u.jaxpr
            elif hasattr(u, "eqns") and hasattr(u, "invars"):
                yield u


def jaxpr_float_dtypes(jaxpr) -> set:
    out = set()

    def add(v):
        aval = getattr(v, "aval", None)
        dt = getattr(aval, "dtype", None)
        if dt is not None:
            try:
                if np.issubdtype(np.dtype(dt), np.floating) or np.issubdtype(np.dtype(dt), np.complexfloating):
                    out.add(np.dtype(dt).name)
            except TypeError:
                out.add(str(dt))          # ml_dtypes etc.: counts as "not float64"
    for v in list(jaxpr.invars) + list(jaxpr.outvars) + list(jaxpr.constvars):
        add(v)
    for e in jaxpr.eqns:
        for v in list(e.invars) + list(e.outvars):
            add(v)
        for sj in _sub_jaxprs(e):
            out |= jaxpr_float_dtypes(sj)
    return out


def rel_err(got, ref) -> float:
    got, ref = np.asarray(got, dtype=np.float64), np.asarray(ref, dtype=np.float64)
    if got.shape != ref.shape:
        return float("inf")
    if ref.size == 0:
        return 0.0
    if not (np.all(np.isfinite(ref)) and np.all(np.isfinite(got))):
        return 0.0 if np.array_equal(got, ref, equal_nan=True) else float("inf")
    floor = max(1e-3 * float(np.max(np.abs(ref))), 1e-300)
    return float(np.max(np.abs(got - ref) / np.maximum(np.abs(ref), floor)))


def calibrate_ort() -> dict:
    """ORT's own double kernels, each in a hand-built single-node model, against numpy float64."""
    import irtools
    from onnx import helper as h, TensorProto as T
    rs = np.random.RandomState(7)
    a = rs.uniform(0.5, 1.5, size=X_SHAPE)
    b = rs.uniform(0.1, 3.2, size=X_SHAPE)
    w = rs.uniform(0.1, 3.2, size=(4, 4))
    ops = {
        "Add": (["a", "b"], {}, a + b), "Sub": (["a", "b"], {}, a - b), "Mul": (["a", "b"], {}, a * b),
        "Div": (["a", "b"], {}, a / b), "Pow": (["a", "b"], {}, a ** b), "Sqrt": (["a"], {}, np.sqrt(a)),
        "Exp": (["a"], {}, np.exp(-a)), "Tanh": (["a"], {}, np.tanh(a)), "MatMul": (["a", "w"], {}, a @ w),
        "ReduceMean": (["a"], {"keepdims": 1, "axes_in": [1]}, a.mean(axis=1, keepdims=True)),
        "ReduceSum": (["a"], {"keepdims": 1, "axes_in": [1]}, a.sum(axis=1, keepdims=True)),
        "Gemm": (["a", "w"], {}, a @ w), "Reciprocal": (["a"], {}, 1.0 / a), "Log": (["a"], {}, np.log(a)),
        "Einsum": (["a", "w"], {"equation": "ij,jk->ik"}, a @ w),
    }
    feeds_all = {"a": a, "b": b, "w": w}
    res = {}
    for op, (ins, attrs, ref) in ops.items():
        try:
            attrs = dict(attrs)
            inits = []
            node_ins = list(ins)
            if "axes_in" in attrs:
                inits.append(h.make_tensor("axes", T.INT64, [1], attrs.pop("axes_in")))
                node_ins.append("axes")
            x_in = "na" if op == "Exp" else None
            nodes = []
            if x_in:
                nodes.append(h.make_node("Neg", ["a"], ["na"]))
                node_ins = ["na"]
            nodes.append(h.make_node(op, node_ins, ["y"], **attrs))
            g = h.make_graph(nodes, "g", [h.make_tensor_value_info(n, T.DOUBLE, list(feeds_all[n].shape)) for n in ins],
                             [h.make_tensor_value_info("y", T.DOUBLE, None)], initializer=inits)
            m = h.make_model(g, opset_imports=[h.make_opsetid("", 21)])
            m.ir_version = 10
            y = irtools.run_ort(m, {n: feeds_all[n] for n in ins})[0]
            res[op] = rel_err(y, ref)
        except Exception as e:
            res[op] = "unavailable: " + str(e)[:80]
    for op, (a0, a1, a2) in {"HammingWindow": (25 / 46, 21 / 46, 0.0), "HannWindow": (0.5, 0.5, 0.0),
                             "BlackmanWindow": (0.42, 0.5, 0.08)}.items():
        try:
            n = 7
            node = h.make_node(op, ["s"], ["y"], periodic=0, output_datatype=11)
            g = h.make_graph([node], "g", [], [h.make_tensor_value_info("y", T.DOUBLE, None)],
                             initializer=[h.make_tensor("s", T.INT64, [], [n])])
            m = h.make_model(g, opset_imports=[h.make_opsetid("", 21)])
            m.ir_version = 10
            k = np.arange(n)
            ref = a0 - a1 * np.cos(2 * np.pi * k / (n - 1)) + a2 * np.cos(4 * np.pi * k / (n - 1))
            res[op] = float(np.max(np.abs(irtools.run_ort(m, {})[0] - ref)))
        except Exception as e:
            res[op] = "unavailable: " + str(e)[:80]
    return res


def _all_graphs(model):
    """(path, GraphProto-or-FunctionProto) for the main graph, every nested subgraph, every function."""
    import onnx

    def rec(g, path):
        yield path, g
        for n in g.node:
            for a in n.attribute:
                if a.type == onnx.AttributeProto.GRAPH:
                    yield from rec(a.g, path + "/" + n.op_type)
                elif a.type == onnx.AttributeProto.GRAPHS:
                    for sg in a.graphs:
                        yield from rec(sg, path + "/" + n.op_type)
    yield from rec(model.graph, "graph")
    for f in model.functions:
        yield from rec(f, "function:" + f.name)


def _strip_num(name: str) -> str:
    import re
    return re.sub(r"(_\d+)+$", "", name.split("/")[-1])


def _is_shadow(v: float) -> bool:
    """A float64 value that is exactly a float32 value with a 'full' significand: the trace of
    a constant that went through float32 (0.1f, 1e-5f, …); small dyadic numbers are not."""
    if not np.isfinite(v) or v == 0.0 or v == round(v):
        return False
    with np.errstate(all="ignore"):
        return float(np.float32(v)) == v and float(np.float16(v)) != v


def narrow_sites(model) -> list[str]:
    """Where single precision sits in a model exported with the flag on (localisation only)."""
    import onnx
    from onnx import numpy_helper
    sites = []
    for path, g in _all_graphs(model):
        consumers: dict[str, list[str]] = {}
        for n in g.node:
            for i in n.input:
                consumers.setdefault(i, []).append(n.op_type)
        for n in g.node:
            if n.op_type == "Cast":
                to = [a.i for a in n.attribute if a.name == "to"]
                if to and to[0] in NARROW_CODES:
                    cons = sorted(set(consumers.get(n.output[0], ["<output>"])))
                    sites.append(f"cast_f32->{'+'.join(cons)}")
            if n.op_type == "Constant":
                for a in n.attribute:
                    if a.type == onnx.AttributeProto.TENSOR and a.t.data_type == 11:
                        arr = numpy_helper.to_array(a.t).reshape(-1)
                        if any(_is_shadow(float(v)) for v in arr[:64]):
                            sites.append(f"const_f32:{_strip_num(n.output[0])}")
                    elif a.type == onnx.AttributeProto.TENSOR and a.t.data_type in NARROW_CODES:
                        sites.append(f"const_single:{_strip_num(n.output[0])}")
        for init in getattr(g, "initializer", []):
            if init.data_type == 11:
                arr = numpy_helper.to_array(init).reshape(-1)
                if any(_is_shadow(float(v)) for v in arr[:64]):
                    sites.append(f"const_f32:{_strip_num(init.name)}")
            elif init.data_type in NARROW_CODES:
                sites.append(f"const_single:{_strip_num(init.name)}")
    return sorted(set(sites))


def model_ops(model) -> set:
    return {n.op_type for _, g in _all_graphs(model) for n in g.node}


# ----------------------------------------------------------------------------- programs: one export


def _case_id(case: dict) -> str:
    return f"{case['placement']}/{case['kind']}/{case['op']}/v{case['vi']}"


SPEC_FORMS = ["sds", "tuple", "nparray", "duck", "namespace", "jnparray"]


class _DuckSpec:
    """Minimal array-like input spec: only .shape and .dtype."""

    def __init__(self, shape, dtype):
        self.shape = tuple(shape)
        self.dtype = np.dtype(dtype)


def make_spec(form: str, spec: str):
    """The input specification for a (3,4) input of dtype `spec`, spelled in one of the forms the
    public `to_onnx` accepts. A shape tuple carries no dtype (the flag decides)."""
    import types
    import jax
    import jax.numpy as jnp
    dt = np.dtype(spec)
    if form == "sds":
        return jax.ShapeDtypeStruct(X_SHAPE, dt)
    if form == "tuple":
        return tuple(X_SHAPE)
    if form == "nparray":
        return np.zeros(X_SHAPE, dtype=dt)
    if form == "duck":
        return _DuckSpec(X_SHAPE, dt)
    if form == "namespace":
        return types.SimpleNamespace(shape=X_SHAPE, dtype=dt.type)
    if form == "jnparray":
        with jax.enable_x64(spec == "float64"):
            return jnp.zeros(X_SHAPE, dtype=dt)
    raise ValueError(form)


def export_case(case: dict, flag: bool, spec: str, glob0: bool, seed: int = 0, form: str = "sds") -> dict:
    """Build the program under x64 = flag, evaluate it in JAX, export it through the PUBLIC
    `to_onnx` with the process-wide x64 value preset to `glob0`, and collect every observable."""
    import jax
    import jax.numpy as jnp
    import c09_programs as P
    from jax2onnx import to_onnx

    if form == "tuple":
        spec = "float64" if flag else "float32"      # what a dtype-less spec means under the flag
    res: dict[str, Any] = {"case": case, "flag": flag, "spec": spec, "glob0": glob0, "form": form}
    spec_obj = make_spec(form, spec)
    xs = _inputs(seed)
    in_dt = np.dtype(spec) if flag else np.dtype(np.float32)
    jax.config.update("jax_enable_x64", False)
    with jax.enable_x64(flag):
        try:
            f = P.build(case)
            refs = [jax.tree_util.tree_leaves(f(jnp.asarray(x, dtype=in_dt))) for x in xs]
            refs = [[np.asarray(r) for r in rr] for rr in refs]
            closed = jax.make_jaxpr(f)(jnp.asarray(xs[0], dtype=in_dt))
            res["float_dtypes"] = sorted(jaxpr_float_dtypes(closed.jaxpr))
        except Exception as e:
            res["status"] = "jax_failed"
            res["error"] = f"{type(e).__name__}: {str(e)[:160]}"
            return res
    res["all_f64"] = res["float_dtypes"] == ["float64"]
    res["ref_dtypes"] = [r.dtype.name for r in refs[0]]
    jax.config.update("jax_enable_x64", glob0)
    try:
        before = _x64_read()
        try:
            with jax.enable_x64(flag):          # constants of the program may be built lazily; the
                pass                            # export itself runs WITHOUT an override
            model = to_onnx(f, [spec_obj], enable_double_precision=flag)
            res["status"] = "exported"
        except Exception as e:
            model = None
            res["status"] = "export_failed"
            res["error"] = f"{type(e).__name__}: {str(e)[:160]}"
        res["x64_before"], res["x64_after"] = before, _x64_read()
    finally:
        jax.config.update("jax_enable_x64", False)
    if model is None:
        return res
    res["model"] = model
    res["refs"] = refs
    res["xs"] = xs
    return res


def analyse_export(res: dict) -> None:
    """Fill in the oracle observations of an exported model (python side)."""
    import irtools
    model = res["model"]
    tree = proto_tree(model)
    codes_t, codes_r = sorted(tree_codes(tree)), sorted(reflect_codes(model))
    if codes_t != codes_r:
        raise RuntimeError(f"translator and reflection scan disagree on {_case_id(res['case'])}: "
                           f"{codes_t} vs {codes_r}")
    res["tree"] = tree
    res["codes"] = sorted(set(codes_r))
    res["py_double"] = any(c in DOUBLE_CODES for c in codes_r)
    res["py_narrow"] = any(c in NARROW_CODES for c in codes_r)
    outs = [int(o.type.tensor_type.elem_type) for o in model.graph.output]
    res["out_codes"] = outs
    res["in_codes"] = [int(i.type.tensor_type.elem_type) for i in model.graph.input]
    res["ops"] = sorted(model_ops(model))
    flag = res["flag"]
    feed_dt = np.float64 if res["in_codes"] and res["in_codes"][0] == 11 else np.float32
    errs, ort_error = [], None
    try:
        for x, ref in zip(res["xs"], res["refs"]):
            got = irtools.run_ort(model, {model.graph.input[0].name: x.astype(feed_dt)})
            if len(got) != len(ref):
                errs.append(float("inf"))
                continue
            errs.append(max([rel_err(g, r) for g, r in zip(got, ref)] or [0.0]))
            res["ort_dtypes"] = [g.dtype.name for g in got]
    except Exception as e:
        ort_error = f"{type(e).__name__}: {str(e)[:300]}"
    res["ort_error"] = ort_error
    res["err"] = max(errs) if errs and ort_error is None else None
    if flag:
        res["sites"] = narrow_sites(model)


def reference_err(res: dict) -> Optional[float]:
    """Second runtime for models whose ORT result disagrees: the ONNX reference evaluator (numpy,
    float64 arithmetic). None = it could not run the model / returned other shapes."""
    try:
        from onnx.reference import ReferenceEvaluator
        model = res["model"]
        ev = ReferenceEvaluator(model)
        errs = []
        for x, ref in zip(res["xs"], res["refs"]):
            got = ev.run(None, {model.graph.input[0].name: x.astype(np.float64)})
            if len(got) != len(ref) or any(np.shape(g) != np.shape(r) for g, r in zip(got, ref)):
                return None
            errs.append(max([rel_err(g, r) for g, r in zip(got, ref)] or [0.0]))
        e = max(errs)
        return e if np.isfinite(e) else None
    except Exception:
        return None


def slim(res: dict) -> dict:
    return {k: v for k, v in res.items() if k not in ("model", "refs", "xs", "tree")}


# ----------------------------------------------------------------------------- row-level search


def row_violations(tabs: dict) -> list[dict]:
    """Python mirror of the GenProps obligations: the rows of the live tables that break one.
    Each such row is a concrete call of a real /repo function whose result contradicts the
    property (used as the failing-input search when a Lean obligation no longer checks)."""
    bad = []
    dbl = lambda c: c in DOUBLE_CODES
    for (name, isf, flag, res) in tabs["policy"]:
        if not flag and res is not None and dbl(res) and name not in ("float64", "complex128"):
            bad.append({"obligation": "policy_single_never_double", "table": "policy",
                        "row": [name, isf, flag, res]})
        if ((flag and name in ("None", "float32", "float64")) or name == "float64") and res != 11:
            bad.append({"obligation": "policy_double_keeps_f64", "table": "policy", "row": [name, isf, flag, res]})
        if not flag and name in ("None", "float32") and res != 1:
            bad.append({"obligation": "policy_single_is_float", "table": "policy", "row": [name, isf, flag, res]})
        if res is not None and isf and res not in (1, 10, 11):
            bad.append({"obligation": "policy_class_preserved", "table": "policy", "row": [name, isf, flag, res]})
    for r in tabs["entry"]:
        (e, flag, fm, keep, aval, prefer, src, out, code, node, exact) = r
        f64ctx = aval in (0, 64) and prefer in (0, 64)
        if not flag and aval != 64 and prefer != 64 and (src != 64 or (e == "lit" and aval != 0)) \
                and (out == 64 or dbl(code)):
            bad.append({"obligation": "entry_single_no_double", "table": "entry", "row": list(r)})
        if e == "is" and not flag and (out == 64 or dbl(code)):
            bad.append({"obligation": "entry_initScalar_immune", "table": "entry", "row": list(r)})
        if flag and f64ctx and (not exact or src > out):
            bad.append({"obligation": "entry_double_exact", "table": "entry", "row": list(r)})
        if flag and f64ctx and e != "is" and (out != 64 or code != 11):
            bad.append({"obligation": "entry_double_type", "table": "entry", "row": list(r)})
    for r in tabs["types"]:
        (e, flag, fm, keep, aval, code) = r
        if not flag and (e == "av" or aval != 64) and dbl(code):
            bad.append({"obligation": "type_single_no_double", "table": "types", "row": list(r)})
        if flag and aval == 64 and code != 11:
            bad.append({"obligation": "type_double_f64", "table": "types", "row": list(r)})
    for r in tabs["post"]:
        (which, din, dout, code, exact) = r
        if not exact or (din == "float32" and (dout != "float64" or code != 11)) or (din != "float32" and dout != din):
            bad.append({"obligation": "post_rows", "table": "post", "row": list(r)})
    for r in tabs["promote"]:
        (which, din, flag, dout, exact) = r
        want = dout
        if which == "default":
            want = "float64" if flag else "float32"
        elif not flag:
            want = din
        elif din in ("float16", "float32", "float64"):
            want = "float64"
        else:
            want = din
        if not exact or dout != want:
            bad.append({"obligation": "promote_rows", "table": "promote", "row": list(r)})
    for r in tabs["nonfloat"]:
        if r[2] != r[3] or dbl(r[4]):
            bad.append({"obligation": "nonfloat_untouched", "table": "nonfloat", "row": list(r)})
    return bad


ROW_CALL = {
    "policy": "numpy_dtype_to_ir_with_float_policy(<dtype name>, flag)",
    "entry": "bc=IRContext.bind_const_for_var lit=_bind_literal_value_for_var is=IRBuilder.add_initializer_from_scalar "
             "cc=_bind_closed_jaxpr_constants; row=(entry, flag, function_mode, keep_float32, aval bits, prefer bits, "
             "source bits, stored bits, declared code, Constant node?, values exact?)",
    "types": "av=allocate_value_for_var iv=add_input_for_invar; row=(entry, flag, function_mode, keep_float32, aval bits, code)",
    "post": "_maybe_promote_value_to_double / _promote_constant_attributes; row=(which, dtype in, dtype out, code, exact)",
    "promote": "_promote_float_array / _maybe_promote_float_array; row=(which, dtype in, flag, dtype out, exact)",
    "nonfloat": "row=(entry, flag, dtype in, dtype out, code)",
}


def model_drift(tabs: dict) -> dict:
    """Two-sided comparison of the live rows with the hand model through the driver (information)."""
    lines, rows = [], []
    for (name, isf, flag, res) in tabs["policy"]:
        if name == "<invalid>":
            continue
        lines.append(json.dumps({"op": "pol", "name": name, "flag": flag}))
        rows.append(("policy", (name, flag), "none" if res is None else str(res)))
    for r in tabs["entry"]:
        (e, flag, fm, keep, aval, prefer, src, out, code, node, exact) = r
        lines.append(json.dumps({"op": "entry", "e": e, "flag": flag, "fm": fm, "keep": keep, "aval": FKS[aval],
                                 "prefer": FKS[prefer], "src": FKS[src]}))
        rows.append(("entry", r, (code, FKS[out], node)))
    for r in tabs["types"]:
        (e, flag, fm, keep, aval, code) = r
        lines.append(json.dumps({"op": "entry", "e": e, "flag": flag, "fm": fm, "keep": keep, "src": FKS[aval]}))
        rows.append(("types", r, code))
    ans = common.run_driver("C09", lines)
    diffs = []
    for (tab, row, want), a in zip(rows, ans):
        if tab == "policy":
            ok = a == want
        elif tab == "entry":
            parts = dict(p.split("=") for p in a.split())
            pre = parts["path"].split(">")[-1]
            mcode = 11 if (row[1] and pre == "f32") else int(parts["code"])   # post-processing retypes too
            ok = (mcode, parts["final"], parts["node"] == "true") == want
            # exactness: the model's path widens iff the live values were preserved
            path = parts["path"].split(">") + [parts["final"]]
            rank = {"f16": 0, "f32": 1, "f64": 2}
            widening = all(rank[x] <= rank[y] for x, y in zip(path, path[1:]))
            ok = ok and (widening == row[10] or row[10])   # live exact although the model narrows: benign values
        else:
            ok = a == f"code={want}"
        if not ok:
            diffs.append({"table": tab, "row": list(row) if not isinstance(row, list) else row, "model": a})
    return {"requests": len(lines), "disagreements": len(diffs), "examples": diffs[:6]}


# ----------------------------------------------------------------------------- the check


def gen_cases(rng: common.Rng, thorough: bool) -> list[dict]:
    import c09_programs as P
    # corpus first: the minimal inputs of the listed findings, known (atan2) and fixed (int promotion:
    # /repo 8efd0fe, hamming constants: /repo 595278f) — always exercised, any seed
    cases = [{"placement": "cond", "kind": "pyint", "op": "minimum", "vi": 1},
             {"placement": "cond", "kind": "pyint", "op": "maximum", "vi": 1},
             {"placement": "scan_xs", "kind": "pyint", "op": "where", "vi": 0},
             {"placement": "fori", "kind": "pyint", "op": "linspace", "vi": 3},
             {"placement": "top", "kind": "arr64", "op": "arctan2", "vi": 2},
             {"placement": "top", "kind": "pyfloat", "op": "hamming", "vi": 2}]
    # pattern-directed: one @onnx_function at two call sites, static float keyword differing below
    # float32 resolution (free function and class; every pair; first-order ops)
    for i, pair_op in enumerate(P.KW_OPS):
        cases.append({"placement": "fn_kw2" if i % 2 == 0 else "fn_cls_kw2", "kind": "pyfloat", "op": pair_op, "vi": i})
        cases.append({"placement": "fn_cls_kw2" if i % 2 == 0 else "fn_kw2", "kind": "pyfloat", "op": pair_op,
                      "vi": i + 1})
    # pattern-directed: every FORM of the input spec x ambient x64, for programs whose literals are
    # not float32 numbers, flag on / float64 (the probe) and flag off
    for form in SPEC_FORMS[1:]:
        for glob0 in (False, True):
            for pl, op in (("top", "tanh"), ("fori", "mul"), ("fn", "div")):
                cases.append({"placement": pl, "kind": "pyfloat", "op": op, "vi": rng.randint(0, 3), "form": form,
                              "glob0": glob0, "only": [(True, "float64")] + ([(False, "float64")] if glob0 else [])})
        cases.append({"placement": "top", "kind": "pyfloat", "op": "mul", "vi": 1, "form": form, "glob0": False,
                      "only": [(True, "float32"), (False, "float32")]})
    reps = 3 if thorough else 1
    placements = [p for p in P.PLACEMENTS if p not in ("fn_in_fori", "fn_kw2", "fn_cls_kw2")]
    safe_ops = [o for o in P.OPS if o != "arctan2"]      # arctan2: known finding F-C09-atan2-f32
    for _ in range(reps):
        for pl in placements:                               # every placement x every constant kind
            for kind in P.CONST_KINDS:
                cases.append({"placement": pl, "kind": kind, "op": rng.choice(safe_ops), "vi": rng.randint(0, 3)})
        for op in P.OPS:                                    # every op at top level and inside one body
            cases.append({"placement": "top", "kind": rng.choice(["pyfloat", "arr64"]), "op": op,
                          "vi": rng.randint(0, 3)})
            cases.append({"placement": rng.choice(P.BODY_PLACEMENTS[:-2] + ["fori", "fn"]),
                          "kind": rng.choice(["pyfloat", "np64", "arr64", "jnparr"]), "op": op, "vi": rng.randint(0, 3)})
    for _ in range(60 if thorough else 16):
        cases.append({"placement": rng.choice(placements), "kind": rng.choice(P.CONST_KINDS),
                      "op": rng.choice(P.OPS), "vi": rng.randint(0, 3)})
    cases.append({"placement": "fn_in_fori", "kind": "pyfloat", "op": "mul", "vi": 0})   # fails to export today
    for _ in range(24 if thorough else 6):
        cases.append({"placement": rng.choice(["fn_kw2", "fn_cls_kw2"]), "kind": "pyfloat", "op": rng.choice(P.KW_OPS),
                      "vi": rng.randint(0, 3)})
    seen, out = set(), []
    for c in cases:
        if "form" not in c and rng.chance(0.3):
            c["form"] = rng.choice(SPEC_FORMS[1:])
        k = _case_id(c) + "|" + c.get("form", "sds") + "|" + str(c.get("glob0"))
        if k not in seen:
            seen.add(k)
            out.append(c)
    return out


def _detour_site(sites: list[str]) -> str:
    casts = [s for s in sites if s.startswith("cast_f32")]
    if casts:
        return casts[0]
    named = [s for s in sites if s.split(":")[-1] not in ("const", "const_val")]
    if named:
        return named[0]
    return sites[0] if sites else "?"


LOC_PATH = {"top": [], "jit": [], "fori": ["sub"], "while": ["sub"], "cond": ["sub"], "scan": ["scan"],
            "scan_xs": ["scan"], "fn": ["fn"], "fn_cls": ["fn"], "fn_in_fn": ["fn", "fn"], "fori_in_fn": ["fn", "sub"],
            "cond_in_scan": ["scan", "sub"]}
LOC_OPS = ("mul", "add", "sub", "div", "rsub", "rdiv")


def located_constants(model, case: dict) -> list[dict]:
    """The tensors of the exported model (initializers and Constant values, every graph / function body)
    that hold the program's probe constant: declared code, stored width, values, container."""
    import onnx
    from onnx import numpy_helper
    import c09_programs as P
    kind, vi = case["kind"], case["vi"]
    scalar = kind in ("pyfloat", "np16", "np32", "np64")
    nkind = "arr64" if kind == "jnparr" else kind      # (a jnp array must not be rebuilt under another x64 mode)
    srcs = [np.asarray(P.make_const(nkind, vi + d), dtype=np.float64).reshape(-1) for d in (0, 1)]
    out = []

    def consider(t, path, is_node):
        if t.data_type not in (1, 10, 11, 16):
            return
        arr = np.asarray(numpy_helper.to_array(t), dtype=np.float64).reshape(-1)
        for src in srcs:
            if arr.size == (1 if scalar else 4) and arr.size == src.size and \
                    np.all(np.abs(arr - src) <= 2e-3 * np.abs(src)):
                out.append({"code": int(t.data_type), "bits": {1: 32, 10: 16, 11: 64, 16: 16}[t.data_type],
                            "exact": bool(np.array_equal(arr, src)), "node": is_node,
                            "in_function": path.startswith("function:"), "where": path})
                return
    for path, g in _all_graphs(model):
        for init in getattr(g, "initializer", []):
            consider(init, path, False)
        for n in g.node:
            if n.op_type == "Constant":
                for a in n.attribute:
                    if a.type == onnx.AttributeProto.TENSOR:
                        consider(a.t, path, True)
    return out


def location_request(case: dict, flag: bool, all_f64: bool) -> Optional[str]:
    """The Lean `Site` (nesting path x constant source) of the program's constant, when the source dtype
    JAX hands over is determined by the case: flag off -> float32 everywhere; flag on and an all-float64
    jaxpr -> float64 everywhere."""
    pl, kind = case["placement"], case["kind"]
    if pl not in LOC_PATH or case["op"] not in LOC_OPS:
        return None
    if flag and (not all_f64 or kind not in ("pyfloat", "np64", "arr64", "jnparr")):
        return None
    if not flag and kind not in ("pyfloat", "np32", "np64", "arr32", "arr64", "jnparr"):
        return None
    w = "f64" if flag else "f32"
    path = [("sub" if flag else "subkeep") if p == "scan" else p for p in LOC_PATH[pl]]
    if kind in ("pyfloat",):
        src = {"k": "lit", "aval": w, "prefer": "none", "src": "f64"}
    elif kind in ("np32", "np64"):
        src = {"k": "lit", "aval": w, "prefer": "none", "src": w}
    else:
        src = ({"k": "scan", "aval": w, "arr": w} if LOC_PATH[pl] and LOC_PATH[pl][-1] == "scan"
               else {"k": "closure", "aval": w, "arr": w})
    return json.dumps({"op": "site", "flag": flag, "path": path, "src": src})


def check_programs(chk: Check, rng: common.Rng, thorough: bool, calib: dict) -> dict:
    cases = gen_cases(rng, thorough)
    calibrated = {op for op, v in calib.items() if isinstance(v, float) and v < 1e-13}
    stats = {"exports": 0, "export_failed": 0, "jax_failed": 0, "flag_off_scanned": 0, "flag_on_probed": 0,
             "flag_on_not_all_f64": 0, "ort_unavailable": 0, "max_err_all_f64": 0.0, "x64_checked": 0,
             "narrow_in_all_f64": 0, "unloadable_out_of_scope": [], "single_numeric_mismatch": [],
             "probe_inconclusive": [], "ort_kernel_artifacts": [], "n_ort_kernel_artifacts": 0}
    dist: dict[str, int] = {}
    forms_dist: dict[str, int] = {}
    scan_lines, scan_meta = [], []
    loc_lines, loc_meta = [], []
    found = 0
    for ci, case in enumerate(cases):
        variants = [(False, rng.choice(["float32", "float64"])), (True, "float64")]
        if rng.chance(0.25):
            variants.append((True, "float32"))
        if "only" in case:
            variants = [tuple(v) for v in case["only"]]
        form = case.get("form", "sds")
        for flag, spec in variants:
            glob0 = case["glob0"] if "glob0" in case else rng.chance(0.5)
            res = export_case(case, flag, spec, glob0, seed=chk.seed, form=form)
            spec = res["spec"]
            cid = _case_id(case) + ("" if form == "sds" else f"[{form}]")
            key_base = {"placement": case["placement"], "const": case["kind"], "op": case["op"],
                        "flag": flag, "spec": spec, "form": form}
            forms_dist[f"{form}|{'on' if flag else 'off'}|x64={int(glob0)}"] = \
                forms_dist.get(f"{form}|{'on' if flag else 'off'}|x64={int(glob0)}", 0) + 1
            dist[f"{case['placement']}|{'on' if flag else 'off'}"] = dist.get(f"{case['placement']}|{'on' if flag else 'off'}", 0) + 1
            if res["status"] == "jax_failed":
                stats["jax_failed"] += 1
                continue
            # the process-wide flag around EVERY real call, failing conversions included
            stats["x64_checked"] += 1
            if res["x64_before"] != res["x64_after"]:
                found += 1
                chk.finding({"kind": "x64_not_restored", "override": False, **key_base, "glob0": glob0,
                             "status": res["status"]},
                            f"jax_enable_x64 {res['x64_before']} -> {res['x64_after']} after to_onnx of {cid}",
                            {"case": case, "flag": flag, "spec": spec, "glob0": glob0, "form": form,
                             "observed": slim(res)})
            if res["status"] == "export_failed":
                stats["export_failed"] += 1
                chk.count({"case": cid, "flag": flag, "spec": spec, "status": "export_failed",
                           "error": res.get("error", "")[:80]}, nontrivial=False)
                continue
            stats["exports"] += 1
            analyse_export(res)
            nontrivial = len(res["codes"]) > 1 or case["placement"] != "top"
            chk.count({"case": cid, "flag": flag, "spec": spec, "codes": res["codes"], "all_f64": res["all_f64"],
                       "err": res["err"]}, nontrivial=nontrivial, sample_every=40)
            replay = {"case": case, "flag": flag, "spec": spec, "glob0": glob0, "form": form, "observed": slim(res)}
            lreq = location_request(case, flag, res["all_f64"])
            if lreq is not None:
                locs = located_constants(res["model"], case)
                if locs:
                    loc_lines.append(lreq)
                    loc_meta.append((cid, flag, spec, locs, found))
                else:
                    stats["constants_not_located"] = stats.get("constants_not_located", 0) + 1
            want_in = 11 if flag else 1
            if res["in_codes"] and res["in_codes"][0] != want_in:
                found += 1
                chk.finding({"kind": "input_type", **key_base, "declared": res["in_codes"][0]},
                            f"{cid}: model input declared as element type {res['in_codes'][0]}, expected {want_in} for a "
                            f"{spec} {form} spec with enable_double_precision={flag}", replay)
            if not flag:
                stats["flag_off_scanned"] += 1
                scan_lines.append(scan_request(res["tree"], "double"))
                scan_meta.append((cid, spec, res["py_double"], replay, key_base))
                bad_out = [c for c, dt in zip(res["out_codes"], res["ref_dtypes"]) if dt == "float32" and c != 1]
                if res["py_double"] or bad_out:
                    found += 1
                    chk.finding({"kind": "double_in_single", **key_base},
                                f"flag off: export of {cid} contains element types {res['codes']} (outputs "
                                f"{res['out_codes']})", replay)
                if res["err"] is not None and res["err"] > 5e-3 and "float16" not in res["float_dtypes"]:
                    stats["single_numeric_mismatch"].append({"case": cid, "err": res["err"]})
                continue
            # ---- flag on
            if not res["all_f64"]:
                stats["flag_on_not_all_f64"] += 1
                if res["ort_error"] and "tensor(float)" in res["ort_error"] and "tensor(double)" in res["ort_error"]:
                    if len(stats["unloadable_out_of_scope"]) < 12:
                        stats["unloadable_out_of_scope"].append({"case": cid, "spec": spec, "ort": res["ort_error"][:160]})
                continue
            scan_lines.append(scan_request(res["tree"], "narrow"))
            scan_meta.append((cid, spec, res["py_narrow"], None, None))
            if res["py_narrow"]:
                stats["narrow_in_all_f64"] += 1
            if res["ort_error"] is not None:
                if "tensor(float)" in res["ort_error"] and "tensor(double)" in res["ort_error"]:
                    found += 1
                    chk.finding({"kind": "mixed_precision_model", **key_base, "site": _detour_site(res["sites"])},
                                f"flag on, all-float64 program {cid}: ORT rejects the model: {res['ort_error'][:160]}",
                                replay)
                else:
                    stats["ort_unavailable"] += 1
                continue
            stats["flag_on_probed"] += 1
            if res["err"] <= TOL_DOUBLE:
                stats["max_err_all_f64"] = max(stats["max_err_all_f64"], res["err"])
                if res["out_codes"] and any(c != 11 for c, dt in zip(res["out_codes"], res["ref_dtypes"]) if dt == "float64"):
                    found += 1
                    chk.finding({"kind": "double_output_not_double", **key_base},
                                f"flag on: float64 result of {cid} declared as {res['out_codes']}", replay)
                continue
            site = _detour_site(res["sites"])
            uncal = [o for o in res["ops"] if o not in STRUCTURAL_OPS and o not in calibrated]
            if uncal:
                # the model uses an operator whose ORT double kernel is not calibrated (or failed the
                # calibration): ask the ONNX reference evaluator; a disagreement only ORT shows is
                # ORT's kernel, not a detour in the model
                ref_err = reference_err(res)
                res["reference_evaluator_err"] = ref_err
                if ref_err is None:
                    stats["probe_inconclusive"].append({"case": cid, "err": res["err"], "uncalibrated_ops": uncal})
                    continue
                if ref_err <= TOL_DOUBLE:
                    if len(stats["ort_kernel_artifacts"]) < 12:
                        stats["ort_kernel_artifacts"].append({"case": cid, "ort_err": res["err"], "reference_err": ref_err,
                                                              "uncalibrated_ops": uncal})
                    stats["n_ort_kernel_artifacts"] += 1
                    continue
                replay["observed"] = slim(res)
            found += 1
            chk.finding({"kind": "f32_detour", **key_base, "site": site},
                        f"flag on, all-float64 program {cid}: ORT vs JAX(x64) relative error {res['err']:.2e} "
                        f"(threshold {TOL_DOUBLE:g}); single precision at {res['sites']}", replay)
    # ---- the proven scanner on every translated export, against the independent python scan
    answers = common.run_driver("C09", scan_lines)
    for (cid, spec, py_bad, replay, key_base), a in zip(scan_meta, answers):
        if a.startswith("bad-"):
            raise RuntimeError(f"driver could not read the tree of {cid}: {a}")
        if (a != "ok") != py_bad:
            raise RuntimeError(f"Lean scanner ({a}) and reflection scan ({py_bad}) disagree on {cid}")
    chk.add("traces_validated_against_impl", len(scan_lines))
    # ---- constant kinds x locations: the constant found in the real export against the Lean `Site` model
    loc_answers = common.run_driver("C09", loc_lines)
    loc_diffs, n_loc = [], 0
    rank = {"f16": 0, "f32": 1, "f64": 2}
    for (cid, flag, spec, locs, found_before), a in zip(loc_meta, loc_answers):
        if not a.startswith("code="):
            raise RuntimeError(f"driver could not answer the site request of {cid}: {a}")
        parts = dict(p.split("=") for p in a.split())
        pth = parts["path"].split(">") + [parts["final"]]
        mcode = 11 if (flag and pth[-2] == "f32") else int(parts["code"])
        mbits = {"f16": 16, "f32": 32, "f64": 64}[parts["final"]]
        mexact = all(rank[x] <= rank[y] for x, y in zip(pth, pth[1:]))
        for loc in locs:
            n_loc += 1
            ok = (loc["code"], loc["bits"]) == (mcode, mbits) and (not flag or loc["exact"] == mexact) and \
                (not loc["in_function"] or loc["node"])
            if not ok:
                loc_diffs.append({"case": cid, "flag": flag, "spec": spec, "observed": loc, "model": a})
    chk.add("traces_validated_against_impl", n_loc)
    stats["location_tie"] = {"requests": len(loc_lines), "constants_located": n_loc, "disagreements": len(loc_diffs),
                             "examples": loc_diffs[:6]}
    stats["programs"] = len(cases)
    stats["scanner_requests"] = len(scan_lines)
    stats["distribution_placement_flag"] = dist
    stats["distribution_specform_flag_ambientx64"] = forms_dist
    stats["findings"] = found
    return stats


PUBLIC_SCENARIOS = ["ok", "flipT", "flipF", "raise_user", "bad_spec", "unsupported", "lower_fail",
                    "bindconst_fail", "opt_fail", "post_fail", "kbint"]


def public_call(scn: str, flag: bool, glob0: bool, loc: Optional[bool]):
    """One real `to_onnx` call in scenario `scn`; returns (final process-wide value, raised, model|None)
    and the Prog the Lean machine should be run on."""
    import jax
    import jax.numpy as jnp
    import jax2onnx.converter.conversion_api as ca
    import jax2onnx.user_interface as ui
    from jax2onnx import to_onnx

    def boom(*a, **k):
        raise _Boom()

    def kb(*a, **k):
        raise KeyboardInterrupt()

    def f_ok(x):
        return x * 0.1 + np.float64(1.0 / 3.0)

    def f_flip_t(x):
        jax.config.update("jax_enable_x64", True)
        return x * 0.1

    def f_flip_f(x):
        jax.config.update("jax_enable_x64", False)
        return x * 0.1

    def f_raise(x):
        raise _Boom()

    def f_unsup(x):
        return jnp.linalg.eigvals(x.reshape(2, 2)).real

    fn, spec, patch = f_ok, [jax.ShapeDtypeStruct((4,), np.float32)], None
    body, post = "skip", "skip"
    if scn == "flipT":
        fn, body = f_flip_t, {"seq": [{"set": True}, "skip"]}
    elif scn == "flipF":
        fn, body = f_flip_f, {"seq": [{"set": False}, "skip"]}
    elif scn == "raise_user":
        fn, body = f_raise, "raise"
    elif scn == "bad_spec":
        spec, body = [("a", object())], None          # raises before any context manager is entered
    elif scn == "unsupported":
        fn, body = f_unsup, "raise"
    elif scn == "lower_fail":
        patch, body = (ca, "_lower_jaxpr_equations", boom), {"seq": ["skip", "raise"]}
    elif scn == "bindconst_fail":
        patch, body = (ca, "_bind_closed_jaxpr_constants", boom), {"seq": ["skip", "raise"]}
    elif scn == "opt_fail":
        patch, body = (ca, "_optimize_graph_with_failure_policy", boom), {"seq": ["skip", "raise"]}
    elif scn == "post_fail":
        patch, post = (ui, "postprocess_ir_model", boom), "raise"
    elif scn == "kbint":
        patch, body = (ca, "_lower_jaxpr_equations", kb), {"seq": ["skip", "raise"]}
    jax.config.update("jax_enable_x64", glob0)
    model, raised = None, False
    saved = None
    try:
        if patch:
            saved = getattr(patch[0], patch[1])
            setattr(patch[0], patch[1], patch[2])
        with (jax.enable_x64(loc) if loc is not None else contextlib.nullcontext()):
            try:
                model = to_onnx(fn, spec, enable_double_precision=flag)
            except BaseException as e:           # KeyboardInterrupt included, on purpose
                raised = True
                err = type(e).__name__
        final = _x64_read()
    finally:
        if patch:
            setattr(patch[0], patch[1], saved)
        jax.config.update("jax_enable_x64", False)
    if scn == "unsupported":      # whether this primitive is supported is not this property's business
        body = "raise" if raised else "skip"
    prog = "raise" if body is None else {"temp": flag, "body": {"seq": [{"force": flag, "body": body}, post]}}
    return final, raised, model, prog


def check_x64(chk: Check, rng: common.Rng, thorough: bool) -> dict:
    # (1) the real context managers against the Lean machine
    progs = gen_progs(rng, 1500 if thorough else 150)
    lines, real, meta = [], [], []
    for p in progs:
        for glob0 in (False, True):
            for loc in (None, False, True):
                real.append(run_real_prog(p, glob0, loc))
                lines.append(x64_request(p, glob0, loc))
                meta.append((p, glob0, loc))
    answers = common.run_driver("C09", lines)
    diffs = []
    n_restore_fail_no_override = 0
    for (final, raised, seen), a, (p, glob0, loc) in zip(real, answers, meta):
        want = f"glob={int(final)} raised={int(raised)} seen={''.join(str(int(b)) for b in seen)}"
        chk.count({"x64_prog": p, "glob0": glob0, "loc": loc, "real": want},
                  nontrivial=(final != glob0) or raised or loc is not None, sample_every=500)
        if want != a:
            diffs.append({"prog": p, "glob0": glob0, "loc": loc, "real": want, "model": a})
        if loc is None and not prog_has_set(p) and final != glob0:
            n_restore_fail_no_override += 1
            chk.finding({"kind": "x64_not_restored", "override": False, "level": "context_managers"},
                        f"real context managers leave jax_enable_x64={final} (was {glob0}) after {json.dumps(p)}",
                        {"prog": p, "glob0": glob0, "loc": loc, "real": want})
    chk.add("traces_validated_against_impl", len(lines))
    # (2) the public entry, before/after, failing conversions included, with and without an override
    pub, pub_diffs, lines2, reals2 = [], [], [], []
    for scn in PUBLIC_SCENARIOS:
        for flag in (False, True):
            for glob0 in (False, True):
                for loc in (None, False, True):
                    final, raised, model, prog = public_call(scn, flag, glob0, loc)
                    lines2.append(x64_request(prog, glob0, loc))
                    reals2.append((scn, flag, glob0, loc, final, raised, model))
    answers2 = common.run_driver("C09", lines2)
    override_hits = 0
    for (scn, flag, glob0, loc, final, raised, model), a in zip(reals2, answers2):
        parts = dict(p.split("=") for p in a.split())
        chk.count({"public": scn, "flag": flag, "glob0": glob0, "loc": loc, "final": final, "raised": raised},
                  nontrivial=raised or loc is not None or scn != "ok")
        if int(parts["glob"]) != int(final) or int(parts["raised"]) != int(raised):
            pub_diffs.append({"scenario": scn, "flag": flag, "glob0": glob0, "loc": loc,
                              "real": [final, raised], "model": a})
        key = {"scenario": scn, "flag": flag, "glob0": glob0, "loc": loc}
        if final != glob0:
            if loc is None:
                chk.finding({"kind": "x64_not_restored", "override": False, **key},
                            f"public to_onnx ({scn}) leaves jax_enable_x64={final}, was {glob0}", key)
            else:
                override_hits += 1
                chk.finding({"kind": "x64_override", "symptom": "process_wide_flag_changed", **key},
                            f"to_onnx(enable_double_precision={flag}) inside `with jax.enable_x64({loc})`: process-wide "
                            f"jax_enable_x64 {glob0} -> {final}", key)
        if model is not None and not flag:
            dbl = any(c in DOUBLE_CODES for c in reflect_codes(model))
            if dbl and loc is None:
                chk.finding({"kind": "double_in_single", **key}, "flag off: DOUBLE in the public-entry probe model", key)
            elif dbl:
                override_hits += 1
                chk.finding({"kind": "x64_override", "symptom": "double_in_single_precision_model", **key},
                            f"to_onnx(enable_double_precision=False) inside `with jax.enable_x64({loc})` emits DOUBLE "
                            "tensors", key)
    chk.add("traces_validated_against_impl", len(lines2))
    return {"context_manager_traces": len(lines), "context_manager_disagreements": diffs[:8],
            "n_cm_disagreements": len(diffs), "public_calls": len(lines2), "public_disagreements": pub_diffs[:8],
            "n_public_disagreements": len(pub_diffs), "override_findings_seen": override_hits}


def check_scanner(chk: Check, rng: common.Rng, thorough: bool) -> dict:
    cases = list(planted_models(rng, 600 if thorough else 40))
    lines = []
    for desc, m, expect in cases:
        tree = proto_tree(m)
        if sorted(tree_codes(tree)) != sorted(reflect_codes(m)):
            raise RuntimeError(f"translator and reflection scan disagree on planted model {desc}")
        lines.append(scan_request(tree, "double"))
    answers = common.run_driver("C09", lines)
    for (desc, m, expect), a in zip(cases, answers):
        chk.count({"planted": desc, "answer": a[:60]}, nontrivial=expect, sample_every=100)
        if (a != "ok") != expect:
            raise RuntimeError(f"scanner tie: planted model {desc}: expected {'reject' if expect else 'accept'}, got {a}")
    chk.add("traces_validated_against_impl", len(lines))
    return {"planted_models": len(cases), "rejected": sum(1 for a in answers if a != "ok")}


def run(chk: Check) -> None:
    import logging
    logging.disable(logging.CRITICAL)
    import time
    rng = common.Rng(chk.seed)
    thorough = chk.tier == "thorough"
    t0 = time.time()
    phases: dict[str, float] = {}

    def lap(name: str) -> None:
        nonlocal t0
        phases[name] = round(time.time() - t0, 1)
        t0 = time.time()

    import sys
    import c09_scope
    import c09_probe
    H = sys.modules[__name__]
    tabs = generate()
    stabs = LAST_SCOPE_TABS
    chk.info("tables", {**{k: len(v) for k, v in tabs.items()}, **{"scope_" + k: len(v) for k, v in stabs.items()}})
    lap("tabulate")
    proved = chk.prove(MODS, checker=thorough)
    lap("lean")

    # ---- T: rows of the live tables that contradict the property (search for broken obligations)
    row_bad, _seen_rows = [], set()
    for rb in row_violations(tabs):
        k = json.dumps([rb["obligation"], rb["row"]])
        if k not in _seen_rows:
            _seen_rows.add(k)
            row_bad.append(rb)
    for rb in row_bad[:40]:
        chk.finding({"kind": "table_row", "obligation": rb["obligation"], "table": rb["table"], "row": rb["row"]},
                    f"real /repo function contradicts {rb['obligation']}: {ROW_CALL[rb['table']]} -> {rb['row']}",
                    {"row_violation": rb})
    srow_bad = c09_scope.row_violations_scope(stabs)
    for rb in srow_bad[:40]:
        chk.finding({"kind": "table_row", "obligation": rb["obligation"], "table": rb["table"], "row": rb["row"]},
                    f"real /repo function contradicts {rb['obligation']}: {c09_scope.ROW_CALL[rb['table']]} -> {rb['row']}",
                    {"scope_row_violation": rb})
    row_bad = row_bad + srow_bad
    for name, rows in stabs.items():
        for r in rows:
            chk.count({"table": "scope_" + name, "row": [list(x) if isinstance(x, tuple) else x for x in r]},
                      nontrivial=True, sample_every=60)
    sdrift = c09_scope.model_drift_scope(H, stabs)
    chk.info("hand_model_vs_live_rows_scope", sdrift)
    chk.add("traces_validated_against_impl", sdrift["requests"])
    for name, rows in tabs.items():
        for r in rows:
            chk.count({"table": name, "row": list(r)}, nontrivial=(name != "policy" or r[3] is not None),
                      sample_every=150)
    drift = model_drift(tabs)
    chk.info("hand_model_vs_live_rows", drift)
    chk.add("traces_validated_against_impl", drift["requests"])

    # ---- H: scanner, flag machine, programs
    lap("rows")
    chk.info("scanner_tie", check_scanner(chk, rng, thorough))
    lap("scanner")
    x64 = check_x64(chk, rng, thorough)
    chk.info("x64_tie", x64)
    lap("x64")
    calib = calibrate_ort()
    chk.info("ort_double_kernel_calibration", calib)
    stats = check_programs(chk, rng, thorough, calib)
    chk.info("program_stats", stats)
    chk.info("programs", stats["programs"])
    chk.info("disagreements_checked", stats["findings"] + len(row_bad))
    lap("programs")
    ops_stats = c09_probe.check_ops(H, chk, rng, thorough, calib)
    chk.info("ops_x_producers", ops_stats)
    lap("ops")
    tc_stats = c09_probe.check_testcases(H, chk, rng, thorough, calib)
    chk.info("plugin_testcases", tc_stats)
    lap("testcases")
    chk.info("phase_seconds", phases)
    chk.log(f"phases: {phases}")
    chk.log(f"ops={ops_stats['ops']} producers={ops_stats['producers']} pairs_probed={ops_stats['pairs_probed']} "
            f"max_err_pairs={ops_stats['max_err_pairs']:.2e} testcases={tc_stats['sampled']}/{tc_stats['eligible_testcases']} "
            f"all_f64={tc_stats['all_f64']} accurate={tc_stats['accurate']}")
    chk.log(f"programs={stats['programs']} exports={stats['exports']} flag_off_scanned={stats['flag_off_scanned']} "
            f"flag_on_probed={stats['flag_on_probed']} max_err_all_f64={stats['max_err_all_f64']:.2e} "
            f"x64_checked={stats['x64_checked']} cm_traces={x64['context_manager_traces']}")

    # ---- verdicts for broken Lean obligations / correspondences without a concrete input
    concrete = bool(chk.violations) or bool(chk.known_hits)
    if not proved and not row_bad and not chk.violations:
        chk.violation({"broken": getattr(chk, "broken", []),
                       "build_log_tail": getattr(chk, "build_log", "")[-3000:],
                       "note": "a Lean obligation about the regenerated tables no longer checks; no row of the live "
                               "tables and no export contradicting the property was found"},
                      name="obligation-broken", no_failing_input=True)
    if x64["n_cm_disagreements"] and not any("x64" in v for v in chk.violations):
        chk.violation({"correspondence": "x64 flag machine: real context managers differ from the proven model",
                       "cases": x64["context_manager_disagreements"]}, name="x64-correspondence",
                      no_failing_input=True)
    lt = stats["location_tie"]
    if lt["disagreements"] and not chk.violations:
        chk.violation({"correspondence": "constant kinds x locations: the constant in the real export differs from the "
                                         "Lean Site model (declared type / stored width / exactness / container)",
                       "cases": lt["examples"]}, name="location-correspondence", no_failing_input=True)
    if x64["n_public_disagreements"]:
        chk.violation({"correspondence": "public to_onnx: flag trace differs from publicToOnnx in the model",
                       "cases": x64["public_disagreements"]}, name="x64-public-correspondence",
                      no_failing_input=True)
    chk.assumptions += [
        "JAX hands no float64 aval/array to the converter while jax_enable_x64 reads False (hypothesis of "
        "single_no_double; observed on every flag-off export)",
        "cast semantics: conversions between float formats that both represent the value are exact (CastSem)",
        "ORT double kernels of the probe vocabulary are accurate to 1e-13 (calibrated each run in isolation); a "
        "disagreement on a model with an uncalibrated operator (ORT's HammingWindow/BlackmanWindow double kernels are "
        "only float-accurate, Gelu(tanh) likewise) counts only if the ONNX reference evaluator shows it too",
        "no thread-local jax.enable_x64 override around the call (otherwise: known finding F-C09-x64-override)",
        "ops x producers / plugin testcases: a disagreement counts as a float32 detour only if the op and the producer "
        "are each exact to 1e-12 on their own (composition), or single precision is written in the model (Cast to a "
        "narrow float, narrow tensor, full-significand float32 number stored as DOUBLE) and the disagreement does not "
        "depend on ORT; other disagreements (igamma, bessel, digamma, zeta, erf family in the reference evaluator) are "
        "recorded as approximation_or_runtime_kernel",
    ]
    chk.coverage["rule"] = (
        "tables: every row of the complete finite domains (exhaustive). scanner: planted DOUBLE at each occurrence "
        "kind x nesting pattern + seeded mixes; every real export translated and scanned. x64: all depth<=2 nestings x "
        "body atoms x initial value x override + seeded deeper programs; public entry x 11 scenarios. programs: every "
        "placement x constant kind, every op at top level and in a body, x both flags x float32/float64 specs; "
        "non-trivial = body placement or more than one element type. scope tables: every parent state x child kind, "
        "34 chains of real child contexts, 224 constants through real child contexts, ir_dtype_to_numpy on its domain "
        "(exhaustive). constant kinds x locations: every export whose constant appears verbatim is located in the model "
        "and compared with the Lean Site model. ops x producers: every registry key that is a float64 array function "
        "(one or two operands) directly on the input, and (quick: ops whose lowering writes a float constant / Cast / "
        "body; untyped-output producers + 5 seeded others; thorough: all ops x 19 producers) on a producer's output. "
        "plugin testcases: quick 36 seeded of the eligible ones, thorough all")
    chk.coverage["exhaustive"] = False


def replay(path: str) -> int:
    import logging
    logging.disable(logging.CRITICAL)
    rep = json.loads(open(path).read())
    print(json.dumps({k: v for k, v in rep.items() if k != "observed"}, indent=1, default=str)[:2500])
    if "scope_row_violation" in rep:
        import sys
        import c09_scope
        rb = rep["scope_row_violation"]
        now = [r for r in c09_scope.row_violations_scope(c09_scope.tabulate_scope(sys.modules[__name__]))
               if r["obligation"] == rb["obligation"] and r["row"] == rb["row"]]
        print("row still violates:", bool(now))
        return 1 if now else 0
    if rep.get("family") == "ops":
        import sys
        import c09_probe
        return c09_probe.replay_ops(sys.modules[__name__], rep)
    if rep.get("family") == "testcases":
        import sys
        import c09_probe
        return c09_probe.replay_testcase(sys.modules[__name__], rep)
    if "row_violation" in rep:
        rb = rep["row_violation"]
        now = [r for r in row_violations(tabulate()) if r["obligation"] == rb["obligation"] and r["row"] == rb["row"]]
        print("row still violates:", bool(now))
        return 1 if now else 0
    if "case" in rep:
        res = export_case(rep["case"], rep["flag"], rep["spec"], rep.get("glob0", False), seed=rep.get("seed", 0),
                          form=rep.get("form", "sds"))
        if res["status"] == "exported":
            analyse_export(res)
        print(json.dumps(slim(res), indent=1, default=str)[:3000])
        if res.get("x64_before") != res.get("x64_after"):
            return 1
        if res["status"] != "exported":
            return 0
        if not rep["flag"]:
            return 1 if res["py_double"] else 0
        if res["all_f64"] and res["ort_error"]:
            return 1
        if res["all_f64"] and res["err"] is not None and res["err"] > TOL_DOUBLE:
            ref_err = reference_err(res)
            print("reference evaluator error:", ref_err)
            return 0 if (ref_err is not None and ref_err <= TOL_DOUBLE) else 1
        return 0
    if "prog" in rep:
        final, raised, seen = run_real_prog(rep["prog"], rep["glob0"], rep["loc"])
        print("real now:", final, raised, seen)
        return 1 if final != rep["glob0"] else 0
    if "scenario" in rep:
        final, raised, model, _ = public_call(rep["scenario"], rep["flag"], rep["glob0"], rep["loc"])
        print("real now: final", final, "raised", raised)
        return 1 if final != rep["glob0"] else 0
    return 0
