"""C18 — the bundled validation helper `allclose` is a sound oracle.

Lean side (lean/J2O/Model/C18.lean, Lemmas/C18.lean, Props/C18.lean): the decision sequence of
`_run_allclose` as it is NOW, after fix 61b87cb (count check, NCHW back-transpose, component-wise
complex repack, shape check, `_comparison_operands` = numpy's safe cast / result_type promotion,
numpy's asymmetric isclose with equal_nan / array_equal), on exact values (rationals, NaN, ±inf).
Theorems: `allclose_sound_same_dtype` (full strength when the dtypes agree),
`allclose_sound_partial` (match ∧ lossless promotion ⇒ the outputs agree),
`allclose_sound_refuted` (residual: numpy promotes 64-bit integers to float64), regression
theorems `w1_fixed`…`w5_fixed` about the pre-fix decision, x64 flag restoration for every body and
every history.

Tie (H, two-sided): seeded systematic perturbations of matching (expected, got) pairs are
materialised as constant-output ONNX files and run through the REAL `jax2onnx.allclose`; the
same case goes to the Lean driver; the verdicts must be equal.  Both are compared with the exact
specification (`agreesB` = `Agrees`, no cast): real says match where the spec says mismatch is a
finding (the residual int64→float64 promotion is listed in known_findings.d/C18.json).
numpy's `astype`, `can_cast(safe)` and `result_type` are compared with the model's `castEl`,
`canCastSafe`, `resultKind` on a value sweep / the whole dtype table (model validation).
The x64 flag is observed before/after real `allclose` / `to_onnx` calls whose `fn` raises or
toggles the flag, and compared with `xrun`.

Round 2: exits are three-valued (normal / Exception / BaseException outside Exception): fn raises
KeyboardInterrupt / SystemExit / GeneratorExit / a custom BaseException, and a BaseException is injected at
every call boundary of the jax2onnx functions reachable from user_interface (`Injector`).  T-tie: numpy's
promotion table and the operand dtypes of the live comparison are regenerated into Gen/C18.lean and proved
equal to the model (GenProps/C18.lean); Props/C18Promo.lean and Props/C18Float.lean prove the cross-dtype
case at full strength on the exact integer rows and the float x float rows.  Feed construction: `bindFeeds`
/ `coerce` (Model), `feeds_sound` (Props/C18Feed.lean), tied by recording the feed dict ONNX Runtime's
`InferenceSession.run` receives from the real allclose on generated identity models.
"""
from __future__ import annotations

import json
import os
import shutil
import tempfile
import warnings
from fractions import Fraction
from typing import Any, Optional

import numpy as np

warnings.filterwarnings("ignore")

import common
from common import Check

META = {
    "ready": True,
    "level": "proof",
    "technique": "Lean 4 theorems about an exact-arithmetic model of _run_allclose's decision sequence "
                 "(soundness w.r.t. a cast-free specification; machine-checked refutation of the full "
                 "statement) + two-sided driver correspondence with the real allclose on seeded "
                 "systematic perturbations materialised as ONNX files; x64 flag stack discipline proved "
                 "for all programs",
    "level_text": "Kernel-checked: allclose_sound_same_dtype (FULL strength when ORT's output dtype equals the "
                  "expected dtype: verdict match => equal count, equal shapes, every element within |e-g| <= atol + "
                  "rtol|g|, NaN/inf placement equal; all tolerances >= 0, output lists, layout flags), "
                  "allclose_sound_partial (the same for arbitrary dtype pairs when numpy's promotion changes no "
                  "value), agreesB_iff/noLossyB_iff (the executable spec printed by the driver is the Prop spec), "
                  "allclose_sound_refuted + r1_match/r2_match (residual: int64/uint64 promoted to float64), "
                  "w1_fixed..w5_fixed (the five witnesses of the repaired cast-before-compare defect match under "
                  "the pre-fix decision and are mismatches now), modulusLe_iff_real, tmp_restores / "
                  "x64_restored_allclose / x64_restored_to_onnx / x64_history_restored (all bodies, nestings, "
                  "exception points, histories). Round 2: x64_restored_every_exit / x64_restored_under_injection (every "
                  "exit incl. BaseException, an interrupt before every step), tmpExcOnly_not_restoring (refuted variant); "
                  "promoTable_eq_model / operandTable_eq_model (numpy's promotion table and the live code's operand "
                  "dtypes, regenerated every run, ARE the model's); allclose_sound_int_promotion and "
                  "allclose_sound_float_widening (cross-dtype soundness at FULL strength on the 73 exact integer rows and "
                  "the 9 float x float rows, all well-typed values), allclose_sound_exact_rows (the same on ALL 124 of the "
                  "144 non-complex rows that do not bring a 64-bit integer to float64; roundFmt_widen, "
                  "roundFmt_int_exact), promotion_lossy_rows_refuted; feeds_sound / "
                  "feeds_eq_fnArgs_of_same_kinds (the feeds given to ORT are fn's arguments: names, order, values), "
                  "feeds_eq_fnArgs_refuted (coerced feed).",
    "level_note": "Since fix 61b87cb the only hypothesis left for mixed dtypes is that numpy's own promotion "
                  "(can_cast 'safe' / result_type) is lossless; it fails only for 64-bit integers above 2^53 that "
                  "numpy promotes to float64 (known finding F-C18-int64-promotion, needs tolerances near 0); rows with a "
                  "complex side still use that hypothesis. Inputs are "
                  "cast to the graph input dtype before they are fed (F-C18-coerced-feed-*). "
                  "Trusted: Lean kernel + 3 standard axioms; the hand-written model of numpy "
                  "astype/can_cast/result_type/isclose (validated each run against numpy on a value sweep, the "
                  "whole dtype table, and against the real allclose on the generated cases; floating-point "
                  "evaluation of the tolerance test inside numpy is modelled exactly, cases closer than a "
                  "dtype-dependent margin to the tolerance boundary are not generated); ONNX Runtime execution "
                  "itself; bfloat16 / extension dtypes (TypeError fallback of _comparison_operands) are outside "
                  "the model.",
    "design_ref": "DESIGN.md §3 C18",
}

MODS = ["J2O.Props.C18", "J2O.Lemmas.C18Real", "J2O.Props.C18Feed"]

NP = {
    "bool": np.bool_, "i8": np.int8, "i16": np.int16, "i32": np.int32, "i64": np.int64,
    "u8": np.uint8, "u16": np.uint16, "u32": np.uint32, "u64": np.uint64,
    "f16": np.float16, "f32": np.float32, "f64": np.float64,
    "c64": np.complex64, "c128": np.complex128,
}
KIND_OF = {np.dtype(v): k for k, v in NP.items()}
INT_KINDS = ["i8", "i16", "i32", "i64", "u8", "u16", "u32", "u64"]
FLT_KINDS = ["f16", "f32", "f64"]
CPLX_KINDS = ["c64", "c128"]
BITS = {"i8": 8, "i16": 16, "i32": 32, "i64": 64, "u8": 8, "u16": 16, "u32": 32, "u64": 64}
# smallest relative distance to the tolerance boundary a generated case may have, per dtype the
# comparison is carried out in (numpy evaluates |x-y| <= atol + rtol*|y| in that dtype)
MARGIN = {"f16": Fraction(1, 24), "f32": Fraction(1, 4096), "f64": Fraction(1, 2 ** 30)}


def klass(kind: str) -> str:
    if kind == "bool":
        return "bool"
    if kind in INT_KINDS:
        return "int"
    if kind in FLT_KINDS:
        return "float"
    return "complex"


# ----------------------------------------------------------------------------- encoding


def enc_real(v) -> str:
    f = float(v)
    if f != f:
        return "nan"
    if f == float("inf"):
        return "inf"
    if f == float("-inf"):
        return "-inf"
    fr = Fraction(f)
    return str(fr.numerator) if fr.denominator == 1 else f"{fr.numerator}/{fr.denominator}"


def enc_el(v, kind: str):
    if kind == "bool":
        return "1" if bool(v) else "0"
    if kind in INT_KINDS:
        return str(int(v))
    if kind in CPLX_KINDS:
        return [enc_real(np.real(v)), enc_real(np.imag(v))]
    return enc_real(v)


def enc_tensor(a: np.ndarray) -> dict:
    a = np.asarray(a)
    kind = KIND_OF[a.dtype]
    return {"k": kind, "s": list(a.shape), "v": [enc_el(v, kind) for v in a.reshape(-1)]}


def frac(s: str) -> Fraction:
    return Fraction(s)


def cmp_line(exp: list, got: list, rtol: float, atol: float, nchw: list) -> str:
    fr, fa = Fraction(float(rtol)), Fraction(float(atol))
    return json.dumps({"op": "cmp", "rtol": f"{fr.numerator}/{fr.denominator}",
                       "atol": f"{fa.numerator}/{fa.denominator}", "nchw": [int(i) for i in nchw],
                       "exp": [enc_tensor(e) for e in exp], "got": [enc_tensor(g) for g in got]})


# ----------------------------------------------------------------------------- real code


class Real:
    """Runs the REAL jax2onnx.allclose against constant-output ONNX files."""

    def __init__(self):
        import jax  # noqa: F401
        import jax2onnx
        from jax2onnx import user_interface
        self.allclose = jax2onnx.allclose
        self.ui = user_interface
        assert self.allclose is user_interface.allclose
        self.dir = tempfile.mkdtemp(prefix="c18_")
        self.n = 0
        self.raised = 0
        self.x = [np.zeros((1,), np.float32)]

    def close(self):
        shutil.rmtree(self.dir, ignore_errors=True)

    def const_model(self, got: list, path: Optional[str] = None) -> str:
        import onnx
        from onnx import helper, numpy_helper, TensorProto
        nodes, outs = [], []
        for i, a in enumerate(got):
            a = np.asarray(a)
            t = numpy_helper.from_array(a, name=f"c{i}")
            nodes.append(helper.make_node("Constant", [], [f"y{i}"], value=t))
            outs.append(helper.make_tensor_value_info(f"y{i}", t.data_type, list(a.shape)))
        x = helper.make_tensor_value_info("x", TensorProto.FLOAT, [1])
        g = helper.make_graph(nodes, "g", [x], outs)
        m = helper.make_model(g, opset_imports=[helper.make_opsetid("", 21)])
        m.ir_version = 10
        self.n += 1
        p = path or os.path.join(self.dir, f"m{self.n}.onnx")
        onnx.save(m, p)
        return p

    def run_at(self, path: str, exp: list, got: list, rtol: float, atol: float) -> tuple[bool, str]:
        """Overwrite the model stored at `path` in place, then validate it (the file stays)."""
        self.const_model(got, path)
        outs = [np.asarray(e) for e in exp]

        def fn(x):
            return outs[0] if len(outs) == 1 else tuple(outs)

        return self.call(fn, path, self.x, rtol=rtol, atol=atol)

    def call(self, fn, path, xs, *args, **kw) -> tuple[bool, str]:
        """The real allclose; an exception raised by the comparison itself (not by ONNX Runtime
        loading/running the file) is a verdict 'not a match' and is recorded as such."""
        try:
            ok, msg = self.allclose(fn, path, xs, *args, **kw)
            return bool(ok), str(msg)
        except Exception as e:
            if "onnxruntime" in type(e).__module__ or "onnxruntime" in type(e).__name__.lower():
                raise
            self.raised += 1
            return False, f"raised {type(e).__name__}: {str(e)[:160]}"

    def run(self, exp: list, got: list, rtol: float, atol: float, nchw: list,
            via_jax: bool = False, **kw) -> tuple[bool, str]:
        path = self.const_model(got)
        if via_jax:
            import jax.numpy as jnp
            outs = [jnp.asarray(e) for e in exp]
        else:
            outs = [np.asarray(e) for e in exp]

        def fn(x):
            return outs[0] if len(outs) == 1 else tuple(outs)

        try:
            ok, msg = self.call(fn, path, self.x, rtol=rtol, atol=atol,
                                outputs_as_nchw=(list(nchw) if nchw else None), **kw)
        finally:
            try:
                os.remove(path)
            except OSError:
                pass
        return bool(ok), str(msg)


def classify_msg(ok: bool, msg: str) -> str:
    """Best-effort reading of the message (information only; the tie compares the boolean)."""
    import re
    if ok:
        return "match"
    if "count mismatch" in msg:
        return "count"
    m = re.search(r"Output (\d+) shape mismatch", msg)
    if m:
        return f"shape:{m.group(1)}"
    m = re.search(r"Output (\d+) mismatch \(non-floating", msg)
    if m:
        return f"nonfloat:{m.group(1)}"
    m = re.search(r"Output (\d+) mismatch", msg)
    if m:
        return f"value:{m.group(1)}"
    return "other"


# ----------------------------------------------------------------------------- generators


def rep_values(kind: str, rng: common.Rng, n: int) -> np.ndarray:
    """n exactly representable, moderate values of the dtype (no specials)."""
    dt = NP[kind]
    if kind == "bool":
        return np.array([rng.chance(0.5) for _ in range(n)], dtype=dt)
    if kind in INT_KINDS:
        lo = -100 if kind.startswith("i") else 0
        return np.array([rng.randint(lo, 100) for _ in range(n)], dtype=dt)
    if kind in FLT_KINDS:
        den = 64 if kind == "f16" else 1024
        scale = rng.choice([1, 1, 8, 64] if kind == "f16" else [1, 1, 16, 1000])
        return np.array([rng.randint(-4 * den, 4 * den) / den * scale for _ in range(n)], dtype=dt)
    re = np.array([rng.randint(-2048, 2048) / 512 for _ in range(n)])
    im = np.array([rng.randint(-2048, 2048) / 512 for _ in range(n)])
    return (re + 1j * im).astype(dt)


def cast_category(ek: str, gk: str) -> str:
    ec, gc = klass(ek), klass(gk)
    if ec == "bool":
        return "to_bool"
    if ec == "int" and gc == "int":
        return "int_narrowing"
    if ec == "int" and gc == "bool":
        return "bool_to_int"
    if ec == "int":
        return "float_to_int"
    if ec == "float" and gc == "float":
        return "float_narrowing"
    if ec == "float":
        return "int_to_float"
    return "complex_narrowing"


def exact_margin(e: np.ndarray, gc: np.ndarray, rtol: float, atol: float) -> Optional[Fraction]:
    """Smallest relative distance of any finite real element pair to the tolerance boundary,
    computed exactly (None when there is no finite pair with a non-zero tolerance)."""
    fr, fa = Fraction(float(rtol)), Fraction(float(atol))
    best = None
    ef, gf = np.asarray(e).reshape(-1), np.asarray(gc).reshape(-1)
    if ef.shape != gf.shape or ef.dtype.kind == "c" or gf.dtype.kind == "c":
        return None
    for a, b in zip(ef, gf):
        a, b = float(a), float(b)
        if not (np.isfinite(a) and np.isfinite(b)):
            continue
        d = abs(Fraction(a) - Fraction(b))
        t = fa + fr * abs(Fraction(b))
        if t == 0:
            continue
        m = abs(d - t) / t
        best = m if best is None else min(best, m)
    return best


TOLS = [(1e-3, 1e-5), (1e-3, 1e-5), (0.0, 0.0), (0.25, 0.0), (0.0, 2.0 ** -10), (2.0 ** -7, 2.0 ** -12),
        (1e-7, 1e-7)]
SHAPES = [(), (1,), (3,), (2, 3), (1, 2, 2, 3), (2, 1, 2)]


class Case:
    __slots__ = ("exp", "got", "rtol", "atol", "nchw", "tag", "via_jax")

    def __init__(self, exp, got, rtol, atol, nchw=(), tag="", via_jax=False):
        self.exp, self.got, self.rtol, self.atol = list(exp), list(got), rtol, atol
        self.nchw, self.tag, self.via_jax = list(nchw), tag, via_jax

    def describe(self) -> dict:
        return {"tag": self.tag, "rtol": self.rtol, "atol": self.atol, "nchw": self.nchw,
                "expected": [enc_tensor(e) for e in self.exp], "got": [enc_tensor(g) for g in self.got]}


def boundary_values(e: float, kind: str, rtol: float, atol: float) -> list[tuple[str, float]]:
    """got values just inside / just outside the tolerance on both sides of e (in dtype `kind`)."""
    dt = NP[kind]
    out = []
    delta = {"f16": 1 / 6, "f32": 1 / 256, "f64": 2.0 ** -12}[kind]
    for sign in (1, -1):
        for side, fac in (("inside", 1 - delta), ("outside", 1 + delta)):
            # solve d = atol + rtol*|g| approximately with g = e + sign*d
            d = atol + rtol * abs(e)
            for _ in range(3):
                d = atol + rtol * abs(e + sign * d)
            g = dt(e + sign * d * fac)
            out.append((f"{side}{'+' if sign > 0 else '-'}", float(g)))
    return out


def gen_cases(rng: common.Rng, thorough: bool) -> list[Case]:
    cases: list[Case] = []
    reps = 3 if not thorough else 12

    def base(kind: str, shape, nout: int):
        n = int(np.prod(shape)) if shape else 1
        return [rep_values(kind, rng, n).reshape(shape) for _ in range(nout)]

    # ---- A. same dtype: identity + single-element perturbations on both sides of the tolerance
    for kind in FLT_KINDS:
        for _ in range(reps):
            shape = rng.choice(SHAPES)
            nout = rng.choice([1, 1, 2, 3])
            rtol, atol = rng.choice(TOLS)
            exp = base(kind, shape, nout)
            cases.append(Case(exp, [e.copy() for e in exp], rtol, atol, tag=f"identity/{kind}",
                              via_jax=(kind != "f64" and rng.chance(0.5))))
            oi = rng.randint(0, nout - 1)
            flat = exp[oi].reshape(-1)
            j = rng.randint(0, len(flat) - 1)
            for name, gv in boundary_values(float(flat[j]), kind, rtol, atol):
                got = [e.copy() for e in exp]
                gf = got[oi].reshape(-1).copy()
                gf[j] = gv
                got[oi] = gf.reshape(exp[oi].shape)
                cases.append(Case(exp, got, rtol, atol, tag=f"value-{name}/{kind}/out{oi}"))
    for kind in INT_KINDS + ["bool"]:
        for _ in range(max(1, reps // 2)):
            shape = rng.choice(SHAPES)
            nout = rng.choice([1, 2])
            rtol, atol = rng.choice(TOLS)
            exp = base(kind, shape, nout)
            cases.append(Case(exp, [e.copy() for e in exp], rtol, atol, tag=f"identity/{kind}",
                              via_jax=(kind in ("i32", "bool", "i8", "u8") and rng.chance(0.5))))
            oi = rng.randint(0, nout - 1)
            got = [e.copy() for e in exp]
            gf = got[oi].reshape(-1).copy()
            j = rng.randint(0, len(gf) - 1)
            gf[j] = (not gf[j]) if kind == "bool" else gf[j] + 1
            got[oi] = gf.reshape(exp[oi].shape)
            cases.append(Case(exp, got, rtol, atol, tag=f"value-off-by-one/{kind}/out{oi}"))

    # ---- B. dtype(-class) changes of got, value preserved or perturbed
    pairs = []
    for ek in ["f32", "f64", "f16", "i32", "i64", "i8", "u8", "bool"]:
        for gk in ["f32", "f64", "f16", "i32", "i64", "i8", "u8", "u32", "bool"]:
            if ek != gk:
                pairs.append((ek, gk))
    if not thorough:
        pairs = rng.sample(pairs, 40)
    for ek, gk in pairs:
        shape = rng.choice([(1,), (3,), (2, 2)])
        rtol, atol = rng.choice(TOLS[:2] + [(0.0, 0.0), (0.25, 0.0)])
        n = int(np.prod(shape))
        # small values representable in both dtypes: 0/1 for bool, small non-negative ints else
        vals = np.array([rng.randint(0, 1) if "bool" in (ek, gk) else rng.randint(0, 100) for _ in range(n)])
        e = vals.astype(NP[ek]).reshape(shape)
        g = vals.astype(NP[gk]).reshape(shape)
        cases.append(Case([e], [g], rtol, atol, tag=f"dtype-change-same-values/{ek}<-{gk}"))
        # one element moved in the got dtype: +1 (ints), +0.7 (floats), 2 instead of 0/1 (to bool)
        g2 = g.reshape(-1).copy()
        j = rng.randint(0, n - 1)
        if klass(gk) == "float":
            g2[j] = g2[j] + NP[gk](0.6875)
        elif klass(gk) == "int":
            g2[j] = g2[j] + (2 if ek == "bool" else 1)
        else:
            g2[j] = not g2[j]
        cases.append(Case([e], [g2.reshape(shape)], rtol, atol, tag=f"dtype-change-moved/{ek}<-{gk}"))

    # ---- C. lossy casts that hide a difference (the known defect class) ----------------
    for ek, gk in [("i32", "i64"), ("i8", "i32"), ("u8", "i32"), ("i16", "i64"), ("u32", "i64"), ("i32", "u32")]:
        eb = BITS[ek]
        e = np.array([5, 7, rng.randint(0, 50)], dtype=NP[ek])
        g = e.astype(NP[gk]).copy()
        if ek == "i32" and gk == "u32":
            e = np.array([-1, 7, 3], dtype=np.int32)
            g = np.array([2 ** 32 - 1, 7, 3], dtype=np.uint32)
        else:
            g[0] = g[0] + (1 << eb) * rng.choice([1, 2, 3])
        cases.append(Case([e], [g], 1e-3, 1e-5, tag=f"wrap/{ek}<-{gk}"))
    for gk in ["f32", "f64", "f16"]:
        for ek in ["i32", "i64", "u8"]:
            e = np.array([5, 3], dtype=NP[ek])
            g = np.array([5.75 if rng.chance(0.5) else 5.5, 3.0], dtype=NP[gk])
            cases.append(Case([e], [g], 1e-3, 1e-5, tag=f"truncate/{ek}<-{gk}"))
    for gk in ["i32", "f32", "u8", "i64"]:
        e = np.array([True, False])
        g = np.array([rng.choice([2, 3, 7]), 0]).astype(NP[gk])
        cases.append(Case([e], [g], 1e-3, 1e-5, tag=f"tobool/bool<-{gk}"))
    cases.append(Case([np.array([np.inf], np.float32)], [np.array([1e300], np.float64)], 1e-3, 1e-5,
                      tag="overflow/f32<-f64"))
    cases.append(Case([np.array([np.inf], np.float16)], [np.array([70000.0], np.float32)], 1e-3, 1e-5,
                      tag="overflow/f16<-f32"))
    cases.append(Case([np.array([16777216.0], np.float32)], [np.array([16777217], np.int64)], 0.0, 0.0,
                      tag="round/f32<-i64"))
    cases.append(Case([np.array([1.0], np.float32)], [np.array([1.0 + 2.0 ** -30], np.float64)], 0.0, 0.0,
                      tag="round/f32<-f64"))
    cases.append(Case([np.array([0.0], np.float32)], [np.array([1e-60], np.float64)], 0.0, 0.0,
                      tag="underflow/f32<-f64"))
    # residual after fix 61b87cb: numpy's own promotion of 64-bit integers to float64
    cases.append(Case([np.array([2.0 ** 53], np.float64)], [np.array([2 ** 53 + 1], np.int64)], 0.0, 0.0,
                      tag="promote/f64<-i64"))
    cases.append(Case([np.array([2 ** 53 + 1], np.int64)], [np.array([2.0 ** 53], np.float32)], 0.0, 0.0,
                      tag="promote/i64<-f32"))
    cases.append(Case([np.array([2 ** 63 - 1], np.int64)], [np.array([2 ** 63], np.uint64)], 0.0, 0.0,
                      tag="promote/i64<-u64"))
    cases.append(Case([np.array([2 ** 63 - 1], np.int64)], [np.array([2 ** 63], np.uint64)], 1e-3, 1e-5,
                      tag="promote/i64<-u64/default-tolerance"))
    cases.append(Case([np.array([2.0 ** 53], np.float64)], [np.array([2 ** 53 + 2], np.int64)], 0.0, 0.0,
                      tag="promote/f64<-i64/representable"))

    # ---- D. shape changes with the same values ------------------------------------------
    for kind in ["f32", "i32", "f64", "bool"]:
        for eshape, gshape in [((2, 3), (3, 2)), ((2, 3), (6,)), ((3,), (1, 3)), ((3,), (3, 1)), ((), (1,)),
                               ((1,), ()), ((2, 3), (1, 2, 3)), ((2, 2), (2, 2, 1)), ((1, 3), (3,)),
                               ((2, 3), (3,)), ((3,), (2, 3)), ((2, 1), (2, 3))]:
            if not thorough and rng.chance(0.45):
                continue
            ne, ng = int(np.prod(eshape)), int(np.prod(gshape))
            v = rep_values(kind, rng, max(ne, ng))
            if ne == ng:
                e, g = v[:ne].reshape(eshape), v[:ng].reshape(gshape)
            elif ne < ng:
                # broadcast-compatible shapes holding equal values after broadcasting
                e = v[:ne].reshape(eshape)
                g = np.array(np.broadcast_to(e, gshape))
            else:
                g = v[:ng].reshape(gshape)
                e = np.array(np.broadcast_to(g, eshape))
            rtol, atol = rng.choice(TOLS[:3])
            cases.append(Case([e], [g], rtol, atol, tag=f"shape/{kind}/{eshape}->{gshape}"))

    # ---- E. output count changes ----------------------------------------------------------
    for kind in ["f32", "i32"]:
        for nout in (1, 2, 3):
            exp = base(kind, (2,), nout)
            cases.append(Case(exp, [e.copy() for e in exp] + [exp[-1].copy()], 1e-3, 1e-5,
                              tag=f"count+1/{kind}/{nout}"))
            if nout > 1:
                cases.append(Case(exp, [e.copy() for e in exp[:-1]], 1e-3, 1e-5, tag=f"count-1/{kind}/{nout}"))
                # same count, two outputs swapped
                sw = [e.copy() for e in exp]
                sw[0], sw[1] = sw[1], sw[0]
                cases.append(Case(exp, sw, 1e-3, 1e-5, tag=f"outputs-swapped/{kind}/{nout}"))

    # ---- F. NaN / inf placement ---------------------------------------------------------------
    for kind in FLT_KINDS:
        dt = NP[kind]
        specials = [np.nan, np.inf, -np.inf]
        for se in specials + [1.5]:
            for sg in specials + [1.5, float(np.finfo(dt).max)]:
                if not thorough and rng.chance(0.35):
                    continue
                e = np.array([1.0, se, -2.0], dtype=dt)
                g = np.array([1.0, sg, -2.0], dtype=dt)
                rtol, atol = rng.choice(TOLS[:3])
                cases.append(Case([e], [g], rtol, atol, tag=f"special/{kind}/{se}vs{sg}"))
        # NaN moved to another position
        e = np.array([np.nan, 1.0, 2.0], dtype=dt)
        g = np.array([1.0, np.nan, 2.0], dtype=dt)
        cases.append(Case([e], [g], 1e-3, 1e-5, tag=f"special/{kind}/nan-moved"))
    # cross-dtype specials (cast keeps NaN/inf)
    cases.append(Case([np.array([np.nan, np.inf], np.float32)], [np.array([np.nan, np.inf], np.float64)],
                      1e-3, 1e-5, tag="special/f32<-f64/same"))
    cases.append(Case([np.array([np.nan, np.inf], np.float64)], [np.array([np.inf, np.nan], np.float32)],
                      1e-3, 1e-5, tag="special/f64<-f32/swapped"))
    # float specials against integer expectations: C-undefined cast (model: unspecified)
    cases.append(Case([np.array([0, 1], np.int32)], [np.array([np.nan, 1.0], np.float32)], 1e-3, 1e-5,
                      tag="special/i32<-f32/nan"))
    cases.append(Case([np.array([0, 1], np.int64)], [np.array([1e30, 1.0], np.float32)], 1e-3, 1e-5,
                      tag="special/i64<-f32/out-of-range"))

    # ---- G. NCHW handling --------------------------------------------------------------------------
    for kind in ["f32", "i32"]:
        for shape in [(1, 2, 2, 3), (2, 2, 2, 2), (1, 3, 1, 2)]:
            n = int(np.prod(shape))
            e = rep_values(kind, rng, n).reshape(shape)            # NHWC as JAX returns it
            g_nchw = np.ascontiguousarray(np.transpose(e, (0, 3, 1, 2)))
            cases.append(Case([e], [g_nchw], 1e-3, 1e-5, nchw=[0], tag=f"nchw/flag+transposed/{kind}/{shape}"))
            cases.append(Case([e], [g_nchw], 1e-3, 1e-5, nchw=[], tag=f"nchw/noflag+transposed/{kind}/{shape}"))
            cases.append(Case([e], [e.copy()], 1e-3, 1e-5, nchw=[0], tag=f"nchw/flag+untransposed/{kind}/{shape}"))
            cases.append(Case([e], [g_nchw], 1e-3, 1e-5, nchw=[1], tag=f"nchw/flag-other-index/{kind}/{shape}"))
            cases.append(Case([e, e[0]], [g_nchw, e[0].copy()], 1e-3, 1e-5, nchw=[0, 1],
                              tag=f"nchw/flag-on-rank3/{kind}/{shape}"))
            g_bad = g_nchw.copy().reshape(-1)
            g_bad[rng.randint(0, n - 1)] += 3
            cases.append(Case([e], [g_bad.reshape(g_nchw.shape)], 1e-3, 1e-5, nchw=[0],
                              tag=f"nchw/flag+transposed+moved/{kind}/{shape}"))

    # ---- H. complex ------------------------------------------------------------------------------------
    for ek, gk in [("c64", "f32"), ("c128", "f64"), ("c64", "f64"), ("c128", "f32")]:
        for shape in [(2,), (2, 2), ()]:
            n = int(np.prod(shape)) if shape else 1
            e = rep_values(ek, rng, n).reshape(shape)
            g = np.stack([e.real, e.imag], axis=-1).astype(NP[gk])
            rtol, atol = rng.choice([(1e-3, 1e-5), (2.0 ** -7, 2.0 ** -12), (0.0, 0.0)])
            cases.append(Case([e], [g], rtol, atol, tag=f"complex/repack-identity/{ek}<-{gk}/{shape}"))
            # components individually inside the tolerance, modulus outside (and the reverse)
            t = atol + rtol * float(np.abs(e.reshape(-1)[0]))
            for name, fr_, fi_ in [("both0.8", 0.8, 0.8), ("both0.6", 0.6, 0.6), ("re1.2", 1.2, 0.0),
                                   ("im0.9", 0.0, 0.9), ("im1.15", 0.0, -1.15)]:
                g2 = g.copy().reshape(-1, 2)
                g2[0, 0] += NP[gk](t * fr_)
                g2[0, 1] += NP[gk](t * fi_)
                cases.append(Case([e], [g2.reshape(g.shape)], rtol, atol,
                                  tag=f"complex/repack-{name}/{ek}<-{gk}/{shape}"))
            # wrong trailing dimension / plain float of the same shape (imaginary part lost)
            g3 = np.concatenate([g, g[..., :1]], axis=-1)
            cases.append(Case([e], [g3], rtol, atol, tag=f"complex/trailing3/{ek}<-{gk}/{shape}"))
            cases.append(Case([e], [np.ascontiguousarray(e.real).astype(NP[gk])], rtol, atol,
                              tag=f"complex/real-only/{ek}<-{gk}/{shape}"))
    # complex with NaN in one component (numpy: a complex with NaN anywhere "is NaN")
    e = np.array([complex(np.nan, 1.0), complex(2.0, np.inf)], np.complex64)
    cases.append(Case([e], [np.array([[np.nan, 2.0], [2.0, np.inf]], np.float32)], 1e-3, 1e-5,
                      tag="complex/special/nan-im-differs"))
    cases.append(Case([e], [np.array([[np.nan, 1.0], [2.0, -np.inf]], np.float32)], 1e-3, 1e-5,
                      tag="complex/special/inf-sign"))
    # `re + 1j*im` with an infinite imaginary part has a NaN real part: any NaN-holding expectation matches
    cases.append(Case([np.array([complex(np.nan, 5.0)], np.complex64)], [np.array([[2.0, np.inf]], np.float32)],
                      1e-3, 1e-5, tag="complex/special/repack-inf-vs-nan"))
    cases.append(Case([np.array([complex(2.0, np.inf)], np.complex64)], [np.array([[2.0, np.inf]], np.float32)],
                      1e-3, 1e-5, tag="complex/special/repack-inf-identity"))
    cases.append(Case([np.array([complex(np.inf, 1.0)], np.complex128)], [np.array([[np.inf, 1.0]], np.float64)],
                      1e-3, 1e-5, tag="complex/special/repack-re-inf-identity"))
    # a float64 (re, im) pair that only rounds to the complex64 expectation
    cases.append(Case([np.array([complex(1.0, -2.0)], np.complex64)],
                      [np.array([[1.0 + 2.0 ** -30, -2.0]], np.float64)], 0.0, 0.0, tag="round/c64<-f64pair"))
    return cases


# ----------------------------------------------------------------------------- cast model validation


def cast_sweep(chk: Check, rng: common.Rng, thorough: bool):
    """numpy `astype` vs the model's `castEl` on edge values + seeded values for every dtype pair.
    Returns (driver lines, finish(answers))."""
    kinds = ["bool"] + INT_KINDS + FLT_KINDS
    lines, meta = [], []
    for sk in kinds + ["c128", "c64"]:
        vals: list = []
        if sk == "bool":
            vals = [False, True]
        elif sk in INT_KINDS:
            b = BITS[sk]
            lo, hi = (-(2 ** (b - 1)), 2 ** (b - 1) - 1) if sk.startswith("i") else (0, 2 ** b - 1)
            pts = {lo, hi, 0, 1, min(hi, 2), lo + 1, hi - 1, min(hi, 127), min(hi, 128), min(hi, 255), min(hi, 256),
                   min(hi, 2 ** 24 + 1), min(hi, 2 ** 31), min(hi, 2 ** 32 + 5), min(hi, 2 ** 53 + 1),
                   min(hi, 65504), min(hi, 65520), min(hi, 2049), min(hi, 2 ** 62 + 2 ** 8 + 1)}
            if lo < 0:
                pts |= {-1, -128, -129, max(lo, -(2 ** 31) - 1), max(lo, -(2 ** 24) - 1)}
            for _ in range(6 if not thorough else 40):
                pts.add(rng.randint(lo, hi))
            vals = sorted(p for p in pts if lo <= p <= hi)
        elif sk in FLT_KINDS:
            dt = NP[sk]
            fi = np.finfo(dt)
            vals = [0.0, 1.0, -1.0, 0.5, 5.7, -5.7, 2.5, 3.5, -2.5, 127.0, 128.0, 255.9, 256.0, -128.9, -129.0,
                    65504.0, 65519.0, 65520.0, 1e-8, 6e-8, 3e-8, 2.0 ** -24, 2.0 ** -25, 3 * 2.0 ** -25,
                    float(fi.max), float(fi.tiny), float(fi.smallest_subnormal), 16777217.0, 2147483647.0,
                    2147483648.0, -2147483648.0, -2147483904.0, 4294967295.0, 4294967296.0, 9.2e18, 9.3e18,
                    1.8e19, 1e30, 1e300, 1e-46, 1e-320, 0.1, 1 / 3, 1.0000001, 1 + 2.0 ** -11, 1 + 3 * 2.0 ** -12,
                    float("nan"), float("inf"), float("-inf")]
            for _ in range(8 if not thorough else 60):
                vals.append(rng.randint(-10 ** 6, 10 ** 6) / rng.choice([1, 3, 7, 1024, 10 ** 5]))
            with np.errstate(all="ignore"):
                vals = [float(dt(v)) for v in vals]
        else:
            vals = [complex(1.5, 2.5), complex(0.1, -1 / 3), complex(0, 0), complex(0, 2), complex(1e300, 1e-320),
                    complex(float("nan"), 1), complex(float("inf"), -float("inf")), complex(5.7, 9)]
            vals = [NP[sk](v) for v in vals]
        for dk in kinds + CPLX_KINDS:
            if sk in CPLX_KINDS and dk not in CPLX_KINDS + FLT_KINDS + ["bool"]:
                continue
            src = np.array(vals, dtype=NP[sk])
            with np.errstate(all="ignore"):
                dst = src.astype(NP[dk])
            lines.append(json.dumps({"op": "cast", "src": sk, "dst": dk, "v": [enc_el(v, sk) for v in src]}))
            meta.append((sk, dk, src, dst))
    def finish(answers: list[str]) -> None:
        n, undefined, bad = 0, 0, []
        for (sk, dk, src, dst), ans in zip(meta, answers):
            outs = ans.split(" ")
            assert len(outs) == len(src), (sk, dk, ans[:200])
            for v, d, o in zip(src, dst, outs):
                n += 1
                if o == "none":
                    undefined += 1
                    continue
                want = enc_el(d, dk)
                want = ",".join(want) if isinstance(want, list) else f"{want},0"
                if o != want:
                    bad.append({"src": sk, "dst": dk, "value": repr(v), "numpy": want, "model": o})
        chk.info("cast_model_validation", {"values": n, "c_undefined_skipped": undefined, "mismatches": len(bad)})
        chk.add("traces_validated_against_impl", n)
        if bad:
            # the hand-written model of numpy's astype is wrong: model defect, not a defect of /repo
            raise RuntimeError(f"cast model disagrees with numpy astype: {bad[:6]}")

    return lines, finish


# ----------------------------------------------------------------------------- x64 flag


class C18Abort(BaseException):
    """a BaseException outside Exception that is none of the builtin ones (cf. pytest's outcome exceptions)"""


EXC = {"RuntimeError": RuntimeError, "ValueError": ValueError, "KeyboardInterrupt": KeyboardInterrupt,
       "SystemExit": SystemExit, "GeneratorExit": GeneratorExit, "C18Abort": C18Abort}
BASE_EXC = ["KeyboardInterrupt", "SystemExit", "GeneratorExit", "C18Abort"]


def exit_kind(e: Optional[BaseException]) -> str:
    if e is None:
        return "normal"
    return "exc" if isinstance(e, Exception) else "base"


def x64_cases(rng: common.Rng, thorough: bool) -> list[dict]:
    """`at: fn` cases: the event (raise of every exception class incl. BaseException subclasses, flag
    toggles, both) happens while `fn` is evaluated / traced; `ort_fail`: ORT cannot open the file."""
    out = []
    for flag in (False, True):
        for en in (False, True):
            for body in ["ok", "toggle", "set_same", "ort_fail"]:
                out.append({"api": "allclose", "flag": flag, "en": en, "body": body, "exc": None, "at": "fn"})
            for body in ["raise", "toggle_raise"]:
                for exc in ["RuntimeError"] + BASE_EXC:
                    out.append({"api": "allclose", "flag": flag, "en": en, "body": body, "exc": exc, "at": "fn"})
    for flag in (False, True):
        for en in (False, True):
            out.append({"api": "to_onnx", "flag": flag, "en": en, "body": "ok", "exc": None, "at": "fn"})
            if thorough:
                out.append({"api": "to_onnx", "flag": flag, "en": en, "body": "toggle", "exc": None, "at": "fn"})
            classes = ["RuntimeError"] + (BASE_EXC if (thorough or flag != en) else [rng.choice(BASE_EXC)])
            for k, exc in enumerate(classes):
                body = "raise" if (k % 2 == 0 or thorough) else "toggle_raise"
                out.append({"api": "to_onnx", "flag": flag, "en": en, "body": body, "exc": exc, "at": "fn"})
                if thorough:
                    out.append({"api": "to_onnx", "flag": flag, "en": en, "body": "toggle_raise", "exc": exc, "at": "fn"})
    return out


def x64_prog(case: dict) -> dict:
    flag, en, body = case["flag"], case["en"], case["body"]
    inside = en  # the flag value seen by the body
    skip = {"t": "skip"}
    rz = {"t": "raise"} if (case.get("exc") is None or issubclass(EXC[case["exc"]], Exception)) else {"t": "raiseBase"}
    b = {"ok": skip, "raise": rz, "ort_fail": {"t": "raise"},
         "toggle": {"t": "set", "b": not inside},
         "set_same": {"t": "set", "b": inside},
         "toggle_raise": {"t": "seq", "a": {"t": "set", "b": not inside}, "b": rz}}[body]
    if case["api"] == "allclose":
        # fn raising an Exception is caught inside _run_allclose ("Failed to evaluate JAX function");
        # a BaseException outside Exception is not
        if body in ("raise", "toggle_raise"):
            b = {"t": "catch", "body": b}
        prog = {"t": "tmp", "en": en, "body": b}
    else:
        prog = {"t": "tmp", "en": en, "body": {"t": "seq", "a": {"t": "force", "en": en, "body": b}, "b": skip}}
    return {"op": "x64", "flag": flag, "prog": prog}


class Injector:
    """Wraps every plain function living in the namespaces of jax2onnx.user_interface and of the jax2onnx
    modules it imports functions from (by whatever name: nothing here depends on private names); the
    `at`-th call of any of them raises `exc` right before / right after the call.  `exc=None`: count only."""

    def __init__(self, ui, exc: Optional[type] = None, at: int = -1, when: str = "before"):
        import sys
        import types
        self.exc, self.at, self.when = exc, at, when
        self.count, self.fired, self.saved = 0, None, []
        mods = {ui.__name__: ui}
        for v in list(vars(ui).values()):
            if isinstance(v, types.FunctionType) and (v.__module__ or "").startswith("jax2onnx") \
                    and v.__module__ in sys.modules:
                mods[v.__module__] = sys.modules[v.__module__]
        self.mods = list(mods.values())
        self.types = types

    def _wrap(self, f, label):
        import functools
        inj = self

        @functools.wraps(f)
        def w(*a, **k):
            i = inj.count
            inj.count += 1
            if inj.exc is not None and i == inj.at and inj.when == "before":
                inj.fired = label
                raise inj.exc()
            r = f(*a, **k)
            if inj.exc is not None and i == inj.at and inj.when == "after":
                inj.fired = label
                raise inj.exc()
            return r
        return w

    def __enter__(self):
        for m in self.mods:
            for name, v in list(vars(m).items()):
                if isinstance(v, self.types.FunctionType) and (v.__module__ or "").startswith("jax2onnx"):
                    self.saved.append((m, name, v))
                    setattr(m, name, self._wrap(v, f"{v.__module__}.{v.__qualname__}"))
        return self

    def __exit__(self, *a):
        for m, name, v in self.saved:
            setattr(m, name, v)
        self.saved = []
        return False


def x64_real(case: dict, real: Real) -> tuple[bool, str, dict]:
    """(flag after, how the call was left: normal|exc|base, info) on the real code; the flag is reset
    afterwards.  `at: fn` → the event happens inside fn; `at: {"call": k, "when": …}` → `exc` is raised
    at the k-th call of a jax2onnx function during the API call (Injector)."""
    import jax
    import jax.numpy as jnp
    start = bool(jax.config.jax_enable_x64)
    flag, en, body = case["flag"], case["en"], case["body"]
    exc_cls = EXC[case["exc"]] if case.get("exc") else RuntimeError
    at = case.get("at", "fn")
    err: Optional[BaseException] = None
    info: dict = {}
    try:
        jax.config.update("jax_enable_x64", flag)

        def fn(x):
            if at == "fn":
                if body in ("toggle", "toggle_raise"):
                    jax.config.update("jax_enable_x64", not bool(jax.config.jax_enable_x64))
                if body == "set_same":
                    jax.config.update("jax_enable_x64", bool(jax.config.jax_enable_x64))
                if body in ("raise", "toggle_raise"):
                    raise exc_cls("boom") if exc_cls is not SystemExit else SystemExit(3)
            return jnp.sin(x)

        if at == "fn":
            inj = Injector(real.ui)            # not entered: nothing is wrapped
            ctx = None
        else:
            inj = Injector(real.ui, None if at.get("count_only") else exc_cls, at.get("call", -1),
                           at.get("when", "before"))
            ctx = inj
        path = None
        if case["api"] == "allclose":
            if body == "ort_fail":
                path = os.path.join(real.dir, "does_not_exist.onnx")
            else:
                path = real.const_model([np.sin(np.zeros((1,), np.float32))])
        try:
            if ctx is not None:
                ctx.__enter__()
            try:
                if case["api"] == "allclose":
                    real.allclose(fn, path, real.x, enable_double_precision=en)
                else:
                    from jax2onnx import to_onnx
                    to_onnx(fn, [(1,)], enable_double_precision=en)
            finally:
                if ctx is not None:
                    ctx.__exit__(None, None, None)
        except BaseException as e:  # noqa: BLE001 - every exit of the call is an observation
            if isinstance(e, (MemoryError, RecursionError)):
                raise
            err = e
        after = bool(jax.config.jax_enable_x64)
        info = {"calls": inj.count, "fired": inj.fired, "exception": type(err).__name__ if err else None}
    finally:
        jax.config.update("jax_enable_x64", start)
    return after, exit_kind(err), info


def x64_injection_cases(rng: common.Rng, real: Real, thorough: bool) -> list[dict]:
    """A BaseException arriving at the k-th call of a jax2onnx function inside allclose / to_onnx (before
    and after the call returns): every k for allclose, a seeded sample for to_onnx."""
    out = []
    for api in ("allclose", "to_onnx"):
        probe = {"api": api, "flag": False, "en": True, "body": "ok", "exc": None,
                 "at": {"count_only": True}}
        _, _, info = x64_real(probe, real)
        n = int(info["calls"])
        combos = [(False, True), (True, False)] + ([(False, False), (True, True)] if thorough else [])
        for flag, en in combos:
            if api == "allclose":
                ks = list(range(n))
            else:
                ks = sorted(set([0, 1, n - 1, n // 2] + [rng.randint(0, n - 1) for _ in range(2 if not thorough else 10)]))
            for k in ks:
                if k < 0 or k >= n:
                    continue
                when = "before" if rng.chance(0.6) else "after"
                out.append({"api": api, "flag": flag, "en": en, "body": "ok", "exc": rng.choice(BASE_EXC),
                            "at": {"call": k, "when": when}, "calls_in_dry_run": n})
    return out


# ----------------------------------------------------------------------------- programs (real exports)


def program_cases(chk: Check, rng: common.Rng, real: Real, thorough: bool) -> tuple[list, list]:
    """Systematically perturbed copies of a really exported model + feed-construction cases.
    Returns (driver lines, records); `got` is what ONNX Runtime returns for the perturbed file
    in a session of the harness (same options as allclose uses)."""
    import jax.numpy as jnp
    import onnx
    import onnxruntime as ort
    from onnx import helper, numpy_helper, TensorProto
    from jax2onnx import to_onnx

    lines, recs = [], []
    w = (np.arange(12, dtype=np.float32).reshape(3, 4) - 5) / 8
    b = np.array([0.5, -1.0, 2.0, 0.25], np.float32)

    def f(x):
        return jnp.dot(x, w) + b, jnp.sum(x, axis=1).astype(jnp.int32)

    x = (np.arange(6, dtype=np.float32).reshape(2, 3) - 2) / 4
    base = to_onnx(f, [(2, 3)], return_mode="proto")
    inits = [i for i in base.graph.initializer if numpy_helper.to_array(i).dtype == np.float32
             and numpy_helper.to_array(i).size > 1]

    def ort_run(model: onnx.ModelProto, feeds: dict) -> list[np.ndarray]:
        so = ort.SessionOptions()
        so.graph_optimization_level = ort.GraphOptimizationLevel.ORT_DISABLE_ALL
        so.log_severity_level = 3
        s = ort.InferenceSession(model.SerializeToString(), so, providers=["CPUExecutionProvider"])
        return s.run(None, feeds)

    def add(model, tag, fn=f, xs=(x,), params=None, rtol=1e-3, atol=1e-5, feeds=None):
        p = os.path.join(real.dir, f"prog{len(recs)}.onnx")
        onnx.save(model, p)
        try:
            exp = fn(*[jnp.asarray(a) for a in xs], **(params or {}))
            exp = [np.asarray(e) for e in (exp if isinstance(exp, (tuple, list)) else [exp])]
            if feeds is None:
                names = [i.name for i in model.graph.input]
                feeds = dict(zip(names, xs))
            got = ort_run(model, feeds)
            ok, msg = real.call(fn, p, list(xs), params, rtol=rtol, atol=atol)
        finally:
            os.remove(p)
        lines.append(cmp_line(exp, got, rtol, atol, []))
        recs.append({"tag": tag, "real": (bool(ok), str(msg)), "exp": exp, "got": got, "rtol": rtol, "atol": atol})

    add(base, "export/unchanged")
    for k, init in enumerate(inits[:2]):
        arr = numpy_helper.to_array(init).copy()
        for name, delta in [("tiny", 1e-6), ("small", 3e-4), ("large", 0.05), ("huge", 3.0)]:
            m = onnx.ModelProto()
            m.CopyFrom(base)
            a2 = arr.copy().reshape(-1)
            a2[rng.randint(0, a2.size - 1)] += np.float32(delta)
            tgt = [i for i in m.graph.initializer if i.name == init.name][0]
            tgt.CopyFrom(numpy_helper.from_array(a2.reshape(arr.shape), init.name))
            add(m, f"export/initializer{k}+{name}")
    # graph outputs: dropped, duplicated, swapped, cast to another dtype
    outs = list(base.graph.output)
    if len(outs) == 2:
        m = onnx.ModelProto(); m.CopyFrom(base); del m.graph.output[1]
        add(m, "export/output-dropped")
        m = onnx.ModelProto(); m.CopyFrom(base); m.graph.output.append(outs[0])
        add(m, "export/output-duplicated")
        m = onnx.ModelProto(); m.CopyFrom(base)
        o0, o1 = onnx.ValueInfoProto(), onnx.ValueInfoProto()
        o0.CopyFrom(outs[0]); o1.CopyFrom(outs[1])
        del m.graph.output[:]
        m.graph.output.extend([o1, o0])
        add(m, "export/outputs-swapped")
        for to, nm in [(TensorProto.DOUBLE, "f64"), (TensorProto.INT64, "i64"), (TensorProto.FLOAT16, "f16")]:
            m = onnx.ModelProto(); m.CopyFrom(base)
            m.graph.node.append(helper.make_node("Cast", [outs[0].name], ["cast_out"], to=to))
            vi = helper.make_tensor_value_info("cast_out", to, None)
            del m.graph.output[0]
            m.graph.output.insert(0, vi)
            add(m, f"export/output0-cast-{nm}")
        m = onnx.ModelProto(); m.CopyFrom(base)
        m.graph.node.append(helper.make_node("Transpose", [outs[0].name], ["tr_out"], perm=[1, 0]))
        del m.graph.output[0]
        m.graph.output.insert(0, helper.make_tensor_value_info("tr_out", TensorProto.FLOAT, None))
        add(m, "export/output0-transposed")

    # feed construction: two inputs by position, params by name, swapped wiring
    def ident(order, in_types=(TensorProto.FLOAT, TensorProto.FLOAT)):
        a = helper.make_tensor_value_info("a", in_types[0], [2])
        bb = helper.make_tensor_value_info("b", in_types[1], [2])
        nodes = [helper.make_node("Identity", [order[0]], ["o0"]), helper.make_node("Identity", [order[1]], ["o1"])]
        t = {"a": in_types[0], "b": in_types[1]}
        g = helper.make_graph(nodes, "g", [a, bb],
                              [helper.make_tensor_value_info("o0", t[order[0]], [2]),
                               helper.make_tensor_value_info("o1", t[order[1]], [2])])
        m = helper.make_model(g, opset_imports=[helper.make_opsetid("", 21)])
        m.ir_version = 10
        return m

    xa, xb = np.array([1.0, 2.0], np.float32), np.array([3.0, 4.5], np.float32)
    add(ident(("a", "b")), "feed/positional", fn=lambda a, b: (a, b), xs=(xa, xb))
    add(ident(("b", "a")), "feed/positional-swapped-wiring", fn=lambda a, b: (a, b), xs=(xa, xb))
    add(ident(("a", "b")), "feed/param-by-name", fn=lambda a, b=None: (a, b), xs=(xa,), params={"b": xb},
        feeds={"a": xa, "b": xb})
    add(ident(("b", "a")), "feed/param-by-name-swapped-wiring", fn=lambda a, b=None: (a, b), xs=(xa,),
        params={"b": xb}, feeds={"a": xa, "b": xb})
    return lines, recs


# ----------------------------------------------------------------------------- feed construction

ONNX_T = {"f32": 1, "u8": 2, "i8": 3, "u16": 4, "i16": 5, "i32": 6, "i64": 7, "bool": 9, "f16": 10, "f64": 11,
          "u32": 12, "u64": 13}
# dtypes jax keeps as they are with x64 disabled (fn must receive the very values that were given)
GIVEN_KINDS = ["f32", "i32", "u8", "bool", "f16", "i8", "i16"]
DECLARED_KINDS = ["f32", "f32", "i32", "f64", "i64", "u8", "bool", "f16", "i16", "i8"]


def model_tensor_str(a: np.ndarray) -> str:
    """a tensor in the notation of the driver's `showTn`"""
    a = np.asarray(a)
    kind = KIND_OF[a.dtype]
    vals = []
    for v in a.reshape(-1):
        e = enc_el(v, kind)
        vals.append(",".join(e) if isinstance(e, list) else f"{e},0")
    return f"{kind}:{'.'.join(str(d) for d in a.shape)}:{';'.join(vals)}"


def feed_values(kind: str, rng: common.Rng, n: int, lossy_for: Optional[str]) -> np.ndarray:
    """n values of dtype `kind`; with `lossy_for` = a declared dtype, at least one value that `astype(declared)`
    changes (fraction, out of range, > 1 for bool)."""
    v = rep_values(kind, rng, n)
    if kind == "bool":
        return v
    if lossy_for is not None and n:
        j = rng.randint(0, n - 1)
        if klass(kind) == "float":
            if lossy_for in INT_KINDS:
                v[j] = NP[kind](rng.choice([5.75, 2.5, 7.25]))
            elif lossy_for == "bool":
                v[j] = NP[kind](0.5)
            elif lossy_for == "f16":
                v[j] = NP[kind](1.0 + 2.0 ** -12)
        else:
            if lossy_for == "bool":
                v[j] = 2
            elif lossy_for in ("u8", "i8") and kind in ("i32", "i16"):
                v[j] = 300
            elif lossy_for == "u8" and kind == "i8":
                v[j] = -3
            elif lossy_for == "f16" and kind == "i32":
                v[j] = 2049
            elif lossy_for == "f32" and kind == "i32":
                v[j] = 16777217
    return v


def feed_cases(rng: common.Rng, thorough: bool) -> list[dict]:
    out = []
    names_pool = ["a", "b", "c", "x0", "in_1", "y"]
    n_cases = 28 if not thorough else 160
    for ci in range(n_cases):
        n = rng.choice([1, 2, 2, 3, 3])
        names = rng.sample(names_pool, n)
        fam = rng.choice(["same", "same", "widen", "lossy", "lossy", "count"])
        metas, given = [], []
        for name in names:
            dk = rng.choice(DECLARED_KINDS)
            if fam in ("same", "count"):
                gk = dk if dk in GIVEN_KINDS else rng.choice(["f32", "i32"])
                if gk != dk:       # f64 / i64 graph input: a value-preserving widening
                    gk = "f32" if dk == "f64" else "i32"
            elif fam == "widen":
                gk = {"f64": "f32", "i64": "i32", "f32": "f16", "i32": rng.choice(["i16", "u8", "bool"]),
                      "i16": rng.choice(["i8", "u8"]), "f16": "u8"}.get(dk, dk)
            else:
                gk = rng.choice([g for g in GIVEN_KINDS if g != dk])
            shape = rng.choice([(1,), (2,), (3,)])
            lossy_for = dk if fam == "lossy" else None
            vals = feed_values(gk, rng, int(np.prod(shape)), lossy_for).reshape(shape)
            metas.append({"name": name, "k": dk, "shape": list(shape)})
            given.append(vals)
        is_param = [n > 1 and rng.chance(0.4) for _ in names]
        if all(is_param):
            is_param[rng.randint(0, n - 1)] = False
        xs = [g for g, p in zip(given, is_param) if not p]
        params = [(nm, g) for nm, g, p in zip(names, given, is_param) if p]
        if rng.chance(0.5):
            params = list(reversed(params))     # keyword order must not matter
        if fam == "count":
            if rng.chance(0.5) and xs:
                xs = xs[:-1]
            else:
                xs = xs + [np.array([9.0], np.float32)]
        out.append({"tag": f"feed/{fam}/{ci}", "metas": metas, "xs": xs, "params": params})
    return out


def feed_line(c: dict, rtol: float = 0.0, atol: float = 0.0) -> str:
    return json.dumps({"op": "feed", "rtol": "0/1", "atol": "0/1",
                       "metas": [{"name": m["name"], "k": m["k"]} for m in c["metas"]],
                       "xs": [enc_tensor(x) for x in c["xs"]],
                       "params": [{"name": n, "t": enc_tensor(v)} for n, v in c["params"]]})


def feed_real(c: dict, real: Real, hide: bool = False) -> dict:
    """Run the REAL allclose on an identity model with the declared graph inputs; `fn` returns what it
    received, in graph-input order.  The feed dict ONNX Runtime's `run` receives is recorded by spying on
    the public `onnxruntime.InferenceSession.run`.  `hide=True`: fn applies the dtype conversion itself
    (`x.astype(declared)`) — a legitimate JAX function for which a coerced feed makes allclose say match."""
    import onnx
    import onnxruntime as ort
    import jax.numpy as jnp
    from onnx import helper
    ins, outs, nodes = [], [], []
    for i, m in enumerate(c["metas"]):
        ins.append(helper.make_tensor_value_info(m["name"], ONNX_T[m["k"]], m["shape"]))
        outs.append(helper.make_tensor_value_info(f"o{i}", ONNX_T[m["k"]], m["shape"]))
        nodes.append(helper.make_node("Identity", [m["name"]], [f"o{i}"]))
    g = helper.make_graph(nodes, "g", ins, outs)
    mp = helper.make_model(g, opset_imports=[helper.make_opsetid("", 21)])
    mp.ir_version = 10
    real.n += 1
    path = os.path.join(real.dir, f"feed{real.n}.onnx")
    onnx.save(mp, path)
    order = [m["name"] for m in c["metas"]]
    declared = {m["name"]: m["k"] for m in c["metas"]}

    def fn(*a, **kw):
        it = iter(a)
        res = []
        for nm in order:
            v = kw[nm] if nm in kw else next(it)
            res.append(jnp.asarray(v).astype(NP[declared[nm]]) if hide else v)
        return tuple(res)

    seen: list = []
    orig = ort.InferenceSession.run

    def spy(self, output_names, input_feed, *args, **kw):
        seen.append({k: np.asarray(v) for k, v in dict(input_feed).items()})
        return orig(self, output_names, input_feed, *args, **kw)

    res: dict = {"feeds": None, "ok": None, "msg": "", "raised": None}
    ort.InferenceSession.run = spy
    try:
        try:
            ok, msg = real.allclose(fn, path, list(c["xs"]), dict(c["params"]) or None, rtol=0.0, atol=0.0)
            res["ok"], res["msg"] = bool(ok), str(msg)
        except Exception as e:  # noqa: BLE001
            res["raised"] = type(e).__name__
            res["msg"] = str(e)[:200]
    finally:
        if "run" in vars(ort.InferenceSession):
            del ort.InferenceSession.run
        if ort.InferenceSession.run is not orig:
            ort.InferenceSession.run = orig
        try:
            os.remove(path)
        except OSError:
            pass
    if seen:
        res["feeds"] = seen[-1]
    return res


def judge_feed(chk: Check, c: dict, r: dict, hidden: Optional[dict], ans: str, fstat: dict) -> None:
    fstat["cases"] += 1
    replay = {"feed_case": {"tag": c["tag"], "metas": c["metas"], "xs": [enc_tensor(x) for x in c["xs"]],
                            "params": [[n, enc_tensor(v)] for n, v in c["params"]]},
              "real": {k: (v if k != "feeds" else ({n: model_tensor_str(a) for n, a in v.items()} if v else None))
                       for k, v in r.items()},
              "model": ans, "how": "harness/props/c18.py::replay"}
    if ans.startswith("error"):
        fstat["model_error"] += 1
        why = ans.split(" ")[1].split(":")[0]
        if why in ("undefinedCast", "complexPack"):
            fstat["outside_model"] += 1
            return
        # tooFew / tooMany: the real code must refuse as well (an Exception, never a verdict)
        if r["raised"] is None:
            chk.finding({"kind": "feed_count_not_refused", "why": why, "case": c["tag"]},
                        f"allclose accepts {why} positional inputs and returns {r['ok']}", replay)
            fstat["bad"] += 1
        return
    if r["raised"] is not None and r["feeds"] is None:
        # the real code refused a binding the model accepts: conservative side
        fstat["bad"] += 1
        chk.violation(dict(replay, correspondence="real feed construction raises where the model binds"),
                      no_failing_input=True)
        return
    shown, verdict = ans[3:].split(" | ")
    want = dict(t.split("=", 1) for t in shown.split(" ")) if shown else {}
    got = {n: model_tensor_str(a) for n, a in (r["feeds"] or {}).items()}
    if r["feeds"] is not None and got != want:
        fstat["bad"] += 1
        chk.finding({"kind": "feed_binding_differs", "case": c["tag"]},
                    "the feeds allclose hands to ONNX Runtime are not the model's binding of (inputs, input_params) "
                    f"to the graph inputs: real {got} vs {want}", replay)
        return
    fstat["feeds_equal"] += int(r["feeds"] is not None)
    v, agrees, same = verdict.split(" ")
    if r["raised"] is not None:
        fstat["ort_refused"] += 1           # ONNX Runtime itself rejected the feed (dtype it does not take)
        return
    if not v.startswith("unspecified") and (v == "match") != bool(r["ok"]):
        fstat["bad"] += 1
        if r["ok"] and agrees == "disagrees":
            chk.finding({"kind": "unsound_match", "case": c["tag"], "expected_kind": "feed", "got_kind": "feed"},
                        "allclose reports a match although the identity model returned other values than fn", replay)
        else:
            chk.violation(dict(replay, correspondence="verdict on the identity model differs from the model's"),
                          no_failing_input=True)
        return
    # oracle of the feed part: ORT must have been run on the values that were given
    if same == "coerced" and agrees == "disagrees":
        fstat["value_changing_coercions"] += 1
        if hidden is not None and hidden.get("ok"):
            worst = None
            it, kw = iter(c["xs"]), dict(c["params"])
            for m in c["metas"]:
                x = np.asarray(kw[m["name"]] if m["name"] in kw else next(it))
                xk = KIND_OF[x.dtype]
                with np.errstate(all="ignore"):
                    changed = xk != m["k"] and not np.array_equal(x.astype(NP[m["k"]]).astype(np.float64),
                                                                  x.astype(np.float64))
                if changed:
                    worst = cast_category(m["k"], xk)
                    break
            listed = chk.finding({"kind": "coerced_feed_changes_value", "cast": worst or "?"},
                                 "allclose casts an input to the graph input's dtype before feeding ONNX Runtime "
                                 "(value changed) and reports a match for fn = x.astype(dtype): the model was never "
                                 "run on the given input", dict(replay, hidden_fn="fn casts its arguments itself",
                                                                 hidden_real=[hidden.get("ok"), hidden.get("msg")]))
            fstat["coerced_listed" if listed else "coerced_unlisted"] += 1


# ----------------------------------------------------------------------------- T-tie: Gen/C18.lean

CODES = list(NP.keys())          # code = index: bool, i8..i64, u8..u64, f16..f64, c64, c128
GEN_MODS = ["J2O.GenProps.C18", "J2O.Props.C18Promo", "J2O.Props.C18Float", "J2O.Props.C18Exact"]   # everything that imports Gen/C18.lean


def tabulate(real: "Real") -> dict:
    """(1) numpy's can_cast("safe") / result_type on all 14x14 pairs of the ONNX tensor dtypes numpy knows;
    (2) for every (expected dtype, model-output dtype) pair ONNX Runtime can produce: the dtypes of the
    two operands the LIVE allclose hands to numpy's comparison and which comparison it uses — observed
    by spying on the public `numpy.allclose` / `isclose` / `array_equal` / `array_equiv` during a real call (no
    private name of /repo is involved; a row that cannot be observed is `none` and its obligation is vacuous)."""
    promo = []
    for a in CODES:
        for b in CODES:
            promo.append((CODES.index(a), CODES.index(b), bool(np.can_cast(NP[a], NP[b], casting="safe")),
                          CODES.index(KIND_OF[np.dtype(np.result_type(NP[a], NP[b]))])))
    seen: list = []
    # public numpy entry points a tolerance / exact comparison can go through (last call wins)
    spied = {"allclose": True, "isclose": True, "array_equal": False, "array_equiv": False}
    orig = {n: getattr(np, n) for n in spied}

    def make_spy(name, tol):
        f = orig[name]

        def spy(a, b, *args, **kw):
            try:
                seen.append((np.asarray(a).dtype, np.asarray(b).dtype, tol))
            except Exception:  # noqa: BLE001
                pass
            return f(a, b, *args, **kw)
        return spy

    spies = {n: make_spy(n, tol) for n, tol in spied.items()}

    operand = []
    for ek in CODES:
        for gk in CODES:
            row = None
            if gk not in CPLX_KINDS:
                e = np.ones((1,), NP[ek])
                g = np.ones((1,), NP[gk])
                del seen[:]
                for n, f in spies.items():
                    setattr(np, n, f)
                try:
                    ok, _ = real.run([e], [g], 1e-3, 1e-5, [])
                except Exception:
                    ok = None                    # ORT cannot produce this dtype from a Constant node
                finally:
                    for n, f in orig.items():
                        setattr(np, n, f)
                if ok is not None and seen and seen[-1][0] in KIND_OF and seen[-1][1] in KIND_OF:
                    l, r, tol = seen[-1]
                    row = (CODES.index(KIND_OF[l]), CODES.index(KIND_OF[r]), tol)
            operand.append((CODES.index(ek), CODES.index(gk), row))
    return {"promo": promo, "operand": operand}


def generate(tabs: Optional[dict] = None) -> dict:
    if tabs is None:
        real = Real()
        try:
            tabs = tabulate(real)
        finally:
            real.close()

    def prow(r):
        return f"({r[0]}, {r[1]}, {common.lean_bool(r[2])}, {r[3]})"

    def orow(r):
        o = "none" if r[2] is None else f"some ({r[2][0]}, {r[2][1]}, {common.lean_bool(r[2][2])})"
        return f"({r[0]}, {r[1]}, {o})"

    src = f"""/- GENERATED by harness/props/c18.py from numpy and the live /repo on every run — do not edit. -/
namespace J2O.Gen.C18

/-- dtype codes: {', '.join(f'{i}={k}' for i, k in enumerate(CODES))} -/
def codes : Nat := {len(CODES)}

/-- (a, b, `np.can_cast(a, b, casting="safe")`, code of `np.result_type(a, b)`) on all pairs -/
def promoTable : List (Nat × Nat × Bool × Nat) := {common.lean_list(map(prow, tabs['promo']), 6)}

/-- (expected dtype, model-output dtype, observed (dtype of lhs, dtype of rhs, tolerance comparison?) that the
    live `allclose` handed to `numpy.allclose` (true) / `numpy.array_equal` (false)); `none` = not observable
    (ONNX Runtime cannot produce that dtype from a Constant node) -/
def operandTable : List (Nat × Nat × Option (Nat × Nat × Bool)) := {common.lean_list(map(orow, tabs['operand']), 4)}

end J2O.Gen.C18
"""
    common.write_if_changed(common.LEAN / "J2O/Gen/C18.lean", src)
    return tabs


# ----------------------------------------------------------------------------- the check


def finding_key(ek: str, gk: str, lossy: bool, tag: str, exp=None, got=None) -> dict:
    if lossy:
        # since fix 61b87cb the only lossy step left is numpy's own promotion of 64-bit integers
        common = KIND_OF.get(np.dtype(np.result_type(NP[ek], NP[gk])), "?") if ek in NP and gk in NP else "?"
        if common == "f64" and ({ek, gk} & {"i64", "u64"}):
            cat = "int64_to_float64"
        else:
            cat = f"other:{cast_category(ek, gk)}"
        return {"kind": "lossy_promotion_before_compare", "cast": cat, "expected_kind": ek, "got_kind": gk,
                "common_kind": common}
    return {"kind": "unsound_match", "expected_kind": ek, "got_kind": gk, "case": tag}


def first_diff_kinds(exp: list, got: list) -> tuple[str, str]:
    for e, g in zip(exp, got):
        ek, gk = KIND_OF.get(np.asarray(e).dtype, "?"), KIND_OF.get(np.asarray(g).dtype, "?")
        if ek != gk:
            if klass(ek) == "complex" and klass(gk) == "float":
                gk = {"f32": "c64", "f64": "c128", "f16": "c64"}[gk]
                if ek == gk:
                    continue
            return ek, gk
    e, g = np.asarray(exp[0]), np.asarray(got[0])
    return KIND_OF.get(e.dtype, "?"), KIND_OF.get(g.dtype, "?")


def judge(chk: Check, tag: str, real_ok: bool, real_msg: str, answer: str, replay: dict,
          exp: list, got: list, stats: dict) -> None:
    """Compare one case: real verdict vs model verdict (two-sided) and vs the exact spec."""
    verdict, agrees, lossless = answer.split(" ")
    model_ok = verdict == "match"
    spec_ok = agrees == "agrees"
    lossy = lossless == "lossy"
    real_class = classify_msg(real_ok, real_msg)
    stats["cases"] += 1
    stats["real_match"] += int(real_ok)
    stats["spec_agrees"] += int(spec_ok)
    stats["lossy"] += int(lossy)
    if verdict.startswith("unspecified"):
        stats["unspecified"] += 1
    elif real_class == verdict:
        stats["reason_agree"] += 1
    ek, gk = first_diff_kinds(exp, got)
    replay = dict(replay, real=[real_ok, real_msg], model=answer)
    # --- oracle: the property itself
    if real_ok and not spec_ok:
        if model_ok or verdict.startswith("unspecified"):
            key = finding_key(ek, gk, lossy, tag, exp, got)
        else:
            key = {"kind": "unsound_match_not_explained_by_model", "expected_kind": ek, "got_kind": gk, "case": tag}
        listed = chk.finding(key, f"allclose reports a match for outputs that do not agree ({tag}: expected "
                                  f"{ek}, model output {gk})", replay)
        stats["unsound_listed" if listed else "unsound_unlisted"] += 1
    # --- correspondence (two-sided)
    if not verdict.startswith("unspecified") and model_ok != real_ok:
        stats["disagreements"] += 1
        if not (real_ok and not spec_ok):       # the unsound side was already reported above
            chk.violation(dict(replay, correspondence="model of _run_allclose and the real allclose disagree; "
                               "the real verdict is on the conservative side (reports a mismatch for outputs the "
                               "specification accepts)" if spec_ok else "model and real allclose disagree"),
                          name=None, no_failing_input=True)


def promoted(e: np.ndarray, g: np.ndarray) -> tuple[np.ndarray, np.ndarray]:
    """numpy's promotion as `_comparison_operands` applies it (used only to compute the boundary
    margin in the dtype the comparison is carried out in)."""
    if e.dtype == g.dtype:
        return e, g
    with np.errstate(all="ignore"):
        if np.can_cast(g.dtype, e.dtype, casting="safe"):
            return e, g.astype(e.dtype)
        c = np.result_type(e.dtype, g.dtype)
        return e.astype(c), g.astype(c)


def overwrite_histories(rng: common.Rng, thorough: bool) -> list[list["Case"]]:
    """Sequences of (expected, got) pairs validated one after the other against ONE model path whose
    file is overwritten in place between the calls: match → perturbed → match → other shape → …"""
    out = []
    for kind in (["f32", "i32"] if not thorough else ["f32", "i32", "f64", "bool", "i64"]):
        e = rep_values(kind, rng, 6).reshape(2, 3)
        moved = e.copy().reshape(-1)
        moved[rng.randint(0, 5)] = (not moved[0]) if kind == "bool" else moved[rng.randint(0, 5)] + 3
        moved = moved.reshape(2, 3)
        if np.array_equal(moved, e):
            moved = moved.copy(); moved[0, 0] = e[0, 0] + 5
        seq = [("same", [e], [e.copy()]), ("moved", [e], [moved]), ("same-again", [e], [e.copy()]),
               ("reshaped", [e], [e.reshape(3, 2).copy()]), ("extra-output", [e], [e.copy(), e.copy()]),
               ("same-third", [e], [e.copy()]), ("moved-again", [e], [moved.copy()])]
        out.append([Case(x, g, 1e-3, 1e-5, tag=f"overwrite/{kind}/A{i}-{name}") for i, (name, x, g) in enumerate(seq)])
        # … and starting from a mismatching file that is then repaired
        seq_b = [seq[1], seq[0], seq[3], seq[2]]
        out.append([Case(x, g, 1e-3, 1e-5, tag=f"overwrite/{kind}/B{i}-{name}") for i, (name, x, g) in enumerate(seq_b)])
    return out


def near_boundary(c: "Case") -> bool:
    """closer to the tolerance boundary than floating-point evaluation resolves?"""
    for e, g in zip(c.exp, c.got):
        e, g = np.asarray(e), np.asarray(g)
        if e.shape != g.shape or e.dtype.kind == "c" or g.dtype.kind == "c":
            continue
        lhs, rhs = promoted(e, g)
        lk = KIND_OF.get(lhs.dtype, "f64")
        comp = lk if lk in FLT_KINDS else "f64"
        m = exact_margin(lhs, rhs, c.rtol, c.atol)
        if m is not None and m < MARGIN[comp]:
            return True
    return False


def promotion_table():
    """numpy's can_cast("safe") / result_type on the whole dtype table vs the model's
    canCastSafe / resultKind.  Returns (driver lines, finish(answers))."""
    kinds = list(NP.keys())
    pairs = [(a, b) for a in kinds for b in kinds]
    lines = [json.dumps({"op": "promote", "a": a, "b": b}) for a, b in pairs]

    def finish(answers: list[str], chk: Check) -> None:
        bad = []
        for (a, b), ans in zip(pairs, answers):
            want = f"{'true' if np.can_cast(NP[a], NP[b], casting='safe') else 'false'} " \
                   f"{KIND_OF[np.dtype(np.result_type(NP[a], NP[b]))]}"
            if ans != want:
                bad.append({"a": a, "b": b, "numpy": want, "model": ans})
        chk.info("promotion_table_validation", {"pairs": len(pairs), "mismatches": len(bad)})
        chk.add("traces_validated_against_impl", len(pairs))
        if bad:
            raise RuntimeError(f"promotion model disagrees with numpy can_cast/result_type: {bad[:6]}")

    return lines, finish


def chk_has_findings(chk: Check) -> bool:
    """did this run print a VIOLATION already?"""
    for attr in ("violations", "n_violations"):
        v = getattr(chk, attr, None)
        if isinstance(v, int):
            return v > 0
        if isinstance(v, (list, tuple)):
            return len(v) > 0
    return False


def run(chk: Check) -> None:
    rng = common.Rng(chk.seed)
    thorough = chk.tier == "thorough"
    # T-tie: regenerate Gen/C18.lean from numpy and the live code, then build everything
    real = Real()
    try:
        tabs = generate(tabulate(real))
    finally:
        real.close()
    chk.info("gen_tables", {"promo_rows": len(tabs["promo"]), "operand_rows": len(tabs["operand"]),
                            "operand_rows_observed": sum(1 for r in tabs["operand"] if r[2] is not None)})
    proved = chk.prove(MODS + GEN_MODS, checker=thorough)
    gen_broken = False
    if not proved:
        # the hand-written modules contain no generated source: if THEY do not build it is an infrastructure
        # problem of the check; if only the obligations about the regenerated tables break, the live code
        # (or numpy) left the model: go on and search the real code for a failing input
        try:
            common.lean_build(MODS)
        except common.LeanBuildError:
            raise RuntimeError(f"Lean obligations of C18 do not build: {getattr(chk, 'broken', [])}")
        if not all(str(b).startswith("J2O.") for b in getattr(chk, "broken", [])):
            raise RuntimeError(f"Lean audit of C18 failed: {getattr(chk, 'broken', [])}")
        gen_broken = True
        chk.log("obligations about the regenerated tables are BROKEN: " + "; ".join(getattr(chk, "broken", [])))

    # every request to the Lean driver is collected first and answered in ONE driver process
    requests: list[tuple[str, Any]] = []

    cast_lines, cast_finish = cast_sweep(chk, rng, thorough)
    n_cast = len(cast_lines)
    requests += [(l, None) for l in cast_lines]
    prom_lines, prom_finish = promotion_table()
    n_prom = len(prom_lines)
    requests += [(l, None) for l in prom_lines]

    real = Real()
    stats = {k: 0 for k in ["cases", "real_match", "spec_agrees", "lossy", "unspecified", "reason_agree",
                            "disagreements", "unsound_listed", "unsound_unlisted", "dropped_near_boundary",
                            "skipped_ort"]}
    tags: dict[str, int] = {}
    try:
        # ---- systematic perturbations through the REAL allclose
        for c in gen_cases(rng, thorough):
            if near_boundary(c):
                stats["dropped_near_boundary"] += 1
                continue
            try:
                ok, msg = real.run(c.exp, c.got, c.rtol, c.atol, c.nchw, via_jax=c.via_jax)
            except Exception as e:  # ORT cannot load / run this constant model
                stats["skipped_ort"] += 1
                chk.log(f"skipped {c.tag}: {type(e).__name__}: {str(e)[:120]}")
                continue

            def handle(ans: str, c=c, ok=ok, msg=msg) -> None:
                if ans.startswith("bad"):
                    raise RuntimeError(f"driver rejected case {c.tag}: {ans}")
                fam = c.tag.split("/")[0]
                tags[fam] = tags.get(fam, 0) + 1
                chk.count({"tag": c.tag, "rtol": c.rtol, "atol": c.atol, "nchw": c.nchw,
                           "expected": [enc_tensor(e) for e in c.exp][:2],
                           "got": [enc_tensor(g) for g in c.got][:2], "real": ok, "model": ans},
                          nontrivial=(fam != "identity"))
                judge(chk, c.tag, ok, msg, ans, {"case": c.describe(), "how": "harness/props/c18.py::replay"},
                      c.exp, c.got, stats)

            requests.append((cmp_line(c.exp, c.got, c.rtol, c.atol, c.nchw), handle))

        # ---- histories on ONE path inside this process: validate, overwrite the file in place, validate
        # again ... — every call must judge the model stored at the path at call time
        for hi, hist in enumerate(overwrite_histories(rng, thorough)):
            path = os.path.join(real.dir, f"overwritten_{hi}.onnx")
            descr = [{"tag": c.tag, "rtol": c.rtol, "atol": c.atol, "expected": [enc_tensor(e) for e in c.exp],
                      "got": [enc_tensor(g) for g in c.got]} for c in hist]
            for k, c in enumerate(hist):
                ok, msg = real.run_at(path, c.exp, c.got, c.rtol, c.atol)

                def handle_h(ans: str, c=c, ok=ok, msg=msg, k=k, descr=descr) -> None:
                    tags["overwrite"] = tags.get("overwrite", 0) + 1
                    chk.count({"tag": c.tag, "step": k, "real": ok, "model": ans}, nontrivial=True)
                    judge(chk, c.tag, ok, msg, ans,
                          {"overwrite_history": descr, "step": k,
                           "how": "harness/props/c18.py::replay (re-runs all steps on one path in one process)"},
                          c.exp, c.got, stats)

                requests.append((cmp_line(c.exp, c.got, c.rtol, c.atol, c.nchw), handle_h))

        # ---- real exported models, perturbed; feed construction
        plines, precs = program_cases(chk, rng, real, thorough)
        for line, r in zip(plines, precs):
            def handle_p(ans: str, r=r) -> None:
                chk.count({"tag": r["tag"], "real": r["real"][0], "model": ans}, nontrivial=True)
                chk.add("programs", 1)
                judge(chk, r["tag"], r["real"][0], r["real"][1], ans,
                      {"case": {"tag": r["tag"], "rtol": r["rtol"], "atol": r["atol"],
                                "expected": [enc_tensor(e) for e in r["exp"]],
                                "got": [enc_tensor(g) for g in r["got"]]},
                       "how": "perturbed copy of a real export; see harness/props/c18.py::program_cases"},
                      r["exp"], r["got"], stats)
            requests.append((line, handle_p))

        # ---- feed construction: by-name / by-position binding and dtype coercion
        fstat = {k: 0 for k in ["cases", "model_error", "outside_model", "feeds_equal", "ort_refused", "bad",
                                "value_changing_coercions", "coerced_listed", "coerced_unlisted"]}
        for c in feed_cases(rng, thorough):
            r = feed_real(c, real)
            hidden = feed_real(c, real, hide=True) if "/lossy/" in c["tag"] else None

            def handle_f(ans: str, c=c, r=r, hidden=hidden) -> None:
                if ans.startswith("bad"):
                    raise RuntimeError(f"driver rejected feed case {c['tag']}: {ans}")
                chk.count({"tag": c["tag"], "metas": c["metas"], "n_xs": len(c["xs"]),
                           "params": [n for n, _ in c["params"]], "real_ok": r["ok"], "raised": r["raised"],
                           "model": ans[:200]}, nontrivial=True)
                judge_feed(chk, c, r, hidden, ans, fstat)
            requests.append((feed_line(c), handle_f))

        # ---- x64 flag: events inside fn (every exception class incl. BaseException subclasses, toggles)
        xstat = {"n": 0, "bad": 0, "base_exits": 0, "injected_calls": 0, "injection_not_fired": 0}

        def x64_key(c: dict) -> dict:
            key = {"kind": "x64_flag_not_restored", "api": c["api"], "body": c["body"],
                   "flag": c["flag"], "enable_double_precision": c["en"]}
            if c.get("exc") and c["exc"] != "RuntimeError":
                key["exc"] = c["exc"]
            if c.get("at", "fn") != "fn":
                key["at"] = "call"
            return key

        for c in x64_cases(rng, thorough):
            after, how, info = x64_real(c, real)

            def handle_x(ans: str, c=c, after=after, how=how, info=info) -> None:
                m_after, m_how = ans.split(" ")
                m_after = m_after == "true"
                xstat["n"] += 1
                xstat["base_exits"] += int(how == "base")
                chk.count({"x64": c, "flag_after": after, "exit": how, "model": ans},
                          nontrivial=c["body"] != "ok")
                if after != c["flag"]:
                    xstat["bad"] += 1
                    chk.finding(x64_key(c), f"{c['api']} leaves jax_enable_x64={after} (was {c['flag']}) when it is "
                                f"left by {info.get('exception')} ({how}) raised inside fn", {"x64_case": c})
                elif (after, how) != (m_after, m_how):
                    xstat["bad"] += 1
                    chk.violation({"x64_case": c, "real": [after, how], "model": ans,
                                   "correspondence": "x64 program model and real code disagree (flag restored)"},
                                  no_failing_input=True)
            requests.append((json.dumps(x64_prog(c)), handle_x))

        # ---- x64 flag: a BaseException at the k-th call of any jax2onnx function inside the API call
        for c in x64_injection_cases(rng, real, thorough):
            after, how, info = x64_real(c, real)
            prog = x64_prog(dict(c, body="ok", exc=None))
            prog["inject"] = 0

            def handle_i(ans: str, c=c, after=after, how=how, info=info) -> None:
                m_after = ans.split(" ")[0] == "true"
                xstat["injected_calls"] += 1
                if info.get("fired") is None:
                    xstat["injection_not_fired"] += 1     # call count differs between runs (caches): no observation
                    return
                chk.count({"x64_injection": c, "fired": info["fired"], "flag_after": after, "exit": how},
                          nontrivial=True)
                xstat["base_exits"] += int(how == "base")
                if after != c["flag"] or m_after != c["flag"]:
                    xstat["bad"] += 1
                    chk.finding(x64_key(c), f"{c['api']} leaves jax_enable_x64={after} (was {c['flag']}) when "
                                f"{c['exc']} is raised {c['at']['when']} call #{c['at']['call']} ({info['fired']})",
                                {"x64_case": c, "fired": info["fired"]})
            requests.append((json.dumps(prog), handle_i))
    finally:
        real.close()

    answers = common.run_driver("C18", [l for l, _ in requests])
    cast_finish(answers[:n_cast])
    prom_finish(answers[n_cast:n_cast + n_prom], chk)
    for (_, h), ans in zip(requests[n_cast + n_prom:], answers[n_cast + n_prom:]):
        h(ans)
    chk.info("case_families", tags)
    chk.info("x64_cases", xstat)
    chk.info("feed_cases", fstat)
    if gen_broken and not chk_has_findings(chk):
        chk.violation({"broken": getattr(chk, "broken", []),
                       "what": "obligations about the regenerated promotion / operand tables (GenProps/C18.lean) do "
                               "not hold for the live code, but no generated case shows a wrong verdict"},
                      name="obligation-broken", no_failing_input=True)
    chk.info("real_allclose_raised_instead_of_returning", real.raised)

    chk.info("tie", stats)
    chk.add("traces_validated_against_impl", stats["cases"])
    chk.info("disagreements_checked", stats["disagreements"])
    chk.assumptions += [
        "ONNX Runtime executes the stored model faithfully (not modelled)",
        "numpy evaluates |x-y| <= atol + rtol*|y| in floating point; the model is exact; cases within "
        "a relative margin (f16 1/24, f32 2^-12, f64 2^-30) of the boundary are not generated",
        "tolerances are non-negative",
        "complex modulus comparison is written sqrt-free (proved equivalent over the reals: modulusLe_iff_real)",
        "float->int casts of NaN/inf/out-of-range values are C-undefined: model answers 'unspecified'",
        "jax.config.update itself does not raise; no interrupt arrives inside the finally clause of "
        "_temporary_x64 itself (injection points are call boundaries of jax2onnx functions and fn)",
    ]
    chk.coverage["rule"] = (
        "seeded systematic perturbations of matching (expected, got) pairs: single element just inside/outside "
        "the tolerance on both sides, off-by-one integers, dtype(-class) changes with equal and moved values, "
        "lossy casts, shape changes incl. broadcast-compatible ones, output count/order changes, NaN/inf "
        "placement, NCHW flag, complex repack, perturbed copies of a real export, feed wiring; every case is "
        "run through the real allclose and the Lean driver. Feed construction: seeded identity models with 1-3 "
        "graph inputs (names, order, keyword subset, declared vs given dtype, positional count) - the feed dict "
        "ONNX Runtime receives vs bindFeeds. x64: fn events x every exception class incl. BaseException "
        "subclasses, and a BaseException at every call boundary inside allclose / a sample inside to_onnx. "
        "non-trivial = not an identity pair; distinct = distinct (case, verdicts) records")
    chk.coverage["exhaustive"] = False


def replay(path: str) -> int:
    """Re-run the stored case through the real allclose and the Lean driver."""
    rep = json.loads(open(path).read())
    print(json.dumps({k: rep[k] for k in rep if k not in ("case",)}, indent=1)[:2000])
    if "x64_case" in rep:
        real = Real()
        try:
            after, how, info = x64_real(rep["x64_case"], real)
        finally:
            real.close()
        print("flag after:", after, "exit:", how, info)
        return 1 if after != rep["x64_case"]["flag"] else 0
    def dec(t):
        dt = NP[t["k"]]

        def one(v):
            if isinstance(v, list):
                return complex(one(v[0]), one(v[1]))
            if v in ("nan", "inf", "-inf"):
                return float(v)
            return float(Fraction(v)) if t["k"] in FLT_KINDS + CPLX_KINDS else int(Fraction(v))
        return np.array([one(v) for v in t["v"]], dtype=dt).reshape(t["s"])

    if "feed_case" in rep:
        fc = rep["feed_case"]
        c = {"tag": fc["tag"], "metas": fc["metas"], "xs": [dec(t) for t in fc["xs"]],
             "params": [(n, dec(t)) for n, t in fc["params"]]}
        real = Real()
        try:
            r = feed_real(c, real)
            hidden = feed_real(c, real, hide=True)
        finally:
            real.close()
        ans = common.run_driver("C18", [feed_line(c)])[0]
        got = {n: model_tensor_str(a) for n, a in (r["feeds"] or {}).items()}
        print("given: xs =", [model_tensor_str(x) for x in c["xs"]], "params =",
              {n: model_tensor_str(v) for n, v in c["params"]})
        print("fed to ONNX Runtime:", got, "| allclose(fn = identity):", r["ok"], r["raised"], r["msg"][:100])
        print("allclose(fn = x.astype(declared dtype)):", hidden["ok"], hidden["msg"][:100])
        print("model:", ans)
        if ans.startswith("error"):
            return 1 if r["raised"] is None else 0
        want = dict(t.split("=", 1) for t in ans[3:].split(" | ")[0].split(" ") if t)
        if r["feeds"] is not None and got != want:
            return 1
        return 1 if (hidden["ok"] and ans.endswith("disagrees coerced")) else 0
    if "overwrite_history" in rep:
        real = Real()
        bad = 0
        try:
            path = os.path.join(real.dir, "overwritten.onnx")
            for k, st in enumerate(rep["overwrite_history"]):
                exp = [dec(t) for t in st["expected"]]
                got = [dec(t) for t in st["got"]]
                ok, msg = real.run_at(path, exp, got, st["rtol"], st["atol"])
                ans = common.run_driver("C18", [cmp_line(exp, got, st["rtol"], st["atol"], [])])[0]
                flag = (ans.split()[0] == "match") != ok
                bad += int(flag)
                print(f"step {k} {st['tag']}: real={ok} model/spec={ans}{'   <-- DISAGREE' if flag else ''}")
        finally:
            real.close()
        return 1 if bad else 0
    case = rep.get("case")
    if not case or "expected" not in case:
        return 0

    def dec(t):
        dt = NP[t["k"]]
        def one(v):
            if isinstance(v, list):
                return complex(one(v[0]), one(v[1]))
            if v in ("nan", "inf", "-inf"):
                return float(v)
            return float(Fraction(v)) if t["k"] in FLT_KINDS + CPLX_KINDS else int(Fraction(v))
        return np.array([one(v) for v in t["v"]], dtype=dt).reshape(t["s"])

    exp = [dec(t) for t in case["expected"]]
    got = [dec(t) for t in case["got"]]
    real = Real()
    try:
        ok, msg = real.run(exp, got, case["rtol"], case["atol"], case.get("nchw", []))
    finally:
        real.close()
    ans = common.run_driver("C18", [cmp_line(exp, got, case["rtol"], case["atol"], case.get("nchw", []))])[0]
    print("real allclose:", ok, msg)
    print("model / spec :", ans)
    return 1 if (ok and "disagrees" in ans) or ((ans.split()[0] == "match") != ok and "unspecified" not in ans) else 0
