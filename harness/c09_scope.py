"""C09 round 2, tie T for the remaining constant entry points: the REAL child contexts
(`FunctionScope(parent).ctx`, `make_subgraph_context(parent)`), constants pushed through them, `const_i64`,
and the IR-dtype -> numpy-dtype map `ir_dtype_to_numpy`, tabulated into lean/J2O/Gen/C09Scope.lean.
`H` is the harness/props/c09.py module."""
from __future__ import annotations

import json

import numpy as np

from common import LEAN, lean_bool, lean_list, lean_str, write_if_changed

KINDS = ["fn", "sub", "subkeep"]
PATHS = [[]] + [[a] for a in KINDS] + [[a, b] for a in KINDS for b in KINDS] + \
        [["sub", "fn", "sub"], ["fn", "sub", "fn"], ["subkeep", "fn", "subkeep"], ["fn", "fn", "sub"]]
SITE_PATHS = [[], ["fn"], ["sub"], ["subkeep"], ["fn", "sub"], ["sub", "fn"], ["subkeep", "fn"], ["fn", "subkeep"]]


def _child(parent, kind: str):
    from jax2onnx.converter.function_scope import FunctionScope
    from jax2onnx.plugins.jax.lax._control_flow_utils import make_subgraph_context
    if kind == "fn":
        return FunctionScope(parent, name="F", domain="verif").ctx
    c = make_subgraph_context(parent, prefix="body")
    if kind == "subkeep":          # what the scan plugin does for a float32-only body
        setattr(c, "_keep_function_float32", True)
    return c


def _root(flag: bool):
    from jax2onnx.converter.ir_context import IRContext
    return IRContext(opset=21, enable_double_precision=flag, input_specs=[])


def _descend(flag: bool, path: list):
    c = _root(flag)
    for k in path:
        c = _child(c, k)
    return c


def _state(c) -> tuple:
    return (bool(c.builder.enable_double_precision), bool(getattr(c, "enable_double_precision", c.builder.enable_double_precision)),
            bool(c._function_mode), bool(c.builder._function_mode), bool(getattr(c, "_keep_function_float32", False)))


def tabulate_scope(H) -> dict:
    import jax
    import onnx_ir as ir
    from jax.extend import core as jcore_ext
    from jax2onnx.ir_utils import ir_dtype_to_numpy
    tabs: dict[str, list] = {}
    # 1. one step: every parent state x child kind (parent states set on a real IRContext)
    rows = []
    for flag in (False, True):
        for fm in (False, True):
            for keep in (False, True):
                for kind in ("fn", "sub"):
                    st = _state(_child(H._mk_ctx(flag, fm, keep), kind))
                    rows.append((kind, flag, fm, keep) + st)
    tabs["ctx"] = rows
    # 2. chains of real constructions from a real root
    tabs["chain"] = []
    for flag in (False, True):
        for path in PATHS:
            st = _state(_descend(flag, path))
            tabs["chain"].append((flag, tuple(path), st[0] and st[1], st[2] and st[3], st[4], st[0] == st[1] and st[2] == st[3]))
    # 3. constants through the real child contexts
    site, i64 = [], []
    third = 1.0 / 3.0
    for flag in (False, True):
        for path in SITE_PATHS:
            def ctx():
                return _descend(flag, path)
            def rec(kind, aval, srcb, v, src):
                H._post(v, flag)
                arr, code, node = H._value_payload(v)
                site.append((tuple(path), flag, kind, aval, srcb, H._bits(arr.dtype), code, node, H._exact(arr, src)))
            for aval in (0, 32, 64):
                for srcb in (32, 64):
                    src = np.asarray(H.PROBE, dtype=np.float64).astype(H._np_of(srcb))
                    c = ctx()
                    rec("closure", aval, srcb, c.bind_const_for_var(
                        H._FakeVar(H._np_of(aval)) if aval else H._FakeVar(), src.copy()), src)
            for srcb, val in ((64, 0.1), (32, np.float32(0.1))):
                c = ctx()
                rec("hscalar", 0, srcb, c.builder.add_initializer_from_scalar(c.fresh_name("h"), val), np.asarray(val))
            for srcb in (32, 64):
                src = np.asarray(H.PROBE, dtype=H._np_of(srcb))
                c = ctx()
                rec("harray", 0, srcb, c.builder.add_initializer_from_array(c.fresh_name("h"), src.copy()), src)
            for dt in (32, 64):
                c = ctx()
                rec("hbind", 0, dt, c.bind_const_for_var(object(), np.asarray(third, dtype=H._np_of(dt))),
                    np.asarray(third))
            for aval in (32, 64):
                c = ctx()
                var = jcore_ext.Literal(0.1, jax.core.ShapedArray((), np.dtype(H._np_of(aval)), weak_type=True))
                rec("kw", aval, 64, c._bind_literal_value_for_var(var), np.asarray(0.1))
            c = ctx()
            v = c.builder.const_i64(c.fresh_name("shape"), [3, 4])
            H._post(v, flag)
            arr, code, node = H._value_payload(v)
            i64.append((tuple(path), flag, arr.dtype.name, code, node))
    tabs["site"] = site
    tabs["i64"] = i64
    # 4. ir_dtype_to_numpy on its domain
    xs = [("none", 0, None), ("obj", 0, object())]
    for code in (1, 10, 11, 7, 9, 16, 6):
        xs.append(("ir", code, ir.DataType(code)))
        xs.append(("int", code, code))
    for b in (16, 32, 64):
        xs.append(("np", {16: 10, 32: 1, 64: 11}[b], np.dtype(H._np_of(b))))
    irnp = []
    for (xk, xc, x) in xs:
        for dl, d in (("none", None), ("float32", np.dtype(np.float32)), ("float64", np.dtype(np.float64)), ("omitted", "omitted")):
            try:
                r = ir_dtype_to_numpy(x) if dl == "omitted" else ir_dtype_to_numpy(x, default=d)
                rl = "none" if r is None else np.dtype(r).name
            except Exception as e:
                rl = "raises:" + type(e).__name__
            irnp.append((xk, xc, dl, rl))
    tabs["irnp"] = irnp
    return tabs


def generate_scope(tabs: dict) -> None:
    b = lean_bool

    def strs(xs):
        return "[" + ", ".join(lean_str(x) for x in xs) + "]"

    src = f"""/- GENERATED by harness/c09_scope.py from /repo on every run — do not edit. -/
namespace J2O.Gen.C09Scope

/-- One real child-context construction: kind "fn" = `FunctionScope(parent).ctx`, "sub" =
    `make_subgraph_context(parent)`; parent (flag, function mode, keep-float32) and the child's
    builder flag, context flag, context function mode, builder function mode, keep-float32. -/
structure CtxRow where
  kind : String
  pflag : Bool
  pfm : Bool
  pkeep : Bool
  cbflag : Bool
  cflag : Bool
  cfm : Bool
  cbfm : Bool
  ckeep : Bool
  deriving Repr, DecidableEq

def ctxTable : List CtxRow := {lean_list((f"⟨{lean_str(r[0])}, {b(r[1])}, {b(r[2])}, {b(r[3])}, {b(r[4])}, {b(r[5])}, {b(r[6])}, {b(r[7])}, {b(r[8])}⟩" for r in tabs['ctx']), 2)}

/-- (root flag, nesting path of real constructions, flag, function mode, keep-float32, builder and
    context agree) at the end of the chain; "subkeep" = subgraph whose keep-float32 was switched on. -/
def chainTable : List (Bool × List String × Bool × Bool × Bool × Bool) := {lean_list((f"({b(r[0])}, {strs(r[1])}, {b(r[2])}, {b(r[3])}, {b(r[4])}, {b(r[5])})" for r in tabs['chain']), 2)}

/-- One constant bound through a REAL child context and post-processed (bit widths, 0 = absent). -/
structure SiteRow where
  path : List String
  flag : Bool
  kind : String
  aval : Nat
  src : Nat
  out : Nat
  code : Nat
  node : Bool
  exact : Bool
  deriving Repr, DecidableEq

def siteTable : List SiteRow := {lean_list((f"⟨{strs(r[0])}, {b(r[1])}, {lean_str(r[2])}, {r[3]}, {r[4]}, {r[5]}, {r[6]}, {b(r[7])}, {b(r[8])}⟩" for r in tabs['site']), 2)}

/-- `const_i64` through every real context: (path, flag, stored dtype, declared code, Constant node?) -/
def i64Table : List (List String × Bool × String × Nat × Bool) := {lean_list((f"({strs(r[0])}, {b(r[1])}, {lean_str(r[2])}, {r[3]}, {b(r[4])})" for r in tabs['i64']), 2)}

/-- `ir_dtype_to_numpy(x, default=d)`: (kind of x: none | obj | ir (DataType) | int | np (dtype), ONNX code of x
    or 0, default: none | float32 | float64 | omitted, result dtype name or "none") -/
def irnpTable : List (String × Nat × String × String) := {lean_list((f"({lean_str(r[0])}, {r[1]}, {lean_str(r[2])}, {lean_str(r[3])})" for r in tabs['irnp']), 3)}

end J2O.Gen.C09Scope
"""
    write_if_changed(LEAN / "J2O/Gen/C09Scope.lean", src)


CODE_NAME = {1: "float32", 10: "float16", 11: "float64"}


def row_violations_scope(tabs: dict) -> list[dict]:
    """Python mirror of GenProps/C09Scope.lean: the rows (= concrete calls of real /repo functions) that
    contradict an obligation."""
    bad = []
    dbl = lambda c: c in (11, 15)
    for r in tabs["ctx"]:
        (kind, pflag, pfm, pkeep, cbflag, cflag, cfm, cbfm, ckeep) = r
        if cbflag != pflag or cflag != pflag:
            bad.append({"obligation": "ctx_flag_inherited", "table": "ctx", "row": list(r)})
        want_keep = False if kind == "fn" else pkeep
        if not (cfm and cbfm) or ckeep != want_keep:
            bad.append({"obligation": "ctx_rows_match_child", "table": "ctx", "row": list(r)})
    for r in tabs["chain"]:
        (flag, path, cflag, cfm, ckeep, agree) = r
        keep = False
        for k in path:
            keep = False if k == "fn" else (True if k == "subkeep" else keep)
        if cflag != flag or not agree or cfm != bool(path) or ckeep != keep:
            bad.append({"obligation": "chain_rows_match_descend", "table": "chain", "row": [flag, list(path), cflag, cfm, ckeep, agree]})
    for r in tabs["site"]:
        (path, flag, kind, aval, src, out, code, node, exact) = r
        row = [list(path)] + list(r[1:])
        immune = kind in ("hscalar", "harray", "kw")
        if not flag and aval != 64 and (src != 64 or immune) and (out == 64 or dbl(code)):
            bad.append({"obligation": "site_single_no_double", "table": "site", "row": row})
        if flag and aval in (0, 64) and (kind != "hbind" or src == 64):
            if not exact or src > out or (kind in ("closure", "hbind", "kw", "harray") and (out != 64 or code != 11)):
                bad.append({"obligation": "site_double_exact", "table": "site", "row": row})
        if node != bool(path):
            bad.append({"obligation": "site_container", "table": "site", "row": row})
    for r in tabs["i64"]:
        if r[2] != "int64" or r[3] != 7:
            bad.append({"obligation": "consti64_rows", "table": "i64", "row": [list(r[0])] + list(r[1:])})
    for r in tabs["irnp"]:
        (xk, xc, dl, rl) = r
        if xk == "none" and dl != "omitted" and rl != dl:
            bad.append({"obligation": "irnp_missing_is_default", "table": "irnp", "row": list(r)})
        if xk in ("ir", "int", "np") and xc in CODE_NAME and rl != CODE_NAME[xc]:
            bad.append({"obligation": "irnp_float_roundtrip", "table": "irnp", "row": list(r)})
    return bad


ROW_CALL = {
    "ctx": "fn=FunctionScope(parent).ctx sub=make_subgraph_context(parent); row=(kind, parent flag, parent function_mode, "
           "parent keep_float32, child builder flag, child flag, child function_mode, child builder function_mode, child keep)",
    "chain": "nested real constructions from IRContext(enable_double_precision=flag); row=(flag, path, flag, function_mode, "
             "keep_float32, builder==context)",
    "site": "constant through the context at the end of `path`: closure=bind_const_for_var(var, arr) hscalar="
            "add_initializer_from_scalar harray=add_initializer_from_array hbind=bind_const_for_var(object(), "
            "np.asarray(1/3, dtype)) kw=_bind_literal_value_for_var(weak Python float literal); row=(path, flag, kind, "
            "aval bits, source bits, stored bits, declared code, Constant node?, values exact?)",
    "i64": "IRBuilder.const_i64(name, [3, 4]); row=(path, flag, stored dtype, declared code, Constant node?)",
    "irnp": "ir_dtype_to_numpy(x, default=d); row=(kind of x, ONNX code of x, default, result)",
}


def _src_json(kind: str, aval: int, src: int) -> dict:
    fk = {0: "none", 16: "f16", 32: "f32", 64: "f64"}
    if kind == "closure":
        return {"k": "closure", "aval": fk[aval], "arr": fk[src]}
    if kind in ("hscalar", "harray"):
        return {"k": "hscalar", "src": fk[src]}
    if kind == "hbind":
        return {"k": "hbind", "dt": fk[src]}
    if kind == "kw":
        return {"k": "kw", "aval": fk[aval]}
    raise ValueError(kind)


def site_request(flag: bool, path: list, kind: str, aval: int, src: int) -> str:
    return json.dumps({"op": "site", "flag": flag, "path": list(path), "src": _src_json(kind, aval, src)})


def model_drift_scope(H, tabs: dict) -> dict:
    """Two-sided comparison of the live rows with the hand model (`child`, `descend`, `Site.bound`,
    `irToNp`) through the driver."""
    import common
    fk = {0: "none", 16: "f16", 32: "f32", 64: "f64"}
    lines, want = [], []
    for r in tabs["chain"]:
        lines.append(json.dumps({"op": "ctx", "flag": r[0], "path": list(r[1])}))
        want.append(("chain", r, f"flag={int(r[2])} fm={int(r[3])} keep={int(r[4])}"))
    for r in tabs["site"]:
        (path, flag, kind, aval, src, out, code, node, exact) = r
        lines.append(site_request(flag, path, kind, aval, src))
        want.append(("site", r, (code, fk[out], node)))
    for r in tabs["irnp"]:
        (xk, xc, dl, rl) = r
        if dl == "omitted" or xk == "obj" or rl.startswith("raises"):
            continue
        lines.append(json.dumps({"op": "irnp", "code": (xc if xk != "none" else None), "default": dl}))
        want.append(("irnp", r, rl))
    ans = common.run_driver("C09", lines)
    diffs = []
    nm = {"float16": "f16", "float32": "f32", "float64": "f64", "none": "none"}
    for (tab, row, w), a in zip(want, ans):
        if tab == "chain":
            ok = a == w
        elif tab == "site":
            parts = dict(p.split("=") for p in a.split())
            pre = parts["path"].split(">")[-1]
            mcode = 11 if (row[1] and pre == "f32") else int(parts["code"])
            ok = (mcode, parts["final"], parts["node"] == "true") == w
            pth = parts["path"].split(">") + [parts["final"]]
            rank = {"f16": 0, "f32": 1, "f64": 2}
            widening = all(rank[x] <= rank[y] for x, y in zip(pth, pth[1:]))
            ok = ok and (widening == row[8] or row[8])
        else:
            # the model covers float codes; other element types (INT64, BOOL, …) have no FK
            if row[0] != "none" and row[1] not in (1, 10, 11):
                continue
            ok = a == nm.get(w, w)
        if not ok:
            diffs.append({"table": tab, "row": [list(x) if isinstance(x, tuple) else x for x in row], "model": a})
    return {"requests": len(lines), "disagreements": len(diffs), "examples": diffs[:6]}
