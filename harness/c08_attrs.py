"""C08 — attribute VALUES for the extended vocabulary of the Lean annotation checker.

`enrich(ir_model, tree)` returns a copy of the ModelTree (harness/modeltree.py, built from the same IR model)
whose node attribute lists carry values in the form read by lean/J2O/Model/C08Ops.lean:

    name=v | name=v1,v2,…      integer attributes (INT / INTS)
    in<i>=v1,…                 integer payload of input number i when it is a constant (initializer or output of a
                               Constant node) of rank <= 1 with at most 32 entries
    vdtype=<code> vshape=d1,…  element type / shape of a Constant node's `value` tensor

Everything else stays a bare attribute name.  The walk mirrors modeltree._ir_graph (same node and body order).
"""
from __future__ import annotations

import copy
from typing import Optional

import numpy as np


def _ints(vals) -> str:
    return ",".join(str(int(v)) for v in vals)


def _payload(v) -> Optional[list]:
    """integer payload of a constant value (rank <= 1, <= 32 entries) or None"""
    if v is None:
        return None
    t = None
    try:
        t = v.const_value
    except Exception:
        t = None
    arr = None
    if t is None:
        try:
            p = v.producer()
        except Exception:
            p = None
        if p is not None and p.op_type == "Constant" and (p.domain or "") in ("", "ai.onnx"):
            a = p.attributes.get("value")
            if a is not None:
                try:
                    t = a.as_tensor()
                except Exception:
                    t = getattr(a, "value", None)
            elif "value_ints" in p.attributes:
                arr = np.asarray(list(p.attributes["value_ints"].as_ints()), dtype=np.int64)
            elif "value_int" in p.attributes:
                arr = np.asarray(int(p.attributes["value_int"].as_int()), dtype=np.int64)
    if arr is None:
        if t is None:
            return None
        try:
            arr = np.asarray(t.numpy())
        except Exception:
            return None
    if arr.dtype.kind not in "iu" or arr.ndim > 1 or arr.size > 32:
        return None
    return [int(x) for x in arr.reshape(-1)]


def _node_attrs(n) -> list[str]:
    import onnx_ir as ir
    out = []
    for name, a in n.attributes.items():
        try:
            if a.type == ir.AttributeType.INT:
                out.append(f"{name}={int(a.as_int())}")
                continue
            if a.type == ir.AttributeType.INTS:
                out.append(f"{name}={_ints(a.as_ints())}")
                continue
            if a.type == ir.AttributeType.TENSOR and name == "value" and n.op_type == "Constant":
                t = a.as_tensor()
                out.append(name)
                out.append(f"vdtype={int(t.dtype.value)}")
                out.append(f"vshape={_ints(t.shape.dims if hasattr(t.shape, 'dims') else t.shape)}")
                continue
        except Exception:
            pass
        out.append(name)
    for i, v in enumerate(n.inputs):
        if i == 0:
            continue
        p = _payload(v)
        if p is not None:
            out.append(f"in{i}={_ints(p)}")
    return out


def _walk(g, tg: dict) -> None:
    import onnx_ir as ir
    nodes = list(g)
    if len(nodes) != len(tg["n"]):
        raise RuntimeError("c08_attrs: tree and IR graph differ in node count")
    for n, tn in zip(nodes, tg["n"]):
        if tn["op"] != n.op_type:
            raise RuntimeError("c08_attrs: tree and IR graph differ in node order")
        tn["a"] = _node_attrs(n)
        bodies = []
        for a in n.attributes.values():
            if a.type == ir.AttributeType.GRAPH:
                sg = a.as_graph()
                if sg is not None:
                    bodies.append(sg)
            elif a.type == ir.AttributeType.GRAPHS:
                bodies += list(a.as_graphs())
        for sg, tb in zip(bodies, tn["b"]):
            _walk(sg, tb)


def enrich(ir_model, tree: dict) -> dict:
    t = copy.deepcopy(tree)
    _walk(ir_model.graph, t["g"])
    fstore = ir_model.functions
    fvals = list(fstore.values()) if hasattr(fstore, "values") else list(fstore)
    for f, tf in zip(fvals, t["f"]):
        _walk(f.graph, tf)
    return t
