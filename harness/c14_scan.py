"""C14 — AST scan of the live /repo sources for iteration sites whose order is not fixed by the
language or is inherited from process history:

  * `for x in S` / comprehensions over S / `list(S)`, `tuple(S)`, `sorted(S)`, `S.pop()`,
    `next(iter(S))`, `sep.join(S)` where S is a *set* (local annotated `Set[..]`/`set[..]`/
    `frozenset`, assigned from `set(..)`/set comprehension/set literal/set algebra, a parameter
    annotated as a set, tuple-unpacked from a call of a function of the same file whose return
    annotation has a set at that position, or a module-level set);
  * iteration over dicts keyed by `ir.Node` / `ir.Value` (identity-hashed keys);
  * iteration over module-level registries (UPPER_CASE dict-like module globals such as
    PLUGIN_REGISTRY: insertion order = plugin import order / conversion history).

A site is identified by (file, function, kind, iterable source, loop target, hash of the
normalised loop body) — never by line number — so edits elsewhere keep the identity stable, while
a new site or an edited body of a reviewed site changes the identity.
"""
from __future__ import annotations

import ast
import hashlib
from pathlib import Path
from typing import Any, Optional

FILES = [
    "jax2onnx/converter/ir_optimizations.py",
    "jax2onnx/converter/ir_builder.py",
    "jax2onnx/converter/ir_context.py",
    "jax2onnx/plugins/plugin_system.py",
    "jax2onnx/converter/lowering_dispatch.py",
    "jax2onnx/converter/conversion_api.py",
    "jax2onnx/converter/function_scope.py",
    "jax2onnx/converter/optimizer_graph_utils.py",
    "jax2onnx/converter/ir_postprocess.py",
]

SET_NAMES = {"Set", "set", "FrozenSet", "frozenset", "AbstractSet", "MutableSet"}
DICT_NAMES = {"Dict", "dict", "Mapping", "MutableMapping", "DefaultDict", "defaultdict", "OrderedDict",
              "WeakValueDictionary", "WeakKeyDictionary"}
WRAPPERS = {"list", "tuple", "sorted", "reversed", "enumerate", "iter"}
HARMLESS_CALLEES = {"len", "set", "frozenset", "bool", "isinstance", "id", "getattr", "setattr", "hasattr",
                    "print", "repr", "str", "type", "_dbg", "_dbg_tm", "cast"}


def _src(node: Optional[ast.AST]) -> str:
    return "" if node is None else ast.unparse(node)


def _dump(nodes: Any) -> str:
    if isinstance(nodes, ast.AST):
        nodes = [nodes]
    return "|".join(ast.dump(n, annotate_fields=False, include_attributes=False) for n in nodes)


def _h(text: str) -> str:
    return hashlib.sha1(text.encode()).hexdigest()[:12]


def _ann_name(node: ast.AST) -> Optional[str]:
    if isinstance(node, ast.Name):
        return node.id
    if isinstance(node, ast.Attribute):
        return node.attr
    return None


def kind_of_annotation(ann: Optional[ast.AST]) -> Any:
    """'set' | 'idict' | 'dict' | tuple(kinds) | None"""
    if ann is None:
        return None
    if isinstance(ann, ast.Constant) and isinstance(ann.value, str):
        try:
            return kind_of_annotation(ast.parse(ann.value, mode="eval").body)
        except SyntaxError:
            return None
    if isinstance(ann, ast.BinOp) and isinstance(ann.op, ast.BitOr):  # X | None
        return kind_of_annotation(ann.left) or kind_of_annotation(ann.right)
    name = _ann_name(ann)
    if name in SET_NAMES:
        return "set"
    if name in DICT_NAMES:
        return "dict"
    if isinstance(ann, ast.Subscript):
        base = _ann_name(ann.value)
        sl = ann.slice
        if base in SET_NAMES:
            return "set"
        if base in ("Optional", "Final", "ClassVar", "Annotated"):
            inner = sl.elts[0] if isinstance(sl, ast.Tuple) else sl
            return kind_of_annotation(inner)
        if base in ("Union",):
            for e in (sl.elts if isinstance(sl, ast.Tuple) else [sl]):
                k = kind_of_annotation(e)
                if k:
                    return k
            return None
        if base in ("Tuple", "tuple"):
            elts = sl.elts if isinstance(sl, ast.Tuple) else [sl]
            return tuple(kind_of_annotation(e) for e in elts)
        if base in DICT_NAMES:
            key = sl.elts[0] if isinstance(sl, ast.Tuple) and sl.elts else sl
            ks = _src(key)
            if "ir.Node" in ks or "ir.Value" in ks or ks in ("Node", "Value"):
                return "idict"
            return "dict"
    return None


# ---- checked "order cannot reach the output" justifications (a small syntactic dataflow check)
#
#   sorted     the enumeration is passed through `sorted(..)` before anything sees it
#   toset      the enumeration only feeds another set (set comprehension, `set(<genexpr>)`, or a loop whose
#              body does nothing but `S.add/update/discard(..)` on set-typed names, `continue`, constant flags)
#   reduction  the enumeration only feeds `any/all/len` or a loop that computes a constant flag /
#              returns a constant (with `break`), with side-effect free tests
#   keyonly    `id(x)` / `hash(x)` whose value is only used as a set/dict key, membership operand or in `==`
#
# "side-effect free" is decided syntactically and conservatively: calls only to an allowlist of builtins,
# to an allowlist of read-only methods, or to functions of the same file that pass the same check
# (`Scanner.pure_fn`); anything else makes the site NOT auto-justified (it then needs a reviewed row).
AUTO_CLASSES = ("sorted", "toset", "reduction", "keyonly")
PURE_BUILTINS = {"len", "isinstance", "issubclass", "getattr", "hasattr", "tuple", "list", "str", "int", "bool",
                 "float", "any", "all", "id", "type", "set", "frozenset", "sorted", "min", "max", "abs", "repr",
                 "dict", "zip", "enumerate", "range", "reversed", "callable", "cast", "iter", "hash", "sum"}
PURE_METHODS = {"get", "items", "keys", "values", "startswith", "endswith", "consumers", "uses", "producer",
                "lower", "upper", "strip", "split", "index", "count", "copy", "union", "intersection",
                "difference", "issubset", "issuperset", "isdisjoint", "is_graph_output", "is_graph_input",
                "is_initializer", "tolist", "numpy", "item", "format", "join", "as_int", "as_ints", "as_string"}
SET_MUTATORS = {"add", "update", "discard"}
LOCAL_MUTATORS = {"append", "extend", "add", "update", "discard", "insert", "setdefault", "pop", "remove", "clear"}


def _names_stored(nodes) -> set:
    out = set()
    for n in nodes:
        for sub in ast.walk(n):
            if isinstance(sub, ast.Name) and isinstance(sub.ctx, (ast.Store, ast.Del)):
                out.add(sub.id)
    return out


class _Scope:
    def __init__(self, parent: Optional["_Scope"] = None):
        self.parent = parent
        self.kinds: dict[str, Any] = {}

    def get(self, name: str) -> Any:
        s: Optional[_Scope] = self
        while s is not None:
            if name in s.kinds:
                return s.kinds[name]
            s = s.parent
        return None


class Scanner:
    def __init__(self, path: Path, rel: str, registries: Optional[set[str]] = None,
                 extern_defs: Optional[dict] = None):
        self.extern_defs = extern_defs or {}
        self.registries = set(registries or ())
        self.rel = rel
        self.file = Path(rel).name
        self.tree = ast.parse(path.read_text())
        self.sites: list[dict] = []
        self.lines: list[tuple] = []
        self.ctors: list[dict] = []
        self.returns: dict[str, Any] = {}
        self.module = _Scope()
        for r in self.registries:
            self.module.kinds[r] = "registry"
        self.local_fns: set[str] = set()
        self._seen_iter_nodes: set[int] = set()
        self.fn_defs: dict[str, list] = {}
        self._pure_memo: dict[str, bool] = {}

    # ---- side-effect freedom (syntactic, conservative)
    def pure_fn(self, name: str) -> bool:
        if name in self._pure_memo:
            return self._pure_memo[name]
        self._pure_memo[name] = False                      # recursion: pessimistic
        defs = self.fn_defs.get(name) or self.extern_defs.get(name, [])
        ok = bool(defs) and all(self._pure_def(d) for d in defs)
        self._pure_memo[name] = ok
        return ok

    def _pure_def(self, d: ast.AST) -> bool:
        params = {a.arg for a in list(d.args.posonlyargs) + list(d.args.args) + list(d.args.kwonlyargs)}
        if d.args.vararg:
            params.add(d.args.vararg.arg)
        if d.args.kwarg:
            params.add(d.args.kwarg.arg)
        local = _names_stored(d.body) - params
        for n in ast.walk(d):
            if isinstance(n, (ast.Global, ast.Nonlocal, ast.Delete, ast.Yield, ast.YieldFrom, ast.Await)):
                return False
            if isinstance(n, (ast.Assign, ast.AugAssign, ast.AnnAssign)):
                tg = n.targets if isinstance(n, ast.Assign) else [n.target]
                for t in tg:
                    for sub in ast.walk(t):
                        if isinstance(sub, (ast.Attribute, ast.Subscript)) and isinstance(sub.ctx, ast.Store):
                            base = sub.value
                            if not (isinstance(base, ast.Name) and base.id in local):
                                return False
            if isinstance(n, ast.Call) and not self._pure_call(n, local):
                return False
        return True

    def _pure_call(self, c: ast.Call, local: set) -> bool:
        f = c.func
        if isinstance(f, ast.Name):
            return f.id in PURE_BUILTINS or f.id in local and False or self.pure_fn(f.id)
        if isinstance(f, ast.Attribute):
            if f.attr in PURE_METHODS:
                return True
            if f.attr in LOCAL_MUTATORS and isinstance(f.value, ast.Name) and f.value.id in local:
                return True
        return False

    def pure_expr(self, e: Optional[ast.AST]) -> bool:
        if e is None:
            return True
        for n in ast.walk(e):
            if isinstance(n, (ast.NamedExpr, ast.Yield, ast.YieldFrom, ast.Await)):
                return False
            if isinstance(n, ast.Call) and not self._pure_call(n, set()):
                return False
        return True

    def flow_loop(self, loop: ast.For, sc: _Scope, scope_body: list) -> str:
        """'' | 'toset' | 'reduction' for a `for` loop over an unordered collection."""
        if loop.orelse or not self.pure_expr(loop.iter):
            return ""
        eff = {"add": False, "exit": False, "bad": False}
        temps: set = set()

        def stmts(body):
            for st in body:
                if isinstance(st, (ast.Continue, ast.Pass)):
                    continue
                if isinstance(st, ast.Break):
                    eff["exit"] = True
                elif isinstance(st, ast.Return):
                    if st.value is not None and not isinstance(st.value, ast.Constant):
                        eff["bad"] = True
                    eff["exit"] = True
                elif isinstance(st, ast.If):
                    if not self.pure_expr(st.test):
                        eff["bad"] = True
                    stmts(st.body)
                    stmts(st.orelse)
                elif isinstance(st, ast.For):
                    if st.orelse or not self.pure_expr(st.iter):
                        eff["bad"] = True
                    temps.update(_names_stored([st.target]))
                    stmts(st.body)
                elif isinstance(st, ast.Expr) and isinstance(st.value, ast.Call) and \
                        isinstance(st.value.func, ast.Attribute) and st.value.func.attr in SET_MUTATORS and \
                        isinstance(st.value.func.value, ast.Name) and self.kind(st.value.func.value, sc) == "set" \
                        and all(self.pure_expr(a) for a in st.value.args) and not st.value.keywords:
                    eff["add"] = True
                elif isinstance(st, ast.Assign) and all(isinstance(t, ast.Name) for t in st.targets):
                    if isinstance(st.value, ast.Constant):
                        continue                                   # constant flag
                    if not self.pure_expr(st.value):
                        eff["bad"] = True
                    temps.update(t.id for t in st.targets)
                else:
                    eff["bad"] = True
        stmts(loop.body)
        temps.update(_names_stored([loop.target]))
        if eff["bad"] or (eff["add"] and eff["exit"]):
            return ""
        # temporaries (and the loop variable) must not be read outside the loop
        inside = {id(n) for n in ast.walk(loop)}
        for st in scope_body:
            for n in ast.walk(st):
                if isinstance(n, ast.Name) and isinstance(n.ctx, ast.Load) and n.id in temps and id(n) not in inside:
                    return ""
        return "toset" if eff["add"] else "reduction"

    def flow_comp(self, comp: ast.AST, parent: Optional[ast.AST]) -> str:
        parts = [comp.elt] if not isinstance(comp, ast.DictComp) else [comp.key, comp.value]
        for g in comp.generators:
            parts += [g.iter] + list(g.ifs)
        if not all(self.pure_expr(p) for p in parts):
            return ""
        if isinstance(comp, ast.SetComp):
            return "toset"
        if isinstance(parent, ast.Call) and isinstance(parent.func, ast.Name) and len(parent.args) == 1 \
                and parent.args[0] is comp and not parent.keywords:
            return {"any": "reduction", "all": "reduction", "len": "reduction", "set": "toset",
                    "frozenset": "toset", "sorted": "sorted"}.get(parent.func.id, "")
        return ""

    def flow_key(self, call: ast.Call, parents: dict, scope_body: list) -> str:
        """'keyonly' when the value of `id(..)`/`hash(..)` only ever serves as a key / membership operand."""
        def key_use(n: ast.AST) -> bool:
            p = parents.get(id(n))
            if isinstance(p, ast.Compare) and all(isinstance(o, (ast.In, ast.NotIn, ast.Eq, ast.NotEq, ast.Is, ast.IsNot))
                                                  for o in p.ops):
                return True
            if isinstance(p, ast.Subscript) and p.slice is n:
                return True
            if isinstance(p, ast.Call) and isinstance(p.func, ast.Attribute) and n in p.args and \
                    p.func.attr in ("add", "discard", "get", "remove", "setdefault", "pop", "__contains__"):
                return p.args[0] is n
            if isinstance(p, ast.SetComp) and p.elt is n:
                return True
            if isinstance(p, ast.Set):
                return True
            if isinstance(p, ast.Dict) and n in p.keys:
                return True
            if isinstance(p, ast.DictComp) and p.key is n:
                return True
            return False
        if key_use(call):
            return "keyonly"
        p = parents.get(id(call))
        if isinstance(p, ast.Assign) and p.value is call and len(p.targets) == 1 and isinstance(p.targets[0], ast.Name):
            name = p.targets[0].id
            stores = [n for st in scope_body for n in ast.walk(st)
                      if isinstance(n, ast.Name) and n.id == name and isinstance(n.ctx, ast.Store)]
            loads = [n for st in scope_body for n in ast.walk(st)
                     if isinstance(n, ast.Name) and n.id == name and isinstance(n.ctx, ast.Load)]
            if len(stores) == 1 and loads and all(key_use(n) for n in loads):
                return "keyonly"
        return ""

    # ---- kinds of expressions
    def kind(self, e: Optional[ast.AST], sc: _Scope) -> Any:
        if e is None:
            return None
        if isinstance(e, ast.Name):
            return sc.get(e.id)
        if isinstance(e, (ast.Set, ast.SetComp)):
            return "set"
        if isinstance(e, ast.Call):
            fn = e.func
            if isinstance(fn, ast.Name):
                if fn.id in ("set", "frozenset"):
                    return "set"
                if fn.id in self.returns:
                    return self.returns[fn.id]
                if fn.id == "cast" and len(e.args) == 2:
                    return kind_of_annotation(e.args[0]) or self.kind(e.args[1], sc)
            if isinstance(fn, ast.Attribute) and fn.attr in (
                    "union", "intersection", "difference", "symmetric_difference", "copy"):
                if self.kind(fn.value, sc) == "set":
                    return "set"
            return None
        if isinstance(e, ast.BinOp) and isinstance(e.op, (ast.BitOr, ast.BitAnd, ast.Sub, ast.BitXor)):
            if self.kind(e.left, sc) == "set" or self.kind(e.right, sc) == "set":
                return "set"
        if isinstance(e, ast.IfExp):
            return self.kind(e.body, sc) or self.kind(e.orelse, sc)
        if isinstance(e, ast.NamedExpr):
            return self.kind(e.value, sc)
        return None

    def bind(self, target: ast.AST, k: Any, sc: _Scope) -> None:
        if isinstance(target, ast.Name):
            if k is not None and sc.kinds.get(target.id) != "registry":
                sc.kinds[target.id] = k
        elif isinstance(target, (ast.Tuple, ast.List)) and isinstance(k, tuple):
            for t, kk in zip(target.elts, k):
                self.bind(t, kk, sc)

    # ---- collection
    def collect_bindings(self, body: list[ast.stmt], sc: _Scope, fn: str) -> None:
        """Flow-insensitive: gather every binding of the scope before looking at uses."""
        for node in self._walk_scope(body):
            if isinstance(node, ast.AnnAssign):
                k = kind_of_annotation(node.annotation) or self.kind(node.value, sc)
                self.bind(node.target, k, sc)
                self._ctor(node.target, node.value, fn)
            elif isinstance(node, ast.Assign):
                k = self.kind(node.value, sc)
                for t in node.targets:
                    self.bind(t, k, sc)
                    self._ctor(t, node.value, fn)
            elif isinstance(node, ast.NamedExpr):
                self.bind(node.target, self.kind(node.value, sc), sc)

    def _ctor(self, target: ast.AST, value: Optional[ast.AST], fn: str) -> None:
        if isinstance(target, ast.Name) and isinstance(value, ast.Call) and \
                isinstance(value.func, ast.Name) and value.func.id == "set":
            self.ctors.append({"file": self.file, "fn": fn, "var": target.id, "line": value.lineno})

    def _walk_scope(self, body: list[ast.stmt]):
        """Walk the nodes of one scope; nested defs/classes/lambdas are yielded but not entered."""
        todo: list[ast.AST] = list(body)
        while todo:
            n = todo.pop(0)
            yield n
            if isinstance(n, (ast.FunctionDef, ast.AsyncFunctionDef, ast.ClassDef, ast.Lambda)):
                continue
            todo.extend(ast.iter_child_nodes(n))

    def run(self) -> None:
        # return kinds of module-level functions and methods (by bare name)
        for n in ast.walk(self.tree):
            if isinstance(n, (ast.FunctionDef, ast.AsyncFunctionDef)):
                self.local_fns.add(n.name)
                self.fn_defs.setdefault(n.name, []).append(n)
                k = kind_of_annotation(n.returns)
                if k is not None:
                    self.returns[n.name] = k
        # module-level names
        for st in self.tree.body:
            if isinstance(st, ast.AnnAssign) and isinstance(st.target, ast.Name):
                k = kind_of_annotation(st.annotation) or self.kind(st.value, self.module)
                if k in ("dict", "idict") and st.target.id.isupper():
                    k = "registry"
                if k:
                    self.module.kinds[st.target.id] = k
            elif isinstance(st, ast.Assign):
                k = self.kind(st.value, self.module)
                if k is None and isinstance(st.value, (ast.Dict, ast.DictComp)):
                    k = "dict"
                if k is None and isinstance(st.value, ast.Call) and _ann_name(st.value.func) in DICT_NAMES:
                    k = "dict"
                for t in st.targets:
                    if isinstance(t, ast.Name):
                        kk = "registry" if (k in ("dict", "idict") and t.id.isupper()) else k
                        if kk:
                            self.module.kinds[t.id] = kk
        self.scan_scope(self.tree.body, self.module, "<module>")
        self._defs(self.tree.body, self.module, "")

    def _defs(self, body: list[ast.stmt], parent: _Scope, prefix: str) -> None:
        for n in self._walk_scope(body):
            if isinstance(n, ast.ClassDef):
                self._defs(n.body, parent, prefix + n.name + ".")
            elif isinstance(n, (ast.FunctionDef, ast.AsyncFunctionDef)):
                sc = _Scope(parent)
                args = n.args
                for a in list(args.posonlyargs) + list(args.args) + list(args.kwonlyargs):
                    k = kind_of_annotation(a.annotation)
                    if k:
                        sc.kinds[a.arg] = k
                qual = prefix + n.name
                self.collect_bindings(n.body, sc, qual)
                self.collect_bindings(n.body, sc, qual)  # second round: aliases of later bindings
                self.ctors = _dedup(self.ctors)
                self.scan_scope(n.body, sc, qual, collected=True)
                self._defs(n.body, sc, qual + ".")

    # ---- sites
    def _iter_root(self, it: ast.AST, sc: _Scope) -> tuple[Any, str]:
        """(kind, wrapper chain) of an iterable expression, looking through list()/sorted()/…
        and .values()/.items()/.keys()."""
        wrap = ""
        while True:
            if isinstance(it, ast.Call) and isinstance(it.func, ast.Name) and it.func.id in WRAPPERS and it.args:
                wrap += it.func.id + ":"
                it = it.args[0]
                continue
            if isinstance(it, ast.Call) and isinstance(it.func, ast.Attribute) and \
                    it.func.attr in ("values", "items", "keys") and not it.args:
                k = self.kind(it.func.value, sc)
                if k in ("idict", "registry"):
                    return k, wrap + it.func.attr
                return None, wrap
            break
        k = self.kind(it, sc)
        if k in ("set", "idict", "registry"):
            return k, wrap
        return None, wrap

    def add(self, fn: str, kind: str, iter_src: str, target: str, body_text: str,
            at: Optional[ast.AST] = None, span: Optional[tuple] = None, auto: str = "") -> None:
        if "sorted" in kind.split("-"):
            auto = "sorted"
        site = {"file": self.file, "fn": fn, "kind": kind, "iter": iter_src,
                "target": target, "body": _h(body_text), "auto": auto}
        self.sites.append(site)
        if span is not None:  # comprehension: from the enclosing statement's first line to its end
            self.lines.append((self.file, span[0], span[1], site))
        elif at is not None:  # line span of the iterable expression: run-time attribution only
            self.lines.append((self.file, at.lineno, getattr(at, "end_lineno", at.lineno), site))

    def scan_scope(self, body: list[ast.stmt], sc: _Scope, fn: str, collected: bool = False) -> None:
        if not collected:
            self.collect_bindings(body, sc, fn)
        stmts_of: dict[int, ast.stmt] = {}
        for st in self._walk_scope(body):
            if isinstance(st, ast.stmt):
                for sub in self._walk_scope([st]):
                    stmts_of.setdefault(id(sub), st)
        # innermost enclosing statement
        for st in self._walk_scope(body):
            if isinstance(st, ast.stmt):
                for c in ast.iter_child_nodes(st):
                    if not isinstance(c, ast.stmt):
                        for sub in self._walk_scope([c]):
                            stmts_of[id(sub)] = st
        parents: dict[int, ast.AST] = {}
        for top in body:
            for p in ast.walk(top):
                for c in ast.iter_child_nodes(p):
                    parents[id(c)] = p
        for node in self._walk_scope(body):
            if isinstance(node, (ast.For, ast.AsyncFor)):
                k, wrap = self._iter_root(node.iter, sc)
                if k:
                    self._mark(node.iter)
                    self.add(fn, f"for-{k}" + ("-sorted" if "sorted" in wrap else ""), _src(node.iter),
                             _src(node.target), _dump(node.body) + "#" + _dump(node.orelse), at=node.iter,
                             auto=self.flow_loop(node, sc, body) if isinstance(node, ast.For) and k != "registry" else "")
            elif isinstance(node, (ast.ListComp, ast.SetComp, ast.DictComp, ast.GeneratorExp)):
                for g in node.generators:
                    k, wrap = self._iter_root(g.iter, sc)
                    if k:
                        self._mark(g.iter)
                        self.add(fn, f"comp-{k}" + ("-sorted" if "sorted" in wrap else "") +
                                 ("-toset" if isinstance(node, ast.SetComp) else ""),
                                 _src(g.iter), _src(g.target), _dump(node), at=g.iter,
                                 span=(getattr(stmts_of.get(id(node)), "lineno", node.lineno),
                                       getattr(node, "end_lineno", node.lineno)),
                                 auto=self.flow_comp(node, parents.get(id(node))) if k != "registry" else "")
        for node in self._walk_scope(body):
            if not isinstance(node, ast.Call) or id(node) in self._seen_iter_nodes:
                continue
            st = stmts_of.get(id(node))
            ctx_text = _dump(st) if st is not None and not isinstance(
                st, (ast.For, ast.While, ast.If, ast.With, ast.Try, ast.FunctionDef)) else _dump(node)
            f = node.func
            if isinstance(f, ast.Name) and f.id in ("list", "tuple", "sorted", "next", "iter", "min", "max") \
                    and node.args:
                k, wrap = self._iter_root(node.args[0], sc)
                if k:
                    self._mark(node)
                    self.add(fn, f"materialize-{k}-{f.id}", _src(node), "", ctx_text, at=node)
                continue
            if isinstance(f, ast.Attribute) and f.attr == "pop" and not node.args and \
                    self.kind(f.value, sc) == "set":
                self.add(fn, "pop-set", _src(node), "", ctx_text)
                continue
            if isinstance(f, ast.Attribute) and f.attr == "join" and node.args:
                k, _ = self._iter_root(node.args[0], sc)
                if k:
                    self.add(fn, f"materialize-{k}-join", _src(node), "", ctx_text)
                continue
            callee = f.id if isinstance(f, ast.Name) else (f.attr if isinstance(f, ast.Attribute) else "")
            if isinstance(f, ast.Name) and callee in ("hash", "id") and node.args:
                self.add(fn, f"{callee}-call", _src(node), "", ctx_text, auto=self.flow_key(node, parents, body))
                continue
            if callee in HARMLESS_CALLEES or callee in self.local_fns or callee in (
                    "update", "add", "discard", "remove", "union", "intersection", "difference",
                    "issubset", "issuperset", "isdisjoint", "extend_unique"):
                continue
            for a in list(node.args) + [kw.value for kw in node.keywords]:
                if isinstance(a, ast.Name) and self.kind(a, sc) == "set":
                    self.add(fn, "arg-set", _src(node.func) + "(" + a.id + ")", "", ctx_text)

    def _mark(self, node: ast.AST) -> None:
        for sub in ast.walk(node):
            self._seen_iter_nodes.add(id(sub))


def _dedup(xs: list[dict]) -> list[dict]:
    out, seen = [], set()
    for x in xs:
        key = tuple(sorted(x.items()))
        if key not in seen:
            seen.add(key)
            out.append(x)
    return out


LINES: list[tuple] = []


def site_at(file: str, line: int) -> Optional[dict]:
    """The scanned site whose iterable expression spans `line` of `file` (after scan())."""
    best = None
    for f, lo, hi, site in LINES:
        if f == file and lo <= line <= hi and (best is None or hi - lo < best[0]):
            best = (hi - lo, site)
    return None if best is None else best[1]


def site_id(site: dict) -> str:
    return ":".join(site[k] for k in ("file", "fn", "kind", "iter", "target", "body"))


def scan(repo: Path) -> tuple[list[dict], list[dict], list[str]]:
    """(sites, set constructor call sites, files that could not be scanned)"""
    LINES.clear()
    sites: list[dict] = []
    ctors: list[dict] = []
    missing: list[str] = []
    registries: set[str] = set()
    extern: dict = {}
    for rel in FILES:  # first round: module-level registries (imported by the other files)
        p = repo / rel
        if p.exists():
            s0 = Scanner(p, rel)
            s0.run()
            registries |= {k for k, v in s0.module.kinds.items() if v == "registry"}
            for st in s0.tree.body:          # module-level functions of the anchored files (purity across files)
                if isinstance(st, ast.FunctionDef):
                    extern.setdefault(st.name, []).append(st)
    for rel in FILES:
        p = repo / rel
        if not p.exists():
            missing.append(rel)
            continue
        s = Scanner(p, rel, registries, extern)
        s.run()
        sites += s.sites
        ctors += s.ctors
        LINES.extend(s.lines)
    sites = _dedup(sites)
    sites.sort(key=lambda s: (s["file"], s["fn"], s["kind"], s["iter"], s["target"], s["body"]))
    return sites, _dedup(ctors), missing


if __name__ == "__main__":
    import json
    import sys
    ss, cc, mm = scan(Path(sys.argv[1] if len(sys.argv) > 1 else "/repo"))
    for s in ss:
        print(json.dumps(s))
    print(len(ss), "sites;", len(cc), "set() constructor sites; missing:", mm)
