"""Oracles on real exported models shared by C03 / C11 / C08: ONNX checker (full), strict shape
inference, ONNX Runtime session construction and execution, with a classification of runtime
limitations that are not defects of the exporter:

  * `ort_opset_unsupported`  – the installed ORT refuses EVERY model stamped with that opset
                               (probed with a one-node Identity model);
  * `ort_kernel_missing`     – ORT answers NOT_IMPLEMENTED (also with graph optimisations disabled) for
                               an operator that the installed onnx.defs defines at the model's opset
                               (e.g. ORT 1.30 registers Swish for opset 24 only: a one-node Swish model
                               stamped opset 25 or 26 is refused);
  * `ort_optimizer_bug`      – the failure disappears with graph optimisations disabled (an ORT fusion
                               producing a node without kernel, e.g. QuickGelu for double).
Everything else is returned as a failure for the caller to route through `chk.finding`.
"""
from __future__ import annotations

import functools
from typing import Optional

import numpy as np
import onnx
from onnx import TensorProto, helper


def _session(proto_bytes: bytes, disable_opt: bool = False):
    import onnxruntime as ort
    so = ort.SessionOptions()
    so.log_severity_level = 4
    if disable_opt:
        so.graph_optimization_level = ort.GraphOptimizationLevel.ORT_DISABLE_ALL
    return ort.InferenceSession(proto_bytes, so, providers=["CPUExecutionProvider"])


@functools.lru_cache(maxsize=None)
def ort_supports_opset(v: int) -> bool:
    x = helper.make_tensor_value_info("x", TensorProto.FLOAT, [2])
    y = helper.make_tensor_value_info("y", TensorProto.FLOAT, [2])
    g = helper.make_graph([helper.make_node("Identity", ["x"], ["y"])], "g", [x], [y])
    m = helper.make_model(g, opset_imports=[helper.make_opsetid("", v)], ir_version=10)
    try:
        _session(m.SerializeToString())
        return True
    except Exception:
        return False


def default_opset(proto: onnx.ModelProto) -> int:
    for o in proto.opset_import:
        if o.domain in ("", "ai.onnx"):
            return int(o.version)
    return 0


def schema_exists(op: str, opset: int) -> bool:
    try:
        onnx.defs.get_schema(op, opset, "")
        return True
    except Exception:
        return False


def static_checks(proto: onnx.ModelProto) -> list[dict]:
    out = []
    try:
        onnx.checker.check_model(proto, full_check=True)
    except Exception as e:
        out.append({"oracle": "onnx.checker", "msg": str(e)[:600]})
    try:
        onnx.shape_inference.infer_shapes(proto, strict_mode=True, check_type=True)
    except Exception as e:
        out.append({"oracle": "onnx.shape_inference(strict)", "msg": str(e)[:600]})
    return out


def ort_load(proto: onnx.ModelProto):
    """-> (session | None, failure dict | None, limitation str | None)"""
    import re
    v = default_opset(proto)
    if not ort_supports_opset(v):
        return None, None, f"ort_opset_unsupported:{v}"
    data = proto.SerializeToString()
    try:
        return _session(data), None, None
    except Exception as e:
        msg = str(e)
    if "NOT_IMPLEMENTED" in msg:
        # an ORT fusion that produces a node without kernel: gone with optimisations disabled
        try:
            return _session(data, disable_opt=True), None, "ort_optimizer_bug:" + msg[:120]
        except Exception as e2:
            msg2 = str(e2)
        m = re.search(r"implementation for (\w+)\((\d+)\)", msg2)
        if m and schema_exists(m.group(1), v):
            return None, None, f"ort_kernel_missing:{m.group(1)}@{v}"
        msg = msg2
    return None, {"oracle": "onnxruntime.InferenceSession", "msg": msg[:600]}, None


def loadable(proto: onnx.ModelProto) -> tuple[list[dict], list[str]]:
    """All three load-time oracles. -> (failures, limitations)"""
    fails = static_checks(proto)
    sess, f, lim = ort_load(proto)
    if f:
        fails.append(f)
    return fails, ([lim] if lim else [])


def run(proto: onnx.ModelProto, feeds: dict, outputs: Optional[list] = None, disable_opt: bool = True):
    sess = _session(proto.SerializeToString(), disable_opt=disable_opt)
    return sess.run(outputs, feeds)
