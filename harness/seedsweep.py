#!/venv/bin/python
"""Re-run every seeded change under /verif/seeded against its own property's check and refresh
`confirmed_by_lead` in its meta.json.  One lane per property (a property's check holds a flock on its
Gen/ files anyway), at most --jobs lanes at a time.

usage: seedsweep.py [--jobs 5] [--tier quick] [--only C02,C07] [--missed]   (--missed: only seeds whose
       recorded outcome for their own property is 'not detected')
"""
import argparse
import json
import subprocess
import sys
from concurrent.futures import ThreadPoolExecutor
from pathlib import Path

VERIF = Path(__file__).resolve().parents[1]


def lane(prop: str, seeds: list[Path], tier: str) -> list[tuple[str, bool, float]]:
    out = []
    for sd in seeds:
        r = subprocess.run(["/venv/bin/python", str(VERIF / "harness/seedtest.py"), str(sd), prop, "--tier", tier,
                            "--keep", sd.name], capture_output=True, text=True)
        try:
            m = json.loads((sd / "meta.json").read_text())["confirmed_by_lead"]
            c = m["checks"][prop]
            out.append((sd.name, c["detected"], c["wall_s"], c["exit"], m.get("demo_with_patch", "?")))
        except Exception as e:  # noqa: BLE001
            out.append((sd.name, None, 0.0, -1, f"{e!r} {r.stdout[-300:]} {r.stderr[-300:]}"))
        print(out[-1], flush=True)
    return out


def main() -> int:
    ap = argparse.ArgumentParser()
    ap.add_argument("--jobs", type=int, default=5)
    ap.add_argument("--tier", default="quick")
    ap.add_argument("--only", default="")
    ap.add_argument("--missed", action="store_true")
    a = ap.parse_args()
    lanes: dict[str, list[Path]] = {}
    for sd in sorted((VERIF / "seeded").iterdir()):
        mp = sd / "meta.json"
        if not mp.exists() or not (sd / "patch.diff").exists():
            continue
        m = json.loads(mp.read_text())
        prop = m.get("property")
        if not prop or (a.only and prop not in a.only.split(",")):
            continue
        if a.missed:
            c = m.get("confirmed_by_lead", {}).get("checks", {}).get(prop, {})
            if c.get("detected"):
                continue
        lanes.setdefault(prop, []).append(sd)
    with ThreadPoolExecutor(a.jobs) as ex:
        futs = [ex.submit(lane, p, s, a.tier) for p, s in lanes.items()]
        res = [x for f in futs for x in f.result()]
    missed = [r for r in res if not r[1]]
    print(f"\n{len(res)} seeds, {len(res) - len(missed)} detected by their own property's check")
    for r in missed:
        print("MISSED", r)
    return 0


if __name__ == "__main__":
    sys.exit(main())
