"""C14 worker: run one seeded conversion history in THIS process and print the digests.

    python c14_worker.py '<json spec>'

spec = {"history": [request ids …],          # conversions run in this order (failing ones included)
        "garbage_seed": int,                  # seeded allocation noise before/between conversions
        "gc": "default" | "disable" | "collect",
        "preimport": [module names …],        # plugin modules imported first, in this order
        "dump_dir": optional path}            # write <pos>_<id>.onnx for diffing

prints one line  RESULT {"results":[{"pos":i,"id":…,"digest":…|null,"error":…|null,
                                     "noshape":…, "inputs":[…]} …]}

The catalogue is defined at module level so every process has identical definitions.  The same
module is imported by the parent (harness/props/c14.py) for the in-process part.
"""
from __future__ import annotations

import gc
import hashlib
import json
import os
import sys
import warnings

os.environ.setdefault("JAX_PLATFORMS", "cpu")
os.environ.setdefault("TF_CPP_MIN_LOG_LEVEL", "3")
_REPO = os.environ.get("J2O_REPO", "/repo")
if _REPO in sys.path:
    sys.path.remove(_REPO)
sys.path.insert(0, _REPO)
warnings.filterwarnings("ignore")

import numpy as np  # noqa: E402
import jax  # noqa: E402
import jax.numpy as jnp  # noqa: E402
from jax import lax  # noqa: E402
from flax import nnx  # noqa: E402

from jax2onnx import onnx_function, to_onnx  # noqa: E402

P3 = (0, 2, 1)


# ----------------------------------------------------------------------------- programs


def ew(x, y):
    return jnp.tanh(x) * y + 1.0


def t_relu(x):
    return jnp.transpose(jax.nn.relu(jnp.transpose(x, P3)), P3)


def t_chain(x):
    """transpose -> exp -> abs -> transpose back (two-level elementwise chain)"""
    return jnp.transpose(jnp.abs(jnp.exp(jnp.transpose(x, P3))), P3)


def t_dag_mul_add(a, s, r):
    y = jnp.transpose(a, P3) * jnp.transpose(s, P3) + jnp.transpose(r, P3)
    return jnp.transpose(y, P3)


def t_dag_mul_exp(a, s):
    return jnp.transpose(jnp.exp(jnp.transpose(a, P3) * jnp.transpose(s, P3)), P3)


def t_dag_keep(a, s):
    """one-level DAG whose first input transpose survives the fold (it is also a model output)"""
    ta = jnp.transpose(a, P3)
    return jnp.transpose(ta * jnp.transpose(s, P3), P3), ta


def reshape_pair(x):
    return jnp.reshape(jax.nn.relu(jnp.reshape(x, (6, 4))), (2, 3, 4)) + 1.0


def fori(x):
    return lax.fori_loop(0, 3, lambda i, c: c * 2.0 + 1.0, x)


def scan(x):
    def body(c, e):
        c = c + e
        return c, c * 2.0
    return lax.scan(body, jnp.zeros((4,), x.dtype), x)


def cond(x):
    return lax.cond(jnp.sum(x) > 0, lambda v: v * 2.0, lambda v: v - 1.0, x)


class Linear2(nnx.Module):
    def __init__(self):
        self.l1 = nnx.Linear(4, 8, rngs=nnx.Rngs(0))
        self.l2 = nnx.Linear(8, 3, rngs=nnx.Rngs(1))

    def __call__(self, x):
        return self.l2(jax.nn.relu(self.l1(x)))


class ConvBN(nnx.Module):
    def __init__(self):
        self.conv = nnx.Conv(3, 4, kernel_size=(3, 3), rngs=nnx.Rngs(0))
        self.bn = nnx.BatchNorm(4, use_running_average=True, rngs=nnx.Rngs(1))

    def __call__(self, x):
        return jax.nn.relu(self.bn(self.conv(x)))


class Drop(nnx.Module):
    def __init__(self):
        self.lin = nnx.Linear(4, 4, rngs=nnx.Rngs(0))
        self.drop = nnx.Dropout(rate=0.5, rngs=nnx.Rngs(2))

    def __call__(self, x, deterministic=True):
        return self.drop(self.lin(x), deterministic=deterministic)


@onnx_function
class Block(nnx.Module):
    def __init__(self, seed):
        self.lin = nnx.Linear(4, 4, rngs=nnx.Rngs(seed))

    def __call__(self, x):
        return jax.nn.gelu(self.lin(x))


class TwoBlocks(nnx.Module):
    def __init__(self):
        self.b1 = Block(0)
        self.b2 = Block(1)

    def __call__(self, x):
        return self.b2(self.b1(x)) + self.b1(x)


@onnx_function
def shared_fn(x):
    return jnp.tanh(x) * 2.0


def fn_shared(x, y):
    return shared_fn(x) + shared_fn(y) + shared_fn(x)


@onnx_function(unique=True)
class UBlock(nnx.Module):
    def __init__(self, seed):
        self.lin = nnx.Linear(4, 4, rngs=nnx.Rngs(seed))

    def __call__(self, x):
        return jnp.tanh(self.lin(x))


class TwoUnique(nnx.Module):
    def __init__(self):
        self.b1 = UBlock(0)
        self.b2 = UBlock(1)

    def __call__(self, x):
        return self.b2(self.b1(x))


@onnx_function
def scaled(x, k=2.0):
    return x * k + 1.0


def fn_const(x):
    return scaled(x, k=3.0) + scaled(x, k=4.0) + scaled(x, k=3.0)


@onnx_function
def inner_params(x, deterministic=True, training=True):
    return jnp.where(deterministic & training, x, -x)


def call_params1(x, deterministic=True):
    return inner_params(x) + 1.0


def call_params2(x, deterministic=True, training=True):
    """the callee accepts two call parameters that the call site does not pass"""
    return inner_params(x) + 1.0


# ---- bodies that fail only when they are re-traced (inside the function-body build) ----------


def _in_build(marker: str) -> bool:
    """Is a function whose primitive name contains `marker` being built right now?"""
    from jax2onnx.plugins import plugin_system as ps
    return any(marker in n for n in ps._IN_FUNCTION_BUILD.get())


class BodyBuildFailure(IndexError):
    """raised by a decorated body exactly when it is re-traced for its own function-body build"""

    def __init__(self, in_build: bool):
        super().__init__(f"deliberate failure (inside function-body build: {in_build})")
        self.in_build = in_build


@onnx_function
class SBlock:
    """decorated class; an instance with `fail_in_build` raises when its body is re-traced at
    lowering time (the outer trace / abstract evaluation succeed)"""

    def __init__(self, fail_in_build):
        self.w = jnp.asarray(np.arange(16, dtype=np.float32).reshape(4, 4) / 16.0)
        self.fail_in_build = bool(fail_in_build)

    def __call__(self, x):
        if self.fail_in_build and _in_build("SBlock"):
            raise BodyBuildFailure(True)
        return jnp.tanh(x @ self.w) * 2.0


def _sblock_model(fail):
    block = SBlock(fail)

    def model_fn(x):
        return block(x) + 1.0
    model_fn._keepalive = block
    return model_fn


_FAIL_IN_BUILD = {"on": False}


@onnx_function
def inbuild_fn(x):
    """decorated free function that raises inside its own body build when the switch is on"""
    if _FAIL_IN_BUILD["on"] and _in_build("inbuild_fn"):
        raise BodyBuildFailure(True)
    return jnp.tanh(x) * 3.0


def _inbuild_model(fail):
    _FAIL_IN_BUILD["on"] = bool(fail)

    def model_fn(x):
        return inbuild_fn(x) + inbuild_fn(x * 2.0)
    return model_fn


@onnx_function
class Alpha(nnx.Module):
    def __init__(self, rngs):
        self.lin = nnx.Linear(4, 4, rngs=rngs)

    def __call__(self, x):
        return nnx.relu(self.lin(x))


@onnx_function
class Beta(nnx.Module):
    def __init__(self, rngs):
        self.lin = nnx.Linear(4, 4, rngs=rngs)

    def __call__(self, x):
        return jnp.tanh(self.lin(x))


@onnx_function
class Gamma(nnx.Module):
    def __init__(self, rngs):
        self.ln = nnx.LayerNorm(4, rngs=rngs)

    def __call__(self, x):
        return self.ln(x)


@onnx_function
class Outer3(nnx.Module):
    """a function body that references three different nested function domains"""

    def __init__(self):
        rngs = nnx.Rngs(0)
        self.a = Alpha(rngs)
        self.b = Beta(rngs)
        self.g = Gamma(rngs)

    def __call__(self, x):
        return self.g(self.a(x) + self.b(x))


# ---- nested free functions in several custom namespaces (function bodies with >= 2 foreign domains, 3 levels)


@onnx_function(namespace="zeta.ops")
def leaf_z(x):
    return jnp.sin(x) * 2.0


@onnx_function(namespace="alpha.ops")
def leaf_a(x):
    return jnp.cos(x) + 1.0


@onnx_function(namespace="mid.ops", unique=True)
def mid_fn(x):
    return leaf_z(x) * leaf_a(x) + leaf_z(x + 1.0)


@onnx_function(namespace="beta.top")
def top_fn(x, y):
    return mid_fn(x) + leaf_a(y) - mid_fn(y)


def fn_nested_ns(x, y):
    return top_fn(x, y) + leaf_z(x)


def fail_user(x):
    raise ValueError("deliberate failure inside the user function")


_noplugin_p = jax.extend.core.Primitive("c14_noplugin")
_noplugin_p.def_impl(lambda x: x)
_noplugin_p.def_abstract_eval(lambda x: x)


def fail_unsupported(x):
    return _noplugin_p.bind(jnp.sin(x)) + 1.0


def fail_after_fn(x):
    """allocates function names and counters, then fails on a primitive without plugin"""
    return _noplugin_p.bind(shared_fn(x) + scaled(x, k=3.0))


_MODELS: dict = {}


def _model(name, ctor):
    if name not in _MODELS:
        _MODELS[name] = ctor()
    return _MODELS[name]


def _req(fn, inputs, **kw):
    return {"fn": fn, "inputs": inputs, "kw": kw}


def _freq(factory, inputs, **kw):
    """request whose callable is built afresh for every conversion (stateful bodies)"""
    return {"factory": factory, "inputs": inputs, "kw": kw}




def catalogue() -> dict:
    """id -> request (built lazily so module objects with fixed seeds are created once)."""
    return {
        "ew": _req(ew, [(3, 4), (3, 4)]),
        "t_relu": _req(t_relu, [(2, 3, 4)]),
        "t_chain": _req(t_chain, [(2, 3, 4)]),
        "t_dag_mul_add": _req(t_dag_mul_add, [(2, 3, 4)] * 3),
        "t_dag_mul_exp": _req(t_dag_mul_exp, [(2, 3, 4)] * 2),
        "t_dag_keep": _req(t_dag_keep, [(2, 3, 4)] * 2),
        "reshape_pair": _req(reshape_pair, [(2, 3, 4)]),
        "fori": _req(fori, [(3,)]),
        "scan": _req(scan, [(5, 4)]),
        "cond": _req(cond, [(3,)]),
        "linear_B": _req(_model("linear", Linear2), [("B", 4)]),
        "conv_bn_nchw": _req(_model("convbn", ConvBN), [(1, 8, 8, 3)], inputs_as_nchw=[0], outputs_as_nchw=[0]),
        "dropout": _req(_model("drop", Drop), [(2, 4)], input_params={"deterministic": True}),
        "fn_class": _req(_model("twoblocks", TwoBlocks), [(2, 4)]),
        "fn_shared": _req(fn_shared, [(2, 4), (2, 4)]),
        "fn_unique": _req(_model("twounique", TwoUnique), [(2, 4)]),
        "fn_const": _req(fn_const, [(3,)]),
        "fn_nested3": _req(_model("outer3", Outer3), [(2, 4)]),
        "fn_nested_ns": _req(fn_nested_ns, [(3,), (3,)]),
        "fn_sblock_ok": _freq(lambda: _sblock_model(False), [("B", 4)]),
        "fn_inbuild_ok": _freq(lambda: _inbuild_model(False), [(3,)]),
        "call_params1": _req(call_params1, [(3,)], input_params={"deterministic": True}),
        "call_params2": _req(call_params2, [(3,)], input_params={"deterministic": True, "training": True}),
        # deliberately failing conversions
        "fail_user": _req(fail_user, [(3,)]),
        "fail_unsupported": _req(fail_unsupported, [(3,)]),
        "fail_after_fn": _req(fail_after_fn, [(3,)]),
        "fail_spec": _req(ew, [(3, 4), (3, 4)], inputs_as_nchw=[0]),
        # failure INSIDE the function-body build (the re-trace of a decorated body at lowering time)
        "fail_in_body_sblock": _freq(lambda: _sblock_model(True), [("B", 4)]),
        "fail_in_body_fn": _freq(lambda: _inbuild_model(True), [(3,)]),
    }


FAILING = ("fail_user", "fail_unsupported", "fail_after_fn", "fail_spec",
           "fail_in_body_sblock", "fail_in_body_fn")
# failing request -> good request using the SAME decorated target (must be exported again afterwards)
SIBLING = {"fail_in_body_sblock": "fn_sblock_ok", "fail_in_body_fn": "fn_inbuild_ok",
           "fail_after_fn": "fn_shared"}
IN_BODY = ("fail_in_body_sblock", "fail_in_body_fn")


def request_ids() -> list:
    return list(catalogue().keys())


# ----------------------------------------------------------------------------- running


def convert(rid: str):
    r = catalogue()[rid]
    fn = r["factory"]() if "factory" in r else r["fn"]
    return to_onnx(fn, r["inputs"], model_name=f"m_{rid}", **r["kw"])


def state_snapshot() -> dict:
    """process-wide state that a conversion (successful or failed) must leave as it found it"""
    from jax2onnx.plugins import plugin_system as ps
    return {"in_function_build": sorted(ps._IN_FUNCTION_BUILD.get()),
            "onnx_fn_hits": sorted(ps._ONNX_FN_HITS.get()),
            "patch_state": len(ps._PATCH_STATE),
            "x64": bool(jax.config.jax_enable_x64)}


# ----------------------------------------------------------------------------- state inventory
#
# ALL module-level / class-level mutable state of jax2onnx, discovered by type at run time (no list
# of names): containers, caches, counters, scalars that are rebound, and every ContextVar.


def _canon(v, depth: int = 0):
    """process-local canonical rendering (only ever compared inside ONE process)"""
    if isinstance(v, (str, int, float, bool, bytes, type(None))):
        return repr(v)
    if depth < 2 and isinstance(v, (set, frozenset)):
        return "{" + ",".join(sorted(_canon(x, depth + 1) for x in v)) + "}"
    if depth < 2 and isinstance(v, (tuple, list)):
        return "[" + ",".join(_canon(x, depth + 1) for x in v) + "]"
    return f"<{type(v).__name__}@{id(v)}>"


def _fingerprint(v):
    """(object kind, content fingerprint) of a piece of state, or None when `v` is not state"""
    import collections
    import contextvars
    import itertools
    import weakref
    try:
        if isinstance(v, contextvars.ContextVar):
            try:
                return "ctxvar", _canon(v.get())
            except LookupError:
                return "ctxvar", "<unset>"
        if isinstance(v, weakref.WeakValueDictionary) or isinstance(v, weakref.WeakKeyDictionary):
            return "weakmap", str(len(v))
        if isinstance(v, weakref.WeakSet):
            return "weakset", str(len(v))
        if isinstance(v, (dict, collections.abc.MutableMapping)):
            items = list(v.items())
            return "map", f"{len(items)}:" + hashlib.sha1(
                "|".join(sorted(_canon(k) + "=" + _canon(x, 1) for k, x in items)).encode()).hexdigest()[:12]
        if isinstance(v, (set, collections.abc.MutableSet)):
            return "set", f"{len(v)}:" + hashlib.sha1("|".join(sorted(_canon(x) for x in v)).encode()).hexdigest()[:12]
        if isinstance(v, (list, collections.deque)):
            return "list", f"{len(v)}:" + hashlib.sha1("|".join(_canon(x) for x in v).encode()).hexdigest()[:12]
        if hasattr(v, "cache_info") and callable(getattr(v, "cache_info", None)):
            return "lru", str(v.cache_info().currsize)
        if isinstance(v, itertools.count):
            return "counter", repr(v)
        if isinstance(v, (bool, int, float, str, type(None))):
            return "scalar", repr(v)
    except Exception:  # noqa: BLE001 - an object that cannot be rendered is not tracked
        return None
    return None


def state_inventory() -> dict:
    """qualified name -> (kind, fingerprint) for every piece of module/class-level state of jax2onnx."""
    out: dict = {}
    seen: dict = {}
    for mname in sorted(sys.modules):
        mod = sys.modules[mname]
        if mod is None or not (mname == "jax2onnx" or mname.startswith("jax2onnx.")):
            continue
        for k, v in sorted(vars(mod).items()):
            if k.startswith("__"):
                continue
            if isinstance(v, type) and getattr(v, "__module__", "") == mname:
                for ck, cv in sorted(vars(v).items()):
                    if ck.startswith("__") or isinstance(cv, (staticmethod, classmethod, property)):
                        continue
                    fp = _fingerprint(cv)
                    if fp is not None and not (fp[0] == "scalar" and ck.isupper()):
                        out[f"{mname}:{k}.{ck}"] = fp
                continue
            fp = _fingerprint(v)
            if fp is None:
                continue
            if fp[0] != "scalar":
                if id(v) in seen:          # the same object imported into several modules: first name wins
                    continue
                seen[id(v)] = f"{mname}:{k}"
            out[f"{mname}:{k}"] = fp
    import jax as _jax
    out["jax.config:jax_enable_x64"] = ("scalar", repr(bool(_jax.config.jax_enable_x64)))
    return out


def inventory_diff(a: dict, b: dict) -> dict:
    """name -> [kind, before, after] for state that differs (appearing / vanishing names included)"""
    d = {}
    for k in sorted(set(a) | set(b)):
        x, y = a.get(k), b.get(k)
        if x != y:
            d[k] = [(y or x)[0], None if x is None else x[1], None if y is None else y[1]]
    return d


PROBE_GOOD = ("ew", "fn_shared", "fn_class", "fn_nested3", "fn_nested_ns", "fn_const", "call_params2", "dropout",
              "t_dag_mul_add", "scan", "fn_sblock_ok", "fn_inbuild_ok")


def probe_state() -> dict:
    """Fixed protocol (no seed): two identical rounds of succeeding and failing conversions.  A piece of
    state is reported with the rounds in which some conversion changed it: `r1` (first time a request is
    seen: lazy caches, registries, memo tables fill), `r2` (the same requests again: anything that still
    changes accumulates history), `fail` (changed by a FAILING conversion in round 2), and `net` (value
    at the end of round 2 differs from the value at the end of round 1)."""
    rows: dict = {}
    order = list(PROBE_GOOD) + list(FAILING)
    end1 = None
    unexpected: list = []
    start = {n: fp for n, fp in state_inventory().items() if fp[0] == "ctxvar"}
    for rnd in ("r1", "r2"):
        for rid in order:
            before = state_inventory()
            try:
                convert(rid)
                ok = True
            except BaseException as e:  # noqa: BLE001
                if isinstance(e, (KeyboardInterrupt, SystemExit)):
                    raise
                ok = False
            if ok == (rid in FAILING):
                unexpected.append(f"{rnd}:{rid}:{'converted' if ok else 'failed'}")
            after = state_inventory()
            if ok:
                for name, fp in start.items():
                    if after.get(name) != fp:
                        rows.setdefault(name, {"kind": "ctxvar", "flags": set()})["flags"].add("dirty")
            for name, (kind, _x, _y) in inventory_diff(before, after).items():
                if _x is None:               # a module imported lazily by this conversion: no state CHANGED
                    continue
                r = rows.setdefault(name, {"kind": kind, "flags": set()})
                r["flags"].add(rnd)
                if rnd == "r2" and not ok:
                    r["flags"].add("fail")
        if rnd == "r1":
            end1 = state_inventory()
    for name, (_k, _x, _y) in inventory_diff(end1, state_inventory()).items():
        if _x is None:
            continue
        rows.setdefault(name, {"kind": "?", "flags": set()})["flags"].add("net")
    inv = state_inventory()
    kinds: dict = {}
    for _n, (k, _f) in inv.items():
        kinds[k] = kinds.get(k, 0) + 1
    return {"rows": [{"name": n, "kind": r["kind"], "flags": "+".join(sorted(r["flags"]))}
                     for n, r in sorted(rows.items())],
            "inventory_size": len(inv), "inventory_kinds": kinds, "unexpected_outcomes": unexpected,
            "ctxvars": sorted(n for n, (k, _f) in inv.items() if k == "ctxvar")}


# ----------------------------------------------------------------------------- failure injection


class InjectedFailure(ArithmeticError):
    """raised by the harness at a chosen point inside a real conversion"""


def convert_injected(rid: str, point: str, k: int) -> dict:
    """Run request `rid` with a failure injected at the k-th (1-based) occurrence of `point`:
         'trace'  the k-th `jax.make_jaxpr` trace of the conversion (1 = the user function, >= 2 = the
                  re-trace of an @onnx_function body at lowering time, nested bodies in call order)
         'name'   the k-th fresh-name allocation (IRBuilder.fresh_name / IRContext.fresh_name), i.e. a
                  point inside lowering, inside and outside function bodies
       Returns {"raised": bool, "count": occurrences seen, "error": type name | None, "depths": [...]}
       (`depths` = the number of names in every ContextVar-held set at each occurrence: nesting)."""
    import contextvars
    import jax as _jax
    from jax2onnx.converter import ir_builder as _irb
    from jax2onnx.converter import ir_context as _irc
    seen = {"n": 0}
    depths: list = []
    cvs = [v for m in list(sys.modules) if m.startswith("jax2onnx") and sys.modules[m] is not None
           for v in vars(sys.modules[m]).values() if isinstance(v, contextvars.ContextVar)]

    def depth() -> int:
        d = 0
        for cv in {id(c): c for c in cvs}.values():
            try:
                val = cv.get()
            except LookupError:
                continue
            if isinstance(val, (set, frozenset)) and all(isinstance(x, str) and "onnx_fn" in x for x in val):
                d = max(d, len(val))
        return d

    def tick():
        seen["n"] += 1
        depths.append(depth())
        if seen["n"] == k:
            raise InjectedFailure(f"injected at {point} #{k}")

    undo = []
    if point == "trace":
        orig = _jax.make_jaxpr

        def make_jaxpr(fun, *a, **kw):
            inner = orig(fun, *a, **kw)

            def run(*args, **kwargs):
                tick()
                return inner(*args, **kwargs)
            return run
        _jax.make_jaxpr = make_jaxpr
        undo.append(lambda: setattr(_jax, "make_jaxpr", orig))
    else:
        for cls, attr in ((_irb.IRBuilder, "fresh_name"), (_irc.IRContext, "fresh_name")):
            o = getattr(cls, attr)

            def wrapped(self, *a, __o=o, **kw):
                tick()
                return __o(self, *a, **kw)
            setattr(cls, attr, wrapped)
            undo.append(lambda cls=cls, attr=attr, o=o: setattr(cls, attr, o))
    res = {"raised": False, "error": None}
    try:
        convert(rid)
    except BaseException as e:  # noqa: BLE001
        if isinstance(e, (KeyboardInterrupt, SystemExit)):
            raise
        res = {"raised": True, "error": type(e).__name__}
    finally:
        for u in undo:
            u()
    res["count"] = seen["n"]
    res["depths"] = depths
    return res


def _erase_shapes(proto) -> None:
    def graph(g):
        del g.value_info[:]
        for vi in list(g.output) + list(g.input):
            if vi.type.HasField("tensor_type"):
                vi.type.tensor_type.ClearField("shape")
        for n in g.node:
            for a in n.attribute:
                if a.HasField("g"):
                    graph(a.g)
                for sub in a.graphs:
                    graph(sub)
    graph(proto.graph)
    for f in proto.functions:
        del f.value_info[:]
        for n in f.node:
            for a in n.attribute:
                if a.HasField("g"):
                    graph(a.g)


def digests(proto) -> dict:
    import onnx
    b = proto.SerializeToString(deterministic=True)
    p2 = onnx.ModelProto()
    p2.CopyFrom(proto)
    _erase_shapes(p2)
    return {"digest": hashlib.sha256(b).hexdigest(),
            "noshape": hashlib.sha256(p2.SerializeToString(deterministic=True)).hexdigest(),
            "inputs": [i.name for i in proto.graph.input], "bytes": b}


def summary(proto) -> list:
    """short text rendering used for diffs in replay files"""
    def dims(vi):
        return [d.dim_param or d.dim_value for d in vi.type.tensor_type.shape.dim]
    out = ["inputs " + " ".join(f"{i.name}{dims(i)}" for i in proto.graph.input),
           "outputs " + " ".join(f"{o.name}{dims(o)}" for o in proto.graph.output)]
    for n in proto.graph.node:
        out.append(f"node {n.domain}:{n.op_type} {n.name} {list(n.input)} -> {list(n.output)}")
    for v in proto.graph.value_info:
        out.append(f"value_info {v.name}{dims(v)}")
    out.append("opset_import " + " ".join(f"{o.domain or 'ai.onnx'}={o.version}" for o in proto.opset_import))
    for f in proto.functions:
        out.append(f"function {f.domain}:{f.name} {list(f.input)} -> {list(f.output)} opset_import "
                   + " ".join(f"{o.domain or 'ai.onnx'}={o.version}" for o in f.opset_import))
        for n in f.node:
            out.append(f"  fnode {n.domain}:{n.op_type} {n.name} {list(n.input)} -> {list(n.output)}")
        for v in f.value_info:
            out.append(f"  fvalue_info {v.name}{dims(v)}")
    return out


class _Lcg:
    def __init__(self, seed):
        self.s = (seed * 6364136223846793005 + 1442695040888963407) & (2 ** 64 - 1)

    def next(self, n):
        self.s = (self.s * 6364136223846793005 + 1442695040888963407) & (2 ** 64 - 1)
        return (self.s >> 33) % n


def _garbage(lcg, keep: list) -> None:
    """seeded allocation noise: objects of many size classes, some kept, some freed (holes)"""
    if lcg is None:
        return
    n = lcg.next(4000)
    tmp = []
    for i in range(n):
        k = lcg.next(6)
        if k == 0:
            tmp.append(object())
        elif k == 1:
            tmp.append([i] * lcg.next(12))
        elif k == 2:
            tmp.append({"k": i})
        elif k == 3:
            tmp.append((i, i + 1, i + 2))
        elif k == 4:
            tmp.append(bytearray(lcg.next(200)))
        else:
            tmp.append(type("G", (), {})())
    for i, o in enumerate(tmp):
        if lcg.next(3) == 0:
            keep.append(o)
    del tmp


def run_history(spec: dict) -> list:
    import importlib
    for m in spec.get("preimport", []):
        try:
            importlib.import_module(m)
        except Exception:
            pass
    mode = spec.get("gc", "default")
    if mode == "disable":
        gc.disable()
    gseed = spec.get("garbage_seed", 0)
    lcg = _Lcg(gseed) if gseed else None
    keep: list = []
    out = []
    dump = spec.get("dump_dir")
    for pos, rid in enumerate(spec["history"]):
        _garbage(lcg, keep)
        if mode == "collect":
            gc.collect()
        before = state_snapshot()
        try:
            proto = convert(rid)
            d = digests(proto)
            if dump:
                with open(os.path.join(dump, f"{pos}_{rid}.onnx"), "wb") as fh:
                    fh.write(d["bytes"])
            out.append({"pos": pos, "id": rid, "digest": d["digest"], "noshape": d["noshape"],
                        "inputs": d["inputs"], "error": None})
        except BaseException as e:  # noqa: BLE001 - failing conversions are part of the history
            if isinstance(e, (KeyboardInterrupt, SystemExit)):
                raise
            out.append({"pos": pos, "id": rid, "digest": None, "noshape": None, "inputs": None,
                        "error": type(e).__name__, "in_build": getattr(e, "in_build", None)})
        after = state_snapshot()
        out[-1]["state_changed"] = {k: [before[k], after[k]] for k in before if before[k] != after[k]}
    return out


if __name__ == "__main__":
    spec = json.loads(sys.argv[1])
    if spec.get("probe"):
        print("RESULT " + json.dumps(probe_state()))
        sys.exit(0)
    res = run_history(spec)
    print("RESULT " + json.dumps({"results": res, "hashseed": os.environ.get("PYTHONHASHSEED")}))
