"""C02 — correspondence of the optimizer's guard kernels with their Lean models (drivers/C02G.lean).

Lean (`Props/C02Guards.lean`) proves: whatever the MODEL guard accepts satisfies the semantic
precondition of the rewrite.  This module ties the model guards to the live code, one-sidedly
(`code accepts ⇒ model accepts`; a more conservative code is silent, two-sided drift is reported as
information), at two levels:

* helper level — the private predicates themselves when they still exist under their names
  (`_shapes_compatible`, `_is_inverse_perm`, `_shapes_match_exact`, `_chain_side_inputs_ok`,
  `_is_scalar_const_value`), on a systematic token space;
* pass level — minimal graphs through the real passes (`remove_redundant_reshape_pairs_ir`,
  `remove_identity_reshapes_ir`, `remove_redundant_transpose_pairs_ir`): "the pass folded" ⇒ the model
  guard must accept.  Independent of helper names, so a refactoring keeps the tie.

A disagreement is searched for a concrete failing input: small concrete shapes satisfying both
annotations with equal element count but different extents, executed before/after in onnxruntime.
"""
from __future__ import annotations

import itertools
import json
from typing import Any, Optional

import numpy as np
import onnx
from onnx import TensorProto, helper

import common

TOKENS = [0, 1, 2, 3, "A", "B", None]


def _ir():
    import onnx_ir as ir
    return ir


def _opt():
    import jax2onnx.converter.ir_optimizations as opt
    return opt


def mk_value(dims: Optional[list], name: str = "v"):
    ir = _ir()
    if dims is None:
        return ir.Value(name=name)
    return ir.Value(name=name, shape=ir.Shape([d if isinstance(d, int) else ir.SymbolicDim(d) for d in dims]),
                    type=ir.TensorType(ir.DataType.FLOAT))


# --------------------------------------------------------------------------- concrete instances


def instances(dims: list, sym: dict[str, int], pool=(0, 1, 2, 3, 4)):
    """concrete shapes satisfying the annotation `dims` under the symbol binding `sym` (unknowns free)."""
    slots = []
    for d in dims:
        if isinstance(d, int):
            slots.append([d])
        elif d is None:
            slots.append(list(pool))
        else:
            slots.append([sym[d]])
    return itertools.product(*slots)


def counterexample_shapes(a: list, b: list) -> Optional[tuple[tuple, tuple, dict]]:
    """shapes sa ⊨ a, sb ⊨ b (one binding of the symbols), equal element count, sa ≠ sb."""
    syms = sorted({d for d in list(a) + list(b) if isinstance(d, str)})
    for vals in itertools.product((0, 1, 2, 3, 4), repeat=len(syms)):
        sym = dict(zip(syms, vals))
        for sa in instances(a, sym):
            na = int(np.prod(sa)) if sa else 1
            for sb in instances(b, sym):
                if tuple(sa) != tuple(sb) and (int(np.prod(sb)) if sb else 1) == na:
                    return tuple(sa), tuple(sb), sym
    return None


# --------------------------------------------------------------------------- minimal graphs


def _vi(name: str, dims: Optional[list], elem=TensorProto.FLOAT):
    if dims is None:
        return helper.make_tensor_value_info(name, elem, None)
    return helper.make_tensor_value_info(name, elem, [d if d is not None else None for d in dims])


def reshape_pair_model(a: list, b: list) -> onnx.ModelProto:
    """x:a → Reshape(-1) → Relu → Reshape(shp) → y:b ; `shp` is a run-time input."""
    nodes = [
        helper.make_node("Reshape", ["x", "flat_shape"], ["f"], name="r1"),
        helper.make_node("Relu", ["f"], ["g"], name="relu"),
        helper.make_node("Reshape", ["g", "shp"], ["y0"], name="r2", allowzero=1),
        helper.make_node("Neg", ["y0"], ["y"], name="neg"),
    ]
    g = helper.make_graph(
        nodes, "g", [_vi("x", a), helper.make_tensor_value_info("shp", TensorProto.INT64, [len(b)])],
        [_vi("y", b)],
        initializer=[helper.make_tensor("flat_shape", TensorProto.INT64, [1], [-1])],
        value_info=[_vi("y0", b), _vi("f", [None]), _vi("g", [None])])
    return helper.make_model(g, opset_imports=[helper.make_opsetid("", 21)], ir_version=10)


def identity_reshape_model(src: list, dst: Optional[list], tgt: list[int]) -> onnx.ModelProto:
    nodes = [
        helper.make_node("Relu", ["x"], ["a"], name="relu"),
        helper.make_node("Reshape", ["a", "tgt"], ["b"], name="rs"),
        helper.make_node("Neg", ["b"], ["y"], name="neg"),
    ]
    vis = [_vi("a", src)] + ([_vi("b", dst)] if dst is not None else [])
    g = helper.make_graph(nodes, "g", [_vi("x", src)], [helper.make_tensor_value_info("y", TensorProto.FLOAT, None)],
                          initializer=[helper.make_tensor("tgt", TensorProto.INT64, [len(tgt)], tgt)], value_info=vis)
    return helper.make_model(g, opset_imports=[helper.make_opsetid("", 21)], ir_version=10)


def transpose_pair_model(p1: list[int], p2: list[int], shape: list[int]) -> onnx.ModelProto:
    nodes = [
        helper.make_node("Transpose", ["x"], ["a"], name="t1", perm=p1),
        helper.make_node("Relu", ["a"], ["b"], name="relu"),
        helper.make_node("Transpose", ["b"], ["c"], name="t2", perm=p2),
        helper.make_node("Neg", ["c"], ["y"], name="neg"),
    ]
    g = helper.make_graph(nodes, "g", [_vi("x", shape)], [helper.make_tensor_value_info("y", TensorProto.FLOAT, None)])
    return helper.make_model(g, opset_imports=[helper.make_opsetid("", 21)], ir_version=10)


def chain_model(castlike: bool, ins: list[str]) -> Optional[onnx.ModelProto]:
    """x → Transpose(p) → node(operands as classified) → Transpose(p⁻¹) → Neg → y; `other` operands are
    run-time inputs with the TRANSPOSED layout, so folding the pair around them changes the result."""
    if "absent" in ins or ins.count("chain") != 1 or (castlike and len(ins) != 2):
        return None
    perm, inv = [2, 0, 1], [1, 2, 0]
    shape, tshape = [2, 3, 5], [5, 2, 3]
    inputs = [_vi("x", shape)]
    inits = []
    names = []
    for j, kd in enumerate(ins):
        if kd == "chain":
            names.append("t")
        elif kd == "scalar":
            inits.append(helper.make_tensor(f"s{j}", TensorProto.FLOAT, [], [0.5]))
            names.append(f"s{j}")
        else:
            inputs.append(_vi(f"o{j}", tshape))
            names.append(f"o{j}")
    nodes = [
        helper.make_node("Transpose", ["x"], ["t"], name="t1", perm=perm),
        helper.make_node("CastLike" if castlike else "Max", names, ["m"], name="mid"),
        helper.make_node("Transpose", ["m"], ["u"], name="t2", perm=inv),
        helper.make_node("Neg", ["u"], ["y"], name="neg"),
    ]
    g = helper.make_graph(nodes, "g", inputs, [helper.make_tensor_value_info("y", TensorProto.FLOAT, None)],
                          initializer=inits)
    return helper.make_model(g, opset_imports=[helper.make_opsetid("", 21)], ir_version=10)


def run_single_pass(model: onnx.ModelProto, pass_fn_name: str) -> Optional[onnx.ModelProto]:
    ir = _ir()
    opt = _opt()
    fn = getattr(opt, pass_fn_name, None)
    if fn is None:
        return None
    irm = ir.from_proto(model)
    fn(irm.graph)
    return ir.to_proto(irm)


def op_types(m: onnx.ModelProto) -> list[str]:
    return [n.op_type for n in m.graph.node]


def ort_run(model: onnx.ModelProto, feeds: dict[str, np.ndarray]):
    import onnxruntime as ort
    so = ort.SessionOptions()
    so.graph_optimization_level = ort.GraphOptimizationLevel.ORT_DISABLE_ALL
    so.log_severity_level = 4
    sess = ort.InferenceSession(model.SerializeToString(), so, providers=["CPUExecutionProvider"])
    names = {i.name for i in sess.get_inputs()}
    return sess.run(None, {k: v for k, v in feeds.items() if k in names})


def differs(before: onnx.ModelProto, after: onnx.ModelProto, feeds) -> Optional[str]:
    try:
        ob = ort_run(before, feeds)
    except Exception:  # noqa: BLE001
        return None
    try:
        oa = ort_run(after, feeds)
    except Exception as e:  # noqa: BLE001
        return f"optimized model fails in onnxruntime: {str(e)[:120]}"
    for b, a in zip(ob, oa):
        if b.shape != a.shape:
            return f"shape {b.shape} vs {a.shape}"
        if not np.array_equal(b, a):
            return "values differ"
    return None


# --------------------------------------------------------------------------- the check


def check(chk, rng) -> dict[str, Any]:
    """returns statistics; registers findings / violations on `chk`."""
    opt = _opt()
    stats: dict[str, Any] = {}
    lines: list[str] = []
    meta: list[tuple] = []

    def ask(kind: str, payload: dict, real: Optional[bool], ctx: Any) -> None:
        lines.append(json.dumps(dict(payload, g=kind)))
        meta.append((kind, payload, real, ctx))

    # ---- _shapes_compatible: helper level, every token pair of length ≤ 2, sampled length 3, odd cases
    pairs: list[tuple[Optional[list], Optional[list]]] = [(None, [2]), ([2], None), (None, None), ([], []), ([2], [2, 1])]
    for n in (1, 2):
        for a in itertools.product(TOKENS, repeat=n):
            for b in itertools.product(TOKENS, repeat=n):
                pairs.append((list(a), list(b)))
    for _ in range(1500):
        n = rng.choice([3, 3, 4])
        a = [rng.choice(TOKENS) for _ in range(n)]
        b = list(a)
        for _ in range(rng.choice([0, 1, 1, 2])):
            b[rng.randint(0, n - 1)] = rng.choice(TOKENS)
        pairs.append((a, b))
    helper_sc = getattr(opt, "_shapes_compatible", None)
    for a, b in pairs:
        real = None
        if helper_sc is not None:
            real = bool(helper_sc(mk_value(a, "a") if a is not None or rng.chance(0.5) else None,
                                  mk_value(b, "b") if b is not None or rng.chance(0.5) else None))
        ask("sc", {"a": a, "b": b}, real, None)
    # pass level: does the real reshape-pair pass fold x:a → flatten → Relu → Reshape → y:b ?
    pass_pairs = [p for p in pairs if p[0] is not None and p[1] is not None and p[0] and len(p[0]) == len(p[1])]
    rng.shuffle(pass_pairs)
    n_pass = 0
    for a, b in pass_pairs[:260]:
        m = reshape_pair_model(a, b)
        after = run_single_pass(m, "remove_redundant_reshape_pairs_ir")
        if after is None:
            break
        n_pass += 1
        folded = "Reshape" not in op_types(after)
        ask("sc", {"a": a, "b": b}, folded, ("pass", m, after))
    stats["shapes_compatible_pass_level_graphs"] = n_pass

    # ---- _is_inverse_perm
    helper_inv = getattr(opt, "_is_inverse_perm", None)
    perm_cases: list[tuple[list[int], list[int]]] = []
    for n in (1, 2, 3):
        ps = [list(p) for p in itertools.permutations(range(n))]
        perm_cases += [(p, q) for p in ps for q in ps]
    ps4 = [list(p) for p in itertools.permutations(range(4))]
    perm_cases += [(rng.choice(ps4), rng.choice(ps4)) for _ in range(150)]
    ps5 = [list(p) for p in itertools.permutations(range(5))]
    for _ in range(60):
        p = rng.choice(ps5)
        inv = [p.index(i) for i in range(5)]
        perm_cases.append((p, inv if rng.chance(0.6) else rng.choice(ps5)))
    perm_cases += [([0, 1], [0, 1, 2]), ([0, 1, 2], [0, 1]), ([], []), ([0, 0], [0, 1]), ([1, 1], [1, 1]), ([0, 1], [0, 0])]
    for p, q in perm_cases:
        real = None
        if helper_inv is not None:
            try:
                real = bool(helper_inv(p, q))
            except IndexError:
                real = False
        ask("inv", {"p1": p, "p2": q}, real, None)
    n_tp = 0
    valid_cases = [(p, q) for p, q in perm_cases if len(p) == len(q) and sorted(p) == list(range(len(p)))
                   and sorted(q) == list(range(len(q))) and 2 <= len(p) <= 4]
    rng.shuffle(valid_cases)
    primes = [2, 3, 5, 7]
    for p, q in valid_cases[:120]:
        m = transpose_pair_model(p, q, primes[:len(p)])
        after = run_single_pass(m, "remove_redundant_transpose_pairs_ir")
        if after is None:
            break
        n_tp += 1
        folded = "Transpose" not in op_types(after)
        ask("inv", {"p1": p, "p2": q}, folded, ("pass", m, after))
    stats["inverse_perm_pass_level_graphs"] = n_tp

    # ---- identity reshape decision (pass level; `_shapes_match_exact` at helper level)
    exact_cases = []
    for _ in range(220):
        n = rng.choice([1, 2, 2, 3])
        src = [rng.choice([1, 2, 3, 4, 2, 3, "B", None]) for _ in range(n)]
        tgt = [d if isinstance(d, int) else rng.choice([2, -1, 0]) for d in src]
        k = rng.randint(0, 9)
        if k == 0:
            tgt[rng.randint(0, n - 1)] = -1
        elif k == 1:
            tgt[rng.randint(0, n - 1)] = 0
        elif k == 2 and n >= 2:
            tgt[0], tgt[1] = tgt[1], tgt[0]
        elif k == 3:
            tgt = tgt + [1]
        dst: Optional[list] = None
        kd = rng.randint(0, 3)
        if kd == 1:
            dst = [t if t > 0 else None for t in tgt]
        elif kd == 2:
            dst = list(reversed([t if t > 0 else 2 for t in tgt]))
        exact_cases.append((src, dst, tgt))
    n_ex = 0
    for src, dst, tgt in exact_cases:
        if any(t < -1 for t in tgt):
            continue
        m = identity_reshape_model(src, dst, tgt)
        try:
            after = run_single_pass(m, "remove_identity_reshapes_ir")
        except Exception:  # noqa: BLE001
            continue
        if after is None:
            break
        n_ex += 1
        ask("exact", {"src": src, "dst": dst, "tgt": tgt}, "Reshape" not in op_types(after), ("pass", m, after))
    stats["identity_reshape_pass_level_graphs"] = n_ex

    # ---- _chain_side_inputs_ok / _is_scalar_const_value (helper level; the pass level is graphgen's
    #      transpose_chain / reshape_pair families with side-operand perturbations)
    ir = _ir()
    helper_chain = getattr(opt, "_chain_side_inputs_ok", None)
    helper_scalar = getattr(opt, "_is_scalar_const_value", None)
    if helper_chain is not None:
        kinds = ["chain", "absent", "scalar", "other"]
        for castlike in (False, True):
            for n in (1, 2, 3):
                for combo in itertools.product(kinds, repeat=n):
                    if combo.count("chain") > 1:
                        continue
                    chain_v = ir.Value(name="c", shape=ir.Shape([2, 3]), type=ir.TensorType(ir.DataType.FLOAT))
                    ins = []
                    for j, kd in enumerate(combo):
                        if kd == "chain":
                            ins.append(chain_v)
                        elif kd == "absent":
                            ins.append(None)
                        elif kd == "scalar":
                            ins.append(ir.Value(name=f"s{j}", const_value=ir.tensor(np.asarray(0.5, dtype=np.float32)),
                                                shape=ir.Shape([]), type=ir.TensorType(ir.DataType.FLOAT)))
                        else:
                            ins.append(ir.Value(name=f"o{j}", shape=ir.Shape([2, 3]), type=ir.TensorType(ir.DataType.FLOAT)))
                    node = ir.Node("", "CastLike" if castlike else "Max", inputs=ins, num_outputs=1)
                    try:
                        real = bool(helper_chain(node, chain_v))
                    except Exception:  # noqa: BLE001
                        continue
                    ask("chain", {"castlike": castlike, "ins": list(combo)}, real, None)
    if helper_scalar is not None:
        for size in (1, 2, 6):
            for shp in ([], [1], [size], [1, size]):
                if int(np.prod(shp)) != size:
                    continue
                v = ir.Value(name="k", const_value=ir.tensor(np.zeros(shp, dtype=np.float32)))
                ask("scalar", {"size": size, "init": False, "sh": shp}, bool(helper_scalar(v)), None)
        for shp in ([1], [1, 1], [2], [1, "B"], [1, None], None, []):
            v = mk_value(shp, "noinit")
            ask("scalar", {"size": None, "init": False, "sh": shp}, bool(helper_scalar(v)), None)

    answers = common.run_driver("C02G", lines)
    agree = drift = 0
    per_kind: dict[str, int] = {}
    accepted_by_code: dict[str, int] = {}
    bad: list[tuple] = []
    for (kind, payload, real, ctx), ans in zip(meta, answers):
        if ans.startswith("error"):
            raise RuntimeError(f"C02G driver: {ans} on {payload}")
        per_kind[kind] = per_kind.get(kind, 0) + 1
        parts = ans.split()
        lean = parts[0] == "true"
        if kind == "inv" and (parts[1] != "true" or parts[2] != "true"):
            # not permutations: outside the domain of the theorem (ONNX perm attributes are permutations)
            continue
        if real is None:
            continue
        if real:
            tag = kind + (":pass" if ctx else ":helper")
            accepted_by_code[tag] = accepted_by_code.get(tag, 0) + 1
        if real == lean:
            agree += 1
        elif real and not lean:
            bad.append((kind, payload, ctx))
        else:
            drift += 1        # code more conservative than the model: fine
        chk.count({"guard": kind, "input": payload, "code": real, "model": lean}, nontrivial=bool(real or lean))
    stats.update({"requests": len(lines), "per_guard": per_kind, "agree": agree, "accepted_by_code": accepted_by_code,
                  "code_more_conservative_than_model": drift, "code_accepts_model_rejects": len(bad)})

    # search every disagreement for a concrete failing input; per guard, report the failing ones (at most
    # three), or — when none of its disagreements yields one — a single `no-failing-input-found`
    by_kind: dict[str, list] = {}
    seen: set[str] = set()
    for kind, payload, ctx in bad:
        sig = kind + json.dumps(payload, sort_keys=True)
        if sig in seen:
            continue
        seen.add(sig)
        by_kind.setdefault(kind, []).append(payload)
    for kind, payloads in by_kind.items():
        found = []
        for payload in payloads[:40]:
            failing = _search(kind, payload, None)
            if failing:
                found.append((payload, failing))
            if len(found) >= 3:
                break
        base = {"guard": kind, "obligation": "code accepts ⇒ model accepts (Props/C02Guards.lean)",
                "disagreements": len(payloads),
                "how": "harness/c02_guards.py: build the minimal graph for this guard input, run the named pass, "
                       "execute before/after in onnxruntime on the given shapes"}
        for payload, failing in found:
            key = {"pass": "<guard>", "guard": kind, "family": "guard_kernel", "effect": "differ",
                   "input": json.dumps(payload, sort_keys=True)}
            chk.finding(key, f"guard {kind} accepts {json.dumps(payload)}: the licensed rewrite changes results "
                             f"({failing['why']})", dict(base, input=payload, failing_input=failing))
        if not found:
            chk.violation(dict(base, input=payloads[0], failing_input=None), name=f"guard-correspondence-{kind}",
                          no_failing_input=True)
    return stats


def _search(kind: str, payload: dict, ctx: Any) -> Optional[dict]:
    """a concrete input on which the rewrite licensed by the wrongly accepting guard changes the result."""
    rs = np.random.RandomState(0)
    if kind == "sc" and payload.get("a") is not None and payload.get("b") is not None and \
            len(payload["a"]) == len(payload["b"]):
        ce = counterexample_shapes(payload["a"], payload["b"])
        if ce is None:
            return None
        sa, sb, sym = ce
        m = reshape_pair_model(payload["a"], payload["b"])
        after = run_single_pass(m, "remove_redundant_reshape_pairs_ir")
        if after is None:
            return None
        feeds = {"x": rs.rand(*sa).astype(np.float32), "shp": np.asarray(sb, dtype=np.int64)}
        why = differs(m, after, feeds)
        if why:
            return {"x_shape": list(sa), "target_shape": list(sb), "symbols": sym, "why": why,
                    "after_ops": op_types(after)}
        return None
    if kind == "inv":
        p, q = payload["p1"], payload["p2"]
        if len(p) != len(q) or not 1 <= len(p) <= 5:
            return None
        shape = [2, 3, 5, 7, 11][:len(p)]
        m = transpose_pair_model(p, q, shape)
        after = run_single_pass(m, "remove_redundant_transpose_pairs_ir")
        if after is None:
            return None
        why = differs(m, after, {"x": rs.rand(*shape).astype(np.float32)})
        return {"x_shape": shape, "why": why, "after_ops": op_types(after)} if why else None
    if kind == "chain":
        m = chain_model(bool(payload.get("castlike")), list(payload.get("ins", [])))
        if m is None:
            return None
        after = run_single_pass(m, "remove_redundant_transpose_pairs_ir")
        if after is None:
            return None
        feeds = {i.name: (rs.rand(*[d.dim_value for d in i.type.tensor_type.shape.dim]) * 4).astype(np.float32)
                 for i in m.graph.input}
        why = differs(m, after, feeds)
        return {"graph": "x(2,3,5) → Transpose[2,0,1] → " + ("CastLike" if payload.get("castlike") else "Max") +
                         str(payload.get("ins")) + " → Transpose[1,2,0]; non-scalar operands are inputs of shape (5,2,3)",
                "why": why, "after_ops": op_types(after)} if why else None
    if kind == "exact":
        src, tgt = payload["src"], payload["tgt"]
        for sa in instances(src, {"A": 2, "B": 3}):
            m = identity_reshape_model(src, payload.get("dst"), tgt)
            after = run_single_pass(m, "remove_identity_reshapes_ir")
            if after is None:
                return None
            why = differs(m, after, {"x": rs.rand(*sa).astype(np.float32)})
            if why:
                return {"x_shape": list(sa), "why": why, "after_ops": op_types(after)}
        return None
    return None
