/- Line-protocol driver for the C09 model: one JSON object per line, one answer line each.

   {"op":"pol","name":"float32","flag":true}                       -> 11 | none
   {"op":"entry","e":"bc|lit|is|cc|av|iv","flag":b,"fm":b,"keep":b,
      "aval":"f16|f32|f64|none","prefer":…,"src":"f64"}            -> code=11 path=f64>f64 final=f64 node=false
                                                                       (av / iv: code=1)
   {"op":"scan","bad":"double|narrow","tree":{"l":..,"o":[[kind,code]..],"k":[..]}}
                                                                    -> ok | bad <a/b/c>:<kind>:<code>
   {"op":"ctx","flag":b,"path":["fn"|"sub"|"subkeep",…]}            -> flag=1 fm=1 keep=0
   {"op":"site","flag":b,"path":[…],"src":{"k":"closure","aval":..,"arr":..} | {"k":"scan","aval":..,"arr":..} |
      {"k":"lit","aval":..,"prefer":..,"src":..} | {"k":"kw","aval":..} | {"k":"hscalar","src":..} | {"k":"hbind","dt":..}}
                                                                    -> code=11 path=f64>f64>f64 final=f64 node=true
   {"op":"irnp","code":null|n,"default":"none|float32|float64"}     -> f64 | none
   {"op":"x64","glob":b,"loc":null|b,"prog":P}                      -> glob=b raised=b seen=01…
      P ::= "skip" | "raise" | {"set":b} | {"seq":[P,P]} | {"temp":b,"body":P} | {"force":b,"body":P}
-/
import Lean.Data.Json
import J2O.Model.C09
import J2O.Model.C09Scope
open Lean J2O.C09

def fkOf : String → Option FK
  | "f16" => some .f16 | "f32" => some .f32 | "f64" => some .f64 | _ => none

def fkStr : FK → String
  | .f16 => "f16" | .f32 => "f32" | .f64 => "f64"

def optFk (j : Json) (key : String) : Option FK :=
  match j.getObjValAs? String key with
  | .ok s => fkOf s
  | .error _ => none

def getB (j : Json) (key : String) : Bool :=
  match j.getObjValAs? Bool key with
  | .ok b => b
  | .error _ => false

partial def toTree (j : Json) : Except String Tree := do
  let l ← j.getObjValAs? String "l"
  let os ← j.getObjValAs? (Array Json) "o"
  let ks ← j.getObjValAs? (Array Json) "k"
  let mut occs : List Occ := []
  for o in os.toList.reverse do
    let a ← o.getArr?
    if a.size != 2 then throw "occ arity"
    let kind ← a[0]!.getStr?
    let code ← a[1]!.getNat?
    occs := ⟨kind, code⟩ :: occs
  let mut kids : List Tree := []
  for k in ks.toList.reverse do
    kids := (← toTree k) :: kids
  return .node l occs kids

partial def toProg (j : Json) : Except String Prog :=
  match j with
  | .str "skip" => pure .skip
  | .str "raise" => pure .raise
  | _ =>
    match j.getObjValAs? Bool "set" with
    | .ok b => pure (.set b)
    | .error _ =>
      match j.getObjValAs? (Array Json) "seq" with
      | .ok arr =>
        if arr.size != 2 then throw "seq arity" else do
          let a ← toProg arr[0]!
          let b ← toProg arr[1]!
          pure (.seq a b)
      | .error _ =>
        match j.getObjValAs? Bool "temp", j.getObjVal? "body" with
        | .ok e, .ok body => do pure (.withCm (.temp e) (← toProg body))
        | _, _ =>
          match j.getObjValAs? Bool "force", j.getObjVal? "body" with
          | .ok t, .ok body => do pure (.withCm (.force t) (← toProg body))
          | _, _ => throw "bad prog"

def bitS (b : Bool) : String := if b then "1" else "0"

def boundStr (b : Bound) (flag : Bool) : String :=
  s!"code={b.code} path={">".intercalate (b.path.map fkStr)} final={fkStr (b.final flag)} node={b.asNode}"

def childOf : String → Except String Child
  | "fn" => pure .fnScope | "sub" => pure .subgraph | "subkeep" => pure .subgraphKeep
  | s => throw s!"bad child kind {s}"

def pathOfJ (j : Json) : Except String (List Child) := do
  let arr ← j.getObjValAs? (Array Json) "path"
  arr.toList.mapM (fun x => do childOf (← x.getStr?))

def srcOfJ (j : Json) : Except String Src := do
  let k ← j.getObjValAs? String "k"
  match k with
  | "closure" => pure (.closure (optFk j "aval") ((optFk j "arr").getD .f32))
  | "scan" => pure (.scanConst ((optFk j "aval").getD .f32) ((optFk j "arr").getD .f32))
  | "lit" => pure (.literal (optFk j "aval") (optFk j "prefer") ((optFk j "src").getD .f64))
  | "kw" => pure (.staticKw ((optFk j "aval").getD .f32))
  | "hscalar" => pure (.helperScalar ((optFk j "src").getD .f32))
  | "hbind" => pure (.helperBind ((optFk j "dt").getD .f32))
  | _ => throw "bad src kind"

def stepJ (j : Json) : Except String String := do
  let op ← j.getObjValAs? String "op"
  match op with
  | "pol" =>
    let name ← j.getObjValAs? String "name"
    match refPolicy (classify name) (getB j "flag") with
    | some c => pure (toString c)
    | none => pure "none"
  | "entry" =>
    let e ← j.getObjValAs? String "e"
    let c : Ctx := ⟨getB j "flag", getB j "fm", getB j "keep"⟩
    let aval := optFk j "aval"
    let prefer := optFk j "prefer"
    let src := (optFk j "src").getD .f32
    match e with
    | "bc" => pure (boundStr (bindConst refP c aval src) c.flag)
    | "lit" => pure (boundStr (bindLiteral refP c aval prefer src) c.flag)
    | "is" => pure (boundStr (initScalar refP c src) c.flag)
    | "cc" => pure (boundStr (closedConst refP c.flag aval src) c.flag)
    | "av" => pure s!"code={allocValue refP c src}"
    | "iv" => pure s!"code={inputValue refP c src}"
    | _ => throw "bad entry"
  | "scan" =>
    let bad ← j.getObjValAs? String "bad"
    let t ← toTree (← j.getObjVal? "tree")
    let f : Nat → Bool := if bad == "double" then isDouble else isNarrowFloat
    match firstBad f t with
    | none => pure "ok"
    | some (p, o) => pure s!"bad {"/".intercalate p}:{o.kind}:{o.code}"
  | "ctx" =>
    let c := descend (rootCtx (getB j "flag")) (← pathOfJ j)
    pure s!"flag={bitS c.flag} fm={bitS c.fm} keep={bitS c.keep}"
  | "site" =>
    let flag := getB j "flag"
    let s : Site := ⟨← pathOfJ j, ← srcOfJ (← j.getObjVal? "src")⟩
    match s.bound refP flag with
    | some b => pure (boundStr b flag)
    | none => pure "none"
  | "irnp" =>
    let code : Option Nat := match j.getObjValAs? Nat "code" with
      | .ok n => some n
      | .error _ => none
    let d : Option FK := match j.getObjValAs? String "default" with
      | .ok "float32" => some .f32 | .ok "float64" => some .f64 | .ok "float16" => some .f16 | _ => none
    match irToNp code d with
    | some k => pure (fkStr k)
    | none => pure "none"
  | "x64" =>
    let g := getB j "glob"
    let loc : Option Bool := match j.getObjValAs? Bool "loc" with
      | .ok b => some b
      | .error _ => none
    let p ← toProg (← j.getObjVal? "prog")
    let r := run p ⟨g, loc⟩
    pure s!"glob={bitS r.cfg.glob} raised={bitS r.raised} seen={String.join (r.seen.map bitS)}"
  | _ => throw "bad op"

def step (line : String) : String :=
  match Json.parse line with
  | .error e => s!"bad-json {e}"
  | .ok j =>
    match stepJ j with
    | .ok s => s
    | .error e => s!"bad-op {e}"

partial def loop (h : IO.FS.Stream) : IO Unit := do
  let line ← h.getLine
  if line.isEmpty then return ()
  IO.println (step line)
  loop h

def main : IO Unit := do loop (← IO.getStdin)
