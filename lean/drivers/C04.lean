/- Line-protocol driver for the C04 model: one JSON request per line, one JSON answer per line.

  {"op":"session","syms":[..],"bindings":[[..],..],"events":[EV,..]}
     EV = {"ev":"init","table":[[key,v,axis,EXPR|null],..]}
        | {"ev":"bind","v":name,"dims":[[key|null,axis,EXPR|null],..]}
        | {"ev":"scope","parent":[[key,v,axis],..],"fin":name,"dims":[[key|null,axis,EXPR|null],..]}
        | {"ev":"call","exprs":[EXPR | {"int":n},..]}
     -> {"calls":[{"trees":[..],"missing":[..],"vals":[[[memo,plain,jax] per binding] per expr],
                   "fits":[bool per expr: no node of the memoised chain leaves int64 on any binding]},..],
         "table":[[key,v,axis],..],"consistent":bool (keysConsistent of all lowered expressions),
         "cache_keys":[..] (final memo keys, newest first)}
  {"op":"scoperun","ops":[SOP,..]}   the scope machine of Model/C04Scope.lean, started on the stack [[]]
     SOP = {"o":"record","v":name,"dims":[[key|null,axis],..]} | {"o":"enter","ins":[{"fin":name,"dims":[..]},..]}
         | {"o":"sub"} | {"o":"exit"} | {"o":"snap","id":n}   (snap: report the current context's table)
     -> {"snaps":[[id,[[key,v,axis],..]],..],"depth":n}
  {"op":"ops","pairs":[[x,y],..]} -> {"tdiv":[..],"mod":[..],"floordiv":[..],"sub":[..],"max":[..],"min":[..],
                                       "fdiv":[..],"fmod":[..],"pow":[..]}

  EXPR = {"k":str,"t":[{"ktc":str,"kt":str,"c":int,"f":[{"kfp":str,"p":nat,"var":str} |
                        {"kfp":str,"p":nat,"op":str,"kop":str,"args":[EXPR,EXPR]}]}]}
-/
import Lean.Data.Json
import J2O.Model.C04
import J2O.Model.C04Scope
open Lean J2O.C04

abbrev R := Except String

def opKind : String → R OpKind
  | "floordiv" => pure .floordiv
  | "mod" => pure .mod
  | "max" => pure .max
  | "min" => pure .min
  | s => throw s!"unsupported-op:{s}"

mutual
  partial def parseExpr (j : Json) : R Expr := do
    let k ← (← j.getObjVal? "k").getStr?
    let ts ← (← j.getObjVal? "t").getArr?
    let terms ← ts.toList.mapM parseTC
    pure (.mk k (terms.foldr (fun (a : String × String × J2O.C04.Term × Int) acc => .cons a.1 a.2.1 a.2.2.1 a.2.2.2 acc) .nil))
  partial def parseTC (j : Json) : R (String × String × J2O.C04.Term × Int) := do
    let ktc ← (← j.getObjVal? "ktc").getStr?
    let kt ← (← j.getObjVal? "kt").getStr?
    let c ← (← j.getObjVal? "c").getInt?
    let fs ← (← j.getObjVal? "f").getArr?
    let facs ← fs.toList.mapM parseFP
    pure (ktc, kt, facs.foldr (fun (a : String × Factor × Nat) acc => .mul a.1 a.2.1 a.2.2 acc) .one, c)
  partial def parseFP (j : Json) : R (String × Factor × Nat) := do
    let kfp ← (← j.getObjVal? "kfp").getStr?
    let p ← (← j.getObjVal? "p").getNat?
    match j.getObjVal? "var" with
    | .ok v => pure (kfp, .var (← v.getStr?), p)
    | .error _ =>
      let o ← opKind (← (← j.getObjVal? "op").getStr?)
      let kop ← (← j.getObjVal? "kop").getStr?
      let args ← (← j.getObjVal? "args").getArr?
      if args.size ≠ 2 then throw s!"arity:{args.size}"
      pure (kfp, .op kop o (← parseExpr args[0]!) (← parseExpr args[1]!), p)
end

def parseTable (j : Json) : R OTable := do
  let rows ← j.getArr?
  rows.toList.mapM fun r => do
    let a ← r.getArr?
    pure ((← a[0]!.getStr?), (⟨← a[1]!.getStr?, ← a[2]!.getNat?⟩ : Origin))

/-- dims of a bind/scope event: key (none = integer dim), axis, expression (for the meaning). -/
def parseDims (j : Json) : R (List (Option String × Nat × Option Expr)) := do
  let rows ← j.getArr?
  rows.toList.mapM fun r => do
    let a ← r.getArr?
    let key := match a[0]!.getStr? with | .ok s => some s | .error _ => none
    let e ← match a[2]! with
      | .null => pure none
      | j => (some <$> parseExpr j)
    pure (key, ← a[1]!.getNat?, e)

structure St where
  table : OTable := []
  cache : Cache := []
  /-- every (value, axis) ever recorded with the expression it was recorded for -/
  recs : List (String × Nat × Expr) := []
  calls : Array Json := #[]
  /-- every expression lowered through this context's memo, in order -/
  exprs : List Expr := []

def sigmaOf (syms : List String) (vals : List Int) : String → Int := fun s =>
  match (syms.zip vals).find? (·.1 == s) with
  | some p => p.2
  | none => 0

def shapesOf (recs : List (String × Nat × Expr)) (σ : String → Int) : String → Nat → Int := fun v ax =>
  match recs.find? (fun r => r.1 == v && r.2.1 == ax) with
  | some r => r.2.2.evalJax σ
  | none => 0

def dedupTable (t : OTable) : List (String × Origin) :=
  t.foldl (fun acc e => if acc.any (·.1 == e.1) then acc else acc ++ [e]) []

def stepEvent (syms : List String) (bindings : List (List Int)) (st : St) (ev : Json) : R St := do
  let kind ← (← ev.getObjVal? "ev").getStr?
  match kind with
  | "init" =>
    let rows ← (← ev.getObjVal? "table").getArr?
    let recs ← rows.toList.filterMapM fun r => do
      let a ← r.getArr?
      if a.size < 4 then pure none else
        match a[3]! with
        | .null => pure none
        | j => pure (some ((← a[1]!.getStr?), (← a[2]!.getNat?), (← parseExpr j)))
    pure { st with table := ← parseTable (← ev.getObjVal? "table"), recs := recs ++ st.recs }
  | "bind" =>
    let v ← (← ev.getObjVal? "v").getStr?
    let dims ← parseDims (← ev.getObjVal? "dims")
    let recs := dims.filterMap fun d => d.2.2.map fun e => (v, d.2.1, e)
    pure { st with table := st.table.apply (.bind v (dims.map fun d => (d.1, d.2.1))),
                   recs := recs ++ st.recs }
  | "scope" =>
    let parent ← parseTable (← ev.getObjVal? "parent")
    let fin ← (← ev.getObjVal? "fin").getStr?
    let dims ← parseDims (← ev.getObjVal? "dims")
    let recs := dims.filterMap fun d => d.2.2.map fun e => (fin, d.2.1, e)
    pure { st with table := st.table.apply (.scope parent fin (dims.map fun d => (d.1, d.2.1))),
                   recs := recs ++ st.recs }
  | "call" =>
    -- items are EXPR objects or {"int": n} (a Python int in the list: `_get_scalar` only)
    let items ← (← (← ev.getObjVal? "exprs").getArr?).toList.mapM fun j =>
      match j.getObjVal? "int" with
      | .ok n => do pure (Sum.inl (← n.getInt?) : Sum Int Expr)
      | .error _ => do pure (Sum.inr (← parseExpr j))
    let org := st.table.org
    let step := fun (acc : List (IntProg × Option Expr) × Cache) (it : Sum Int Expr) =>
      match it with
      | .inl n => let r := getScalar n acc.2; (acc.1 ++ [(r.1, none)], r.2)
      | .inr e => let r := lowerExprC org e acc.2; (acc.1 ++ [(r.1, some e)], r.2)
    let r := items.foldl step ([], st.cache)
    let es := items.filterMap fun it => match it with | .inr e => some e | .inl _ => none
    let missing := (es.flatMap Expr.vars).filter (fun n => (st.table.lookup n).isNone) |>.eraseDups
    let vals := r.1.map fun (tree, eo) =>
      Json.arr <| bindings.toArray.map fun b =>
        let σ := sigmaOf syms b
        let sh := shapesOf st.recs σ
        match eo with
        | some e => Json.arr #[Json.num (tree.eval sh), Json.num ((lowerExpr org e).eval sh), Json.num (e.evalJax σ)]
        | none => Json.arr #[Json.num (tree.eval sh), Json.num (tree.eval sh), Json.num (tree.eval sh)]
    let fits := r.1.map fun (tree, _) =>
      Json.bool <| bindings.all fun b =>
        let sh := shapesOf st.recs (sigmaOf syms b)
        tree.fits sh && tree.eval64 sh == tree.eval sh
    let out := Json.mkObj [("trees", Json.arr (r.1.toArray.map fun t => Json.str t.1.render)),
                           ("missing", Json.arr (missing.toArray.map Json.str)),
                           ("vals", Json.arr vals.toArray), ("fits", Json.arr fits.toArray)]
    pure { st with cache := r.2, calls := st.calls.push out, exprs := st.exprs ++ es }
  | k => throw s!"bad-event:{k}"

/-- dims without expressions: `[[key|null, axis], ..]` -/
def parseDims2 (j : Json) : R Dims := do
  let rows ← j.getArr?
  rows.toList.mapM fun r => do
    let a ← r.getArr?
    let key := match a[0]!.getStr? with | .ok s => some s | .error _ => none
    pure (key, ← a[1]!.getNat?)

def tableJson (t : OTable) : Json :=
  Json.arr ((dedupTable t).map fun (k, o) => Json.arr #[Json.str k, Json.str o.v, Json.num (o.axis : Int)]).toArray

def scopeStep (acc : Stack × Array Json) (j : Json) : R (Stack × Array Json) := do
  let o ← (← j.getObjVal? "o").getStr?
  match o with
  | "record" =>
    pure (acc.1.step (.record (← (← j.getObjVal? "v").getStr?) (← parseDims2 (← j.getObjVal? "dims"))), acc.2)
  | "enter" =>
    let ins ← (← (← j.getObjVal? "ins").getArr?).toList.mapM fun i => do
      pure ((← (← i.getObjVal? "fin").getStr?), (← parseDims2 (← i.getObjVal? "dims")))
    pure (acc.1.step (.enter ins), acc.2)
  | "sub" => pure (acc.1.step .sub, acc.2)
  | "exit" => pure (acc.1.step .exit, acc.2)
  | "snap" =>
    let id ← (← j.getObjVal? "id").getInt?
    let t := match acc.1 with | t :: _ => tableJson t | [] => Json.null
    pure (acc.1, acc.2.push (Json.arr #[Json.num id, t]))
  | k => throw s!"bad-scope-op:{k}"

def ints (j : Json) : R (List Int) := do (← j.getArr?).toList.mapM (·.getInt?)

def handle (line : String) : R Json := do
  let j ← Json.parse line
  let op ← (← j.getObjVal? "op").getStr?
  match op with
  | "session" =>
    let syms ← (← (← j.getObjVal? "syms").getArr?).toList.mapM (·.getStr?)
    let bindings ← (← (← j.getObjVal? "bindings").getArr?).toList.mapM ints
    let evs ← (← j.getObjVal? "events").getArr?
    let st ← evs.toList.foldlM (stepEvent syms bindings) {}
    let tab := (dedupTable st.table).map fun (k, o) => Json.arr #[Json.str k, Json.str o.v, Json.num (o.axis : Int)]
    let keys := st.cache.map fun (k, _) => match k with
      | .num n => Json.num n
      | .txt t => Json.str t
    pure (Json.mkObj [("calls", Json.arr st.calls), ("table", Json.arr tab.toArray),
                      ("consistent", Json.bool (keysConsistent st.exprs)),
                      ("cache_keys", Json.arr keys.toArray)])
  | "scoperun" =>
    let ops ← (← j.getObjVal? "ops").getArr?
    let r ← ops.toList.foldlM scopeStep (([[]] : Stack), (#[] : Array Json))
    pure (Json.mkObj [("snaps", Json.arr r.2), ("depth", Json.num (r.1.length : Int))])
  | "ops" =>
    let pairs ← (← (← j.getObjVal? "pairs").getArr?).toList.mapM ints
    let col (f : Int → Int → Int) := Json.arr (pairs.toArray.map fun p => Json.num (f p[0]! p[1]!))
    pure (Json.mkObj [("tdiv", col Int.tdiv), ("mod", col (OpKind.onnx .mod)),
                      ("floordiv", col (OpKind.onnx .floordiv)), ("sub", col (fun a b => a - b)),
                      ("max", col (OpKind.onnx .max)), ("min", col (OpKind.onnx .min)),
                      ("fdiv", col (OpKind.jax .floordiv)), ("fmod", col (OpKind.jax .mod)),
                      ("pow", Json.arr (pairs.toArray.map fun p =>
                          Json.num ((IntProg.pow (.const p[0]!) (.const p[1]!)).eval (fun _ _ => 0))))])
  | o => throw s!"bad-op:{o}"

partial def loop (h : IO.FS.Stream) : IO Unit := do
  let line ← h.getLine
  if line.isEmpty then return ()
  match handle line with
  | .ok j => IO.println j.compress
  | .error e => IO.println (Json.mkObj [("error", Json.str e)]).compress
  loop h

def main : IO Unit := do loop (← IO.getStdin)
