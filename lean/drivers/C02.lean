/- Line-protocol driver for the C02 validator.
   request  : one JSON object per line  {"before":[term…], "after":[term…]}
   term     : {"l":id,"dt":n|null,"sh":[dim…]|null,"sc":bool}            leaf
              {"b":bool}                                                  boolean scalar constant
              {"op":str,"dom":str,"attrs":str,"i":outIdx,"perm":[…]?,"to":n?,
               "dt":…,"sh":…,"a":[term…]}                                node application
   dim      : nat (known) | string (symbol) | null (unknown)
   answer   : certified | rejected | error:<msg>          (+ " size=<n>")
-/
import Lean.Data.Json
import J2O.Model.C02
open Lean (Json)
open J2O J2O.C02

def parseDim (j : Json) : Dim :=
  match j with
  | .num n => if n.exponent == 0 && n.mantissa ≥ 0 then .known n.mantissa.toNat else .unk
  | .str s => .sym s
  | _ => .unk

def parseAnn (j : Json) : Ann :=
  let dt := match j.getObjVal? "dt" with
    | .ok (.num n) => if n.exponent == 0 && n.mantissa ≥ 0 then some n.mantissa.toNat else none
    | _ => none
  let sh := match j.getObjVal? "sh" with
    | .ok (.arr a) => some (a.toList.map parseDim)
    | _ => none
  ⟨dt, sh⟩

def natList? (j : Json) : Option (List Nat) :=
  match j with
  | .arr a => a.toList.mapM (fun x => match x with
      | .num n => if n.exponent == 0 && n.mantissa ≥ 0 then some n.mantissa.toNat else none
      | _ => none)
  | _ => none

partial def parseTerm (j : Json) : Except String Term := do
  match j.getObjVal? "l" with
  | .ok idj =>
    let id ← idj.getNat?
    let sc := match j.getObjVal? "sc" with | .ok (.bool b) => b | _ => false
    return .leaf id (parseAnn j) sc
  | .error _ =>
  match j.getObjVal? "b" with
  | .ok (.bool b) => return .boolc b
  | _ =>
    let op ← (← j.getObjVal? "op").getStr?
    let dom := match j.getObjVal? "dom" with | .ok (.str s) => s | _ => ""
    let attrs := match j.getObjVal? "attrs" with | .ok (.str s) => s | _ => ""
    let idx := match j.getObjVal? "i" with | .ok v => (v.getNat?.toOption.getD 0) | _ => 0
    let argsJ ← (← j.getObjVal? "a").getArr?
    let args ← argsJ.toList.mapM parseTerm
    let ann := parseAnn j
    let std := dom == ""
    let head : Head :=
      if std && op == "Transpose" then
        match (j.getObjVal? "perm").toOption.bind natList? with
        | some p => .transpose p
        | none => .opq op attrs idx
      else if std && op == "Cast" then
        match (j.getObjVal? "to").toOption.bind (fun v => v.getNat?.toOption) with
        | some t => .cast t
        | none => .opq op attrs idx
      else if std && op.startsWith "Reduce" && args.length == 1 &&
          ((j.getObjVal? "axes").toOption.bind natList?).isSome then
        .reduce (op ++ "|" ++ attrs) (((j.getObjVal? "axes").toOption.bind natList?).getD [])
      else if std && op == "Reshape" && args.length == 2 && attrs == "" then .reshape
      else if std && op == "CastLike" && args.length == 2 then .castLike
      else if std && op == "Identity" && args.length == 1 then .identity
      else if std && pointwiseOps.contains op && idx == 0 then .pw op attrs
      else .opq (dom ++ "::" ++ op) attrs idx
    return .app head ann (Term.ofList args)

def handle (line : String) : String :=
  match Json.parse line with
  | .error e => s!"error:json {e}"
  | .ok j =>
    match j.getObjVal? "before", j.getObjVal? "after" with
    | .ok (.arr b), .ok (.arr a) =>
      match b.toList.mapM parseTerm, a.toList.mapM parseTerm with
      | .ok bt, .ok at_ =>
        let tb := Term.ofList bt
        let ta := Term.ofList at_
        let r := if certify tb ta then "certified" else "rejected"
        s!"{r} size={tb.size + ta.size}"
      | .error e, _ => s!"error:term {e}"
      | _, .error e => s!"error:term {e}"
    | _, _ => "error:missing before/after"

partial def loop (h : IO.FS.Stream) : IO Unit := do
  let line ← h.getLine
  if line.isEmpty then return ()
  IO.println (handle line)
  loop h

def main : IO Unit := do loop (← IO.getStdin)
