/- Line-protocol driver for the C02 validator.
   request  : one JSON object per line  {"before":[term…], "after":[term…]}
   term     : {"l":id,"dt":n|null,"sh":[dim…]|null,"sc":bool}            leaf
              {"b":bool}                                                  boolean scalar constant
              {"op":str,"dom":str,"attrs":str,"i":outIdx,"perm":[…]?,"to":n?,
               "dt":…,"sh":…,"a":[term…]}                                node application
   dim      : nat (known) | string (symbol) | null (unknown)
   answer   : certified | rejected | error:<msg>          (+ " size=<n>")
-/
import Lean.Data.Json
import J2O.Model.TermJson
open Lean (Json)
open J2O J2O.C02 J2O.TermJson

def handle (line : String) : String :=
  match Json.parse line with
  | .error e => s!"error:json {e}"
  | .ok j =>
    match j.getObjVal? "before", j.getObjVal? "after" with
    | .ok (.arr b), .ok (.arr a) =>
      match b.toList.mapM parseTerm, a.toList.mapM parseTerm with
      | .ok bt, .ok at_ =>
        let tb := Term.ofList bt
        let ta := Term.ofList at_
        let r := if certify tb ta then "certified" else "rejected"
        s!"{r} size={tb.size + ta.size}"
      | .error e, _ => s!"error:term {e}"
      | _, .error e => s!"error:term {e}"
    | _, _ => "error:missing before/after"

partial def loop (h : IO.FS.Stream) : IO Unit := do
  let line ← h.getLine
  if line.isEmpty then return ()
  IO.println (handle line)
  loop h

def main : IO Unit := do loop (← IO.getStdin)
