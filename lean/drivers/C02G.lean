/- Line-protocol driver for the C02 guard kernels (`Model/C02Guards.lean`).
   request (one JSON object per line), answer `true` | `false` | `error:<msg>`:
     {"g":"sc","a":dims|null,"b":dims|null}                         _shapes_compatible
     {"g":"inv","p1":[nat…],"p2":[nat…]}                            _is_inverse_perm  (answer "<inv> <valid1> <valid2>")
     {"g":"exact","src":dims|null,"dst":dims|null,"tgt":[int…]}     remove_identity_reshapes_ir decision
     {"g":"chain","castlike":bool,"ins":["chain"|"absent"|"scalar"|"other"…]}   _chain_side_inputs_ok
     {"g":"scalar","size":nat|null,"init":bool,"sh":dims|null}      _is_scalar_const_value
     {"g":"edit","nodes":[[f,[ins…],out]…],"outs":[…],"ops":[["replace",old,new] | ["remove",[out…]]…]}
         answer: the edited graph as  nodes=<f:ins>out;… outs=…   (onnx_ir replace_all_uses_with / graph.remove)
   dims : list of  nat (literal) | string (symbol) | null (unknown)
-/
import Lean.Data.Json
import J2O.Model.TermJson
import J2O.Model.C02Guards
import J2O.Model.GraphEdit
open Lean (Json)
open J2O J2O.C02 J2O.TermJson J2O.C02.Guards

def dims? (j : Except String Json) : Option (List Dim) :=
  match j with
  | .ok (.arr a) => some (a.toList.map parseDim)
  | _ => none

def ints? (j : Json) : Option (List Int) :=
  match j with
  | .arr a => a.toList.mapM (fun x => match x with
      | .num n => if n.exponent == 0 then some n.mantissa else none
      | _ => none)
  | _ => none

def b2s (b : Bool) : String := if b then "true" else "false"

def nat? (j : Json) : Option Nat :=
  match j with
  | .num n => if n.exponent == 0 && n.mantissa ≥ 0 then some n.mantissa.toNat else none
  | _ => none

def node? (j : Json) : Option GraphEdit.Node :=
  match j with
  | .arr a =>
    match a.toList with
    | [f, ins, out] => do
      let f ← nat? f
      let ins ← natList? ins
      let out ← nat? out
      pure ⟨f, ins, out⟩
    | _ => none
  | _ => none

def applyOp (g : GraphEdit.Graph) (j : Json) : Option GraphEdit.Graph :=
  match j with
  | .arr a =>
    match a.toList with
    | [.str "replace", o, n] => do
      let o ← nat? o
      let n ← nat? n
      pure (g.replaceUses o n)
    | [.str "remove", d] => do
      let d ← natList? d
      pure (g.remove d)
    | _ => none
  | _ => none

def showGraph (g : GraphEdit.Graph) : String :=
  let ns := g.nodes.map (fun n => s!"{n.f}:{n.ins}>{n.out}")
  s!"nodes={";".intercalate ns} outs={g.outs}"

def handleEdit (j : Json) : String :=
  match j.getObjVal? "nodes", j.getObjVal? "outs", j.getObjVal? "ops" with
  | .ok (.arr ns), .ok outs, .ok (.arr ops) =>
    match ns.toList.mapM node?, natList? outs with
    | some nodes, some outs =>
      match ops.toList.foldlM applyOp (⟨nodes, outs⟩ : GraphEdit.Graph) with
      | some g => showGraph g
      | none => "error:op"
    | _, _ => "error:graph"
  | _, _, _ => "error:edit"


def handle (line : String) : String :=
  match Json.parse line with
  | .error e => s!"error:json {e}"
  | .ok j =>
    match j.getObjVal? "g" with
    | .ok (.str "sc") => b2s (shapesCompatible (dims? (j.getObjVal? "a")) (dims? (j.getObjVal? "b")))
    | .ok (.str "inv") =>
      match (j.getObjVal? "p1").toOption.bind natList?, (j.getObjVal? "p2").toOption.bind natList? with
      | some p1, some p2 => s!"{b2s (isInversePerm p1 p2)} {b2s (validPerm p1)} {b2s (validPerm p2)}"
      | _, _ => "error:perm"
    | .ok (.str "exact") =>
      match (j.getObjVal? "tgt").toOption.bind ints? with
      | some tgt => b2s (identityReshapeGuard (dims? (j.getObjVal? "src")) (dims? (j.getObjVal? "dst")) tgt)
      | none => "error:tgt"
    | .ok (.str "chain") =>
      let cl := match j.getObjVal? "castlike" with | .ok (.bool b) => b | _ => false
      match j.getObjVal? "ins" with
      | .ok (.arr a) =>
        let ops := a.toList.map (fun x => match x with
          | .str "chain" => Operand.chain
          | .str "absent" => Operand.absent
          | .str "scalar" => Operand.scalarConst
          | _ => Operand.other)
        b2s (chainSideOk cl ops)
      | _ => "error:ins"
    | .ok (.str "scalar") =>
      let size := match j.getObjVal? "size" with
        | .ok (.num n) => if n.exponent == 0 && n.mantissa ≥ 0 then some n.mantissa.toNat else none
        | _ => none
      let init := match j.getObjVal? "init" with | .ok (.bool b) => b | _ => false
      b2s (isScalarConst size init (dims? (j.getObjVal? "sh")))
    | .ok (.str "edit") => handleEdit j
    | _ => "error:unknown guard"

partial def loop (h : IO.FS.Stream) : IO Unit := do
  let line ← h.getLine
  if line.isEmpty then return ()
  IO.println (handle line)
  loop h

def main : IO Unit := do loop (← IO.getStdin)
