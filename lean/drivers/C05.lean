/- Line-protocol driver for the C05 interface model: one JSON request per line, one JSON answer.
   Names: {"k":"pos","i":3,"nchw":false} | {"k":"other","s":"text"}.

   {"op":"keep","names":[N..]}                                   -> [bool..]       alwaysKeep
   {"op":"prune","ins":[{"name":N,"used":b}..]}                  -> [idx..]        kept positions
   {"op":"policy","rows":[[src,flag]..]}                         -> [code..]
   {"op":"reconcile","rows":[[jax,cur,flag]..]}                  -> [[code,cast]..]
   {"op":"resolve","ins":[N..],"n":k}                            -> {"ok":[idx..]} | {"err":s}
   {"op":"rename","vals":[[id,name]..],"pairs":[[id,target]..]}  -> {"ok":[name..]} | {"err":s}
   {"op":"materialize","inputs":[s..],"inits":[s..],"refs":[s..],"params":[s..]} -> [rendered name..]
   {"op":"predict","double":b,"args":[{"dtype":c,"dims":[s..],"nchw":b,"used":b}..]} -> [[name,dtype,[dims]]..]
   {"op":"outdims","outs":[{"dims":[s..],"nchw":b,"complex":b}..]}          -> [[dims]..]   predictOutDims
   {"op":"history","outs":[id..],"decl":[[id,dtype,[dims]]..],
    "steps":[{"k":"rauw","old":i,"new":j} | {"k":"setDecl","v":i,"dtype":c,"dims":[s..]} | {"k":"remove","vs":[i..]}]}
        -> {"ok":b,"badSteps":[k..],"outs":[id..],"iface":[[class,[dims]]..]}   run / runChecked / iface
        (declarations are abstracted to (class of the element type, dims) — `Decl.abstract`)
-/
import Lean.Data.Json
import J2O.Model.C05
open Lean J2O.C05

def getNat (j : Json) (k : String) : Except String Nat := do (← j.getObjVal? k).getNat?
def getBool (j : Json) (k : String) : Except String Bool := do (← j.getObjVal? k).getBool?
def getStr (j : Json) (k : String) : Except String String := do (← j.getObjVal? k).getStr?
def getArr (j : Json) (k : String) : Except String (Array Json) := do (← j.getObjVal? k).getArr?

def parseName (j : Json) : Except String J2O.C05.Name := do
  match (← getStr j "k") with
  | "pos" => return .pos (← getNat j "i") (← getBool j "nchw")
  | _ => return .other (← getStr j "s")

def strList (a : Array Json) : Except String (List String) := a.toList.mapM (·.getStr?)

def jbool (b : Bool) : Json := Json.bool b
def jnat (n : Nat) : Json := Json.num n
def jarr (l : List Json) : Json := Json.arr l.toArray

def handle (j : Json) : Except String Json := do
  match (← getStr j "op") with
  | "keep" =>
    let ns ← (← getArr j "names").toList.mapM parseName
    return jarr (ns.map (fun n => jbool (alwaysKeep n)))
  | "prune" =>
    let ins ← (← getArr j "ins").toList.mapM (fun e => do
      let n ← parseName (← e.getObjVal? "name")
      return (⟨n, ← getBool e "used"⟩ : GInput))
    -- positions kept (inputs may repeat, so report indices)
    let idx := (List.range ins.length).filter (fun i =>
      match ins[i]? with
      | some g => alwaysKeep g.name || g.used
      | none => false)
    -- consistency with the model function itself
    if (idx.filterMap (fun i => ins[i]?)) != prune ins then throw "prune/index mismatch"
    return jarr (idx.map jnat)
  | "policy" =>
    let rows ← (← getArr j "rows").toList.mapM (fun r => do
      let a ← r.getArr?
      return ((← a[0]!.getNat?), (← a[1]!.getBool?)))
    return jarr (rows.map (fun r => jnat (policy r.1 r.2)))
  | "reconcile" =>
    let rows ← (← getArr j "rows").toList.mapM (fun r => do
      let a ← r.getArr?
      return ((← a[0]!.getNat?), (← a[1]!.getNat?), (← a[2]!.getBool?)))
    return jarr (rows.map (fun r =>
      let x := reconcile r.1 r.2.1 r.2.2
      jarr [jnat x.1, jbool x.2]))
  | "resolve" =>
    let ins ← (← getArr j "ins").toList.mapM parseName
    let n ← getNat j "n"
    match resolvePositional ins n with
    | .ok l => return Json.mkObj [("ok", jarr (l.map jnat))]
    | .error e => return Json.mkObj [("err", Json.str e)]
  | "rename" =>
    let vals ← (← getArr j "vals").toList.mapM (fun r => do
      let a ← r.getArr?
      return (⟨← a[0]!.getNat?, ← a[1]!.getStr?⟩ : Val))
    let pairs ← (← getArr j "pairs").toList.mapM (fun r => do
      let a ← r.getArr?
      return ((← a[0]!.getNat?), (← a[1]!.getStr?)))
    match rename vals pairs with
    | .ok l => return Json.mkObj [("ok", jarr (l.map (fun v => Json.str v.name)))]
    | .error e => return Json.mkObj [("err", Json.str e)]
  | "materialize" =>
    let inputs ← strList (← getArr j "inputs")
    let inits ← strList (← getArr j "inits")
    let refs ← strList (← getArr j "refs")
    let params ← strList (← getArr j "params")
    return jarr ((materialize inputs inits refs params).map Json.str)
  | "predict" =>
    let double ← getBool j "double"
    let args ← (← getArr j "args").toList.mapM (fun e => do
      return (⟨← getNat e "dtype", ← strList (← getArr e "dims"), ← getBool e "nchw", ← getBool e "used"⟩ : ArgSpec))
    return jarr ((predictInputs double args).map (fun p =>
      jarr [Json.str p.name, jnat p.dtype, jarr (p.dims.map Json.str)]))
  | "outdims" =>
    let outs ← (← getArr j "outs").toList.mapM (fun e => do
      return (← strList (← getArr e "dims"), ← getBool e "nchw", ← getBool e "complex"))
    return jarr (outs.map (fun o => jarr ((predictOutDims o.1 o.2.1 o.2.2).map Json.str)))
  | "history" =>
    let outs ← (← getArr j "outs").toList.mapM (·.getNat?)
    let decl ← (← getArr j "decl").toList.mapM (fun r => do
      let a ← r.getArr?
      return ((← a[0]!.getNat?), (⟨← a[1]!.getNat?, ← strList (← a[2]!.getArr?)⟩ : Decl).abstract))
    let steps ← (← getArr j "steps").toList.mapM (fun e => do
      match (← getStr e "k") with
      | "rauw" => return Step.rauw (← getNat e "old") (← getNat e "new") true
      | "setDecl" => return Step.setDecl (← getNat e "v") (Decl.abstract ⟨← getNat e "dtype", ← strList (← getArr e "dims")⟩)
      | _ => return Step.remove (← (← getArr e "vs").toList.mapM (·.getNat?)))
    let s0 : GState := ⟨outs, declOfList decl⟩
    let s1 := run s0 steps
    let ok := (runChecked s0 steps).isSome
    let jd (d : Option Decl) : Json := match d with
      | some d => jarr [jnat d.dtype, jarr (d.dims.map Json.str)]
      | none => Json.null
    return Json.mkObj [("ok", jbool ok), ("badSteps", jarr ((badSteps s0 steps 0).map jnat)),
                       ("outs", jarr (s1.outs.map jnat)), ("iface", jarr ((iface s1).map jd))]
  | op => throw s!"unknown op {op}"

def step (line : String) : String :=
  match Json.parse line with
  | .error e => "{\"bad\":" ++ (Json.str e).compress ++ "}"
  | .ok j =>
    match handle j with
    | .ok r => r.compress
    | .error e => "{\"bad\":" ++ (Json.str e).compress ++ "}"

partial def loop (h : IO.FS.Stream) : IO Unit := do
  let line ← h.getLine
  if line.isEmpty then return ()
  IO.println (step line)
  loop h

def main : IO Unit := do loop (← IO.getStdin)
