/- debug helper (not registered): prints the erased normal forms of both sides of a request -/
import Lean.Data.Json
import J2O.Model.TermJson
open Lean (Json)
open J2O J2O.C02 J2O.TermJson

partial def shw : Term → String
  | .leaf id _ s => s!"L{id}" ++ (if s then "s" else "")
  | .boolc b => s!"B{b}"
  | .app h _ args => s!"{reprStr h}(" ++ shw args ++ ")"
  | .nil => ""
  | .cons t ts => shw t ++ ", " ++ shw ts

def handle (line : String) : String :=
  match Json.parse line with
  | .error e => s!"error:json {e}"
  | .ok j =>
    match j.getObjVal? "before", j.getObjVal? "after" with
    | .ok (.arr b), .ok (.arr a) =>
      match b.toList.mapM parseTerm, a.toList.mapM parseTerm with
      | .ok bt, .ok at_ =>
        let tb := Term.ofList bt
        let ta := Term.ofList at_
        s!"BEFORE {shw (normN 3 tb)}\nAFTER  {shw (normN 3 ta)}\n{certify tb ta}"
      | _, _ => "error:term"
    | _, _ => "error:missing before/after"

partial def loop (h : IO.FS.Stream) : IO Unit := do
  let line ← h.getLine
  if line.isEmpty then return ()
  IO.println (handle line)
  loop h

def main : IO Unit := do loop (← IO.getStdin)
