/- Line-protocol driver for the C13 patch machine (one JSON request per line).

   {"op":"run","isClass":[bool..],"mro":[[tgt..]..],"own":[[t,a,V]..],"ps":[[t,a,V,ownV|null,count]..],
    "reg":[[t,a,k]..],"prog":P,"keys":[[t,a]..]}
     V = {"tok":n} | {"static":n} | {"classm":n} | {"bound":n,"t":t} | {"wrap":k,"orig":V|null}
     P = {"t":"skip"|"raise"} | {"t":"seq","a":P,"b":P} | {"t":"catch","body":P}
       | {"t":"patches","specs":[S..],"body":P} | {"t":"monkey","faults":[F..],"body":P}
     S = {"tgt":t,"attr":a,"assign":V | "monkey":k,"fault":F}    F = "none"|"resolve"|"make"|"set"
   -> raised=<b> own=[t.a=V;..] ps=[t.a=V/ownV#c;..] look=[t.a=V;..]   (over "keys"; ownV = - if missing)
      V rendered as t5 | s5 | c5 | b5@2 | w3(V) | w3(-)
-/
import Lean.Data.Json
import J2O.Model.C13
open Lean J2O.C13

partial def parseVal (j : Json) : Option Val :=
  match (j.getObjValAs? Nat "tok").toOption with
  | some n => some (.tok n)
  | none =>
  match (j.getObjValAs? Nat "static").toOption with
  | some n => some (.static n)
  | none =>
  match (j.getObjValAs? Nat "classm").toOption with
  | some n => some (.classm n)
  | none =>
  match (j.getObjValAs? Nat "bound").toOption, (j.getObjValAs? Nat "t").toOption with
  | some n, some t => some (.bound n t)
  | _, _ =>
  match (j.getObjValAs? Nat "wrap").toOption, (j.getObjVal? "orig").toOption with
  | some k, some .null => some (.wrapNone k)
  | some k, some o => (parseVal o).map (.wrap k)
  | _, _ => none

partial def showVal : Val → String
  | .tok n => s!"t{n}"
  | .static n => s!"s{n}"
  | .classm n => s!"c{n}"
  | .bound n t => s!"b{n}@{t}"
  | .wrap k v => s!"w{k}({showVal v})"
  | .wrapNone k => s!"w{k}(-)"

def parseFault (s : String) : Option Fault :=
  match s with
  | "none" => some .none | "resolve" => some .resolve | "make" => some .make | "set" => some .set
  | _ => none

def optAll {α β} (f : α → Option β) : List α → Option (List β)
  | [] => some []
  | x :: xs => do let y ← f x; let ys ← optAll f xs; pure (y :: ys)

def parseSpec (j : Json) : Option Spec := do
  let t ← (j.getObjValAs? Nat "tgt").toOption
  let a ← (j.getObjValAs? Nat "attr").toOption
  let f ← parseFault (← (j.getObjValAs? String "fault").toOption)
  match (j.getObjValAs? Nat "monkey").toOption with
  | some k => pure ⟨t, a, .monkey k, f⟩
  | none => do
    let v ← parseVal (← (j.getObjVal? "assign").toOption)
    pure ⟨t, a, .assign v, f⟩

partial def parseProg (j : Json) : Option Prog := do
  let t ← (j.getObjValAs? String "t").toOption
  match t with
  | "skip" => pure .skip
  | "raise" => pure .raise
  | "seq" => do
    pure (.seq (← parseProg (← (j.getObjVal? "a").toOption)) (← parseProg (← (j.getObjVal? "b").toOption)))
  | "catch" => do pure (.catch (← parseProg (← (j.getObjVal? "body").toOption)))
  | "patches" => do
    let ss ← (j.getObjVal? "specs").toOption
    let specs ← optAll parseSpec (← ss.getArr?.toOption).toList
    pure (.patches specs (← parseProg (← (j.getObjVal? "body").toOption)))
  | "monkey" => do
    let fs ← (j.getObjValAs? (Array String) "faults").toOption
    let faults ← optAll parseFault fs.toList
    pure (.monkey faults (← parseProg (← (j.getObjVal? "body").toOption)))
  | _ => none

def natAt (a : Array Json) (i : Nat) : Option Nat := (a[i]? >>= fun j => j.getNat?.toOption)

def stepRun (j : Json) : Option String := do
  let isC ← (j.getObjValAs? (Array Bool) "isClass").toOption
  let mro ← (j.getObjValAs? (Array (Array Nat)) "mro").toOption
  let H : Hier := ⟨fun t => match mro[t]? with | some l => l.toList | none => [t],
                   fun t => isC.getD t false⟩
  let ownJ ← (j.getObjVal? "own").toOption
  let ownL ← optAll (fun (e : Json) => do
      let a ← e.getArr?.toOption
      let v ← parseVal (← a[2]?)
      pure ((← natAt a 0), (← natAt a 1), v)) (← ownJ.getArr?.toOption).toList
  let psJ ← (j.getObjVal? "ps").toOption
  let psL ← optAll (fun (e : Json) => do
      let a ← e.getArr?.toOption
      let v ← parseVal (← a[2]?)
      let ownJ ← a[3]?
      let own : Option Val ← (match ownJ with
        | .null => some none
        | j => (parseVal j).map some)
      pure ((← natAt a 0), (← natAt a 1), v, own, (← natAt a 4))) (← psJ.getArr?.toOption).toList
  let regJ ← (j.getObjValAs? (Array (Array Nat)) "reg").toOption
  let reg : List Site := regJ.toList.map fun a => ⟨a.getD 0 0, a.getD 1 0, a.getD 2 0⟩
  let keysJ ← (j.getObjValAs? (Array (Array Nat)) "keys").toOption
  let keys : List (Nat × Nat) := keysJ.toList.map fun a => (a.getD 0 0, a.getD 1 0)
  let prog ← parseProg (← (j.getObjVal? "prog").toOption)
  let own0 : Own := ownL.foldl (fun o (e : Nat × Nat × Val) => setOwn o e.1 e.2.1 (some e.2.2)) (fun _ _ => none)
  let ps0 : PS := psL.foldl (fun p (e : Nat × Nat × Val × Option Val × Nat) =>
      setPS p e.1 e.2.1 (some (e.2.2.1, e.2.2.2.1, e.2.2.2.2))) (fun _ _ => none)
  let r := run H reg prog ⟨own0, ps0⟩
  let ownS := keys.filterMap fun (t, a) => (r.st.own t a).map fun v => s!"{t}.{a}={showVal v}"
  let psS := keys.filterMap fun (t, a) => (r.st.ps t a).map fun (v, w, c) =>
    s!"{t}.{a}={showVal v}/{match w with | some x => showVal x | none => "-"}#{c}"
  let lkS := keys.filterMap fun (t, a) => (lookup H r.st.own t a).map fun v => s!"{t}.{a}={showVal v}"
  pure s!"raised={r.raised} own=[{";".intercalate ownS}] ps=[{";".intercalate psS}] look=[{";".intercalate lkS}]"

def step (line : String) : String :=
  match Json.parse line with
  | .error _ => "bad-json"
  | .ok j =>
    match (j.getObjValAs? String "op").toOption with
    | some "run" => (stepRun j).getD "bad-op"
    | _ => "bad-op"

partial def loop (h : IO.FS.Stream) : IO Unit := do
  let line ← h.getLine
  if line.isEmpty then return ()
  IO.println (step line)
  loop h

def main : IO Unit := do loop (← IO.getStdin)
