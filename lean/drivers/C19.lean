/- Line-protocol driver for the C19 binding model.  Names are natural-number ids.
   A signature is a blank-separated list of `name:kind:default` (kind 0 posOnly, 1 posOrKw,
   2 varPos, 3 kwOnly, 4 varKw; default 0/1); `-` is the empty signature.
   A call is `npos k1 k2 ...`.  Fields are separated by `;`.

   B <sig> ; <call>            -> 1 | 0                 (binds)
   R <sig> ; <call>            -> comma-separated reasons (empty if it binds)
   U <sigO> ; <sigW>           -> none | some <call>    (findUncovered)
   A <sigO> ; <sigW>           -> <call> | <call> | ... (allUncovered; empty line if none)
   F <sigO> ; <sigW> ; <call>  -> bO bW                 (binds of both)
   W <sig>                     -> 1 | 0                 (Sig.wf)
   K <val> ; <val>             -> eq eqTN classA classB (capture keys of two keyword values: live key equal?,
                                  type-name key equal?, classes).  A value is `T dtype dims...`,
                                  `D dtype dims... | bytes...` or `O tyname dims... | ids...`
-/
import J2O.Model.C19
import J2O.Model.C19Key
open J2O.C19

def natList (s : String) : Option (List Nat) := (toksOf s).mapM String.toNat?
where toksOf (s : String) : List String := (s.trimAscii.toString.splitOn " ").filter (· ≠ "")

def parseVal (s : String) : Option Key.Val :=
  let s := s.trimAscii.toString
  if s.length < 1 then none else
  let tag := (s.take 1).toString
  let parts := ((s.drop 1).toString).splitOn "|"
  match tag, parts with
  | "T", [h] =>
    match natList h with
    | some (d :: dims) => some (.traced d dims)
    | _ => none
  | "D", [h, b] =>
    match natList h, natList b with
    | some (d :: dims), some bs => some (.data d dims bs)
    | _, _ => none
  | "O", [h, b] =>
    match natList h, natList b with
    | some (t :: dims), some ps => some (.object t dims ps)
    | _, _ => none
  | _, _ => none

def showClass : Key.Class → String
  | .traced => "traced" | .staticScalar => "scalar" | .arrayConst => "array" | .object => "object"

def parseKind : String → Option Kind
  | "0" => some .posOnly | "1" => some .posOrKw | "2" => some .varPos
  | "3" => some .kwOnly | "4" => some .varKw | _ => none

def toks (s : String) : List String :=
  (s.trimAscii.toString.splitOn " ").filter (· ≠ "")

def parseParam (s : String) : Option (Param Nat) :=
  match s.splitOn ":" with
  | [n, k, d] =>
    match n.toNat?, parseKind k with
    | some n, some k => some ⟨n, k, d == "1"⟩
    | _, _ => none
  | _ => none

def parseSig (s : String) : Option (Sig Nat) :=
  let ts := toks s
  if ts == ["-"] then some [] else ts.mapM parseParam

def parseCall (s : String) : Option (Call Nat) :=
  match toks s with
  | [] => none
  | n :: ks =>
    match n.toNat?, ks.mapM String.toNat? with
    | some n, some ks => some ⟨n, ks⟩
    | _, _ => none

def showCall (c : Call Nat) : String :=
  " ".intercalate (toString c.npos :: c.kw.map toString)

def b01 (b : Bool) : String := if b then "1" else "0"

def step (line : String) : String :=
  let line := line.trimAscii.toString
  if line.length < 2 then "bad-op" else
  let op := (line.take 1).toString
  let fields := ((line.drop 1).toString).splitOn ";"
  match op, fields with
  | "B", [s, c] =>
    match parseSig s, parseCall c with
    | some s, some c => b01 (binds s c)
    | _, _ => "bad-op"
  | "R", [s, c] =>
    match parseSig s, parseCall c with
    | some s, some c => ",".intercalate (reasons s c)
    | _, _ => "bad-op"
  | "U", [o, w] =>
    match parseSig o, parseSig w with
    | some o, some w =>
      match findUncovered o w with
      | none => "none"
      | some c => "some " ++ showCall c
    | _, _ => "bad-op"
  | "A", [o, w] =>
    match parseSig o, parseSig w with
    | some o, some w => " | ".intercalate ((allUncovered o w).map showCall)
    | _, _ => "bad-op"
  | "F", [o, w, c] =>
    match parseSig o, parseSig w, parseCall c with
    | some o, some w, some c => b01 (binds o c) ++ " " ++ b01 (binds w c)
    | _, _, _ => "bad-op"
  | "K", [a, b] =>
    match parseVal a, parseVal b with
    | some a, some b =>
      b01 (decide (Key.captureKey a = Key.captureKey b)) ++ " " ++
      b01 (decide (Key.captureKeyTN a = Key.captureKeyTN b)) ++ " " ++
      showClass (Key.classify a) ++ " " ++ showClass (Key.classify b)
    | _, _ => "bad-op"
  | "W", [s] =>
    match parseSig s with
    | some s => b01 (Sig.wf s)
    | none => "bad-op"
  | _, _ => "bad-op"

partial def loop (h : IO.FS.Stream) : IO Unit := do
  let line ← h.getLine
  if line.isEmpty then return ()
  IO.println (step line)
  loop h

def main : IO Unit := do loop (← IO.getStdin)
