/- Line-protocol driver for the C17 model.
   ok s m            -> true|false        (s = m ∨ castOk)
   rb a l d          -> none | lo hi
   kf s m a l d      -> true|false        (castOk ∨ knownFit with the Range bounds)
-/
import J2O.Model.C17
open J2O.C17

def okCodes (s m : Nat) : Bool := s == m || castOk (kindOf s) (kindOf m)

def step (line : String) : String :=
  match line.trimAscii.toString.splitOn " " with
  | ["ok", s, m] =>
    match s.toNat?, m.toNat? with
    | some s, some m => toString (okCodes s m)
    | _, _ => "bad-op"
  | ["rb", a, l, d] =>
    match a.toInt?, l.toInt?, d.toInt? with
    | some a, some l, some d =>
      match rangeBounds a l d with
      | none => "none"
      | some (lo, hi) => s!"{lo} {hi}"
    | _, _, _ => "bad-op"
  | ["kf", s, m, a, l, d] =>
    match s.toNat?, m.toNat?, a.toInt?, l.toInt?, d.toInt? with
    | some s, some m, some a, some l, some d =>
      toString (okCodes s m || knownFit (kindOf s) (kindOf m) (rangeBounds a l d))
    | _, _, _, _, _ => "bad-op"
  | _ => "bad-op"

partial def loop (h : IO.FS.Stream) : IO Unit := do
  let line ← h.getLine
  if line.isEmpty then return ()
  IO.println (step line)
  loop h

def main : IO Unit := do loop (← IO.getStdin)
