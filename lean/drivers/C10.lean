/- Line-protocol driver for the C10 models.
   fnb <n> (<shape> <bdim> <offset>)*n  -> <outdim|n> <shape> | <values>      FunctionPlugin._batching_rule with the
     per-example function F(x0, x1, ..) = flip(x0, axis=-1) + 1024 * Σ_j (j+2) * sum(x_{j+1})
   adp U=<names> A=<o>n,..> R=<o>n:ov:fb,..> J=<names> T=<names> X=<names> I=<names> L=<names> P=<names>
     -> raises | (<name>:<jvp>/<transpose>/<batcher>)*      rule = own.<owner> | fallback | -
   redlane <shape> <bdim> <axes|none> <kd 0|1> <b>  -> <shape> | <values>     lane b of the batched reduction
   Line-protocol driver for the C10 batcher model.
   bat <n> (<shape> <bdim> <offset>)*n   shape: `s` (scalar) or dims joined by `x`; bdim: int or `n`
     -> raises | incompatible | <outdim> <shape> | <values row-major>
   Operands are the tensors whose element at idx is offset + (base-4 digits of idx); the pointwise
   primitive is f(a_1..a_n) = Σ a_i * 1024^(n-i).
-/
import J2O.Model.C10
import J2O.Model.C10Rules
import J2O.Model.C10Tensor
open J2O.C10

def parseShape (s : String) : Option (List Nat) :=
  if s == "s" then some [] else (s.splitOn "x").mapM String.toNat?

def encT (shape : List Nat) (off : Nat) : Tensor Nat :=
  ⟨shape, fun idx => idx.foldl (fun a i => 4 * a + i) off⟩

def fcomb (xs : List Nat) : Nat := xs.foldl (fun a x => 1024 * a + x) 0

/-- all indices of a shape, row-major -/
def indices : List Nat → List (List Nat)
  | [] => [[]]
  | d :: ds => (List.range d).flatMap fun i => (indices ds).map fun r => i :: r

/-- numpy compatibility of a list of shapes (right-aligned: equal or 1) -/
-- `compat2` (numpy compatibility of two shapes) comes from `J2O.Model.C10Rules`
def compatAll : List (List Nat) → Bool
  | [] => true
  | s :: ss => ss.all (compat2 s) && compatAll ss

def shapeStr (s : List Nat) : String := if s.isEmpty then "s" else "x".intercalate (s.map toString)

/-- shapes the primitive is finally bound to (mirrors the two paths of the batcher) -/
def boundShapes (args : List (Tensor Nat × Option Nat)) : List (List Nat) :=
  match firstMapped args with
  | none => []
  | some (shape, dim) =>
    if args.all (fun p => p.1.rank == 0 || (p.1.shape == shape && p.2 == some dim)) then args.map (·.1.shape)
    else
      let a1 := args.map fun p => if p.1.rank = 0 then p else (bdimAtFront p.1 p.2, p.2)
      let ndim := maxRank (a1.map (·.1))
      (a1.map fun p => handleScalar ndim p.1 p.2).map (·.shape)

partial def parseOps : Nat → List String → Option (List (Tensor Nat × Option Nat))
  | 0, [] => some []
  | n + 1, sh :: d :: off :: rest =>
    match parseShape sh, off.toNat?, parseOps n rest with
    | some s, some o, some tl =>
      if d == "n" then some ((encT s o, none) :: tl)
      else match d.toNat? with
        | some k => some ((encT s o, some k) :: tl)
        | none => none
    | _, _, _ => none
  | _, _ => none


/-! ### FunctionPlugin._batching_rule -/

def sumAll (x : Tensor Nat) : Nat := ((indices x.shape).map x.get).foldl (· + ·) 0

def flipLast (s idx : List Nat) : List Nat :=
  match s.reverse, idx.reverse with
  | d :: _, i :: r => ((d - 1 - i) :: r).reverse
  | _, _ => idx

def weighted : Nat → List (Tensor Nat) → Nat
  | _, [] => 0
  | j, x :: xs => (j + 2) * sumAll x + weighted (j + 1) xs

/-- a non-pointwise per-example function of any arity ≥ 1 -/
def fdrv : List (Tensor Nat) → Tensor Nat
  | [] => ⟨[], fun _ => 0⟩
  | x :: rest => ⟨x.shape, fun idx => x.get (flipLast x.shape idx) + 1024 * weighted 0 rest⟩

/-! ### AD registries -/

def names (s : String) : List String := if s == "-" || s == "" then [] else s.splitOn ","

def field (toks : List String) (k : String) : String :=
  match toks.find? (fun t => t.startsWith (k ++ "=")) with
  | some t => (t.drop (k.length + 1)).toString
  | none => "-"

def pairOf (s : String) : Option (String × String) :=
  match s.splitOn ">" with
  | [a, b] => some (a, b)
  | _ => none

def reqOf (s : String) : Option FwdReq :=
  match s.splitOn ":" with
  | [pr, ov, fb] => (pairOf pr).map fun p => ⟨p.1, p.2, ov == "1", fb == "1"⟩
  | _ => none

def ruleStr : Option Rule → String
  | none => "-"
  | some (.own o _) => "own." ++ o
  | some (.fallback _) => "fallback"

def adStep (toks : List String) : String :=
  let u := names (field toks "U")
  match (names (field toks "A")).mapM pairOf, (names (field toks "R")).mapM reqOf with
  | some allow, some reqs =>
    let regs : Regs := ⟨(names (field toks "J")).map fun p => (p, Rule.own p 0),
                        (names (field toks "T")).map fun p => (p, Rule.own p 1),
                        (names (field toks "X")).map fun p => (p, Rule.own p 2)⟩
    match adPipeline allow [] (names (field toks "L")) (names (field toks "I")) reqs (names (field toks "P")) regs with
    | none => "raises"
    | some r => " ".intercalate (u.map fun p =>
        s!"{p}:{ruleStr (lookupRule r.jvps p)}/{ruleStr (lookupRule r.transposes p)}/{ruleStr (lookupRule r.batchers p)}")
  | _, _ => "bad-op"

/-! ### reduction on the shared tensor model -/

def encJ (shape : List Nat) : J2O.Tensor Nat :=
  ⟨0, shape.length, fun k => shape.getD k 1,
   fun i => (List.range shape.length).foldl (fun a k => 4 * a + i k) 1⟩

def redLane (shape : List Nat) (bdim : Nat) (axes : Option (List Int)) (kd : Bool) (b : Nat) : String :=
  let r := reductionBatchRule shape bdim axes
  let ax := r.2.1.mergeSort (fun a c => a ≥ c)
  let u := if kd then J2O.C10R.laneT r.2.2 b (J2O.C10R.sumAxesL ax (J2O.C10R.moveFront bdim (encJ shape)))
           else J2O.C10R.laneT r.2.2 b (J2O.C10R.sumAxesDropL ax (J2O.C10R.moveFront bdim (encJ shape)))
  let rank := if kd then shape.length - 1 else shape.length - 1 - ax.length
  let sh := (List.range rank).map u.dim
  let vals := (indices sh).map fun idx => toString (u.get fun m => idx.getD m 0)
  s!"{shapeStr sh} | " ++ " ".intercalate vals

def step (line : String) : String :=
  match line.trimAscii.toString.splitOn " " with
  | "bat" :: n :: rest =>
    match n.toNat? with
    | none => "bad-op"
    | some n =>
      match parseOps n rest with
      | none => "bad-op"
      | some args =>
        match broadcastBatcher fcomb args with
        | none => "raises"
        | some (out, od) =>
          if !compatAll (boundShapes args) then "incompatible"
          else
            let vals := (indices out.shape).map fun i => toString (out.get i)
            s!"{od} {shapeStr out.shape} | " ++ " ".intercalate vals
  | ["red", sh, bd, ax] =>
    -- red <shape> <bdim> <axes: none | a,b,..>  ->  <moved shape> <axesFull> <outdim>
    match parseShape sh, bd.toNat? with
    | some s, some b =>
      let axes : Option (List Int) := if ax == "none" then none else (ax.splitOn ",").mapM String.toInt?
      if ax != "none" && axes.isNone then "bad-op" else
      let r := reductionBatchRule s b axes
      s!"{shapeStr r.1} {",".intercalate (r.2.1.map toString)} {r.2.2}"
    | _, _ => "bad-op"
  | "fnb" :: n :: rest =>
    match n.toNat? with
    | none => "bad-op"
    | some n =>
      match parseOps n rest with
      | none => "bad-op"
      | some args =>
        let (out, od) := fnBatchRule fdrv args
        let vals := (indices out.shape).map fun i => toString (out.get i)
        let ods := match od with | none => "n" | some k => toString k
        s!"{ods} {shapeStr out.shape} | " ++ " ".intercalate vals
  | "adp" :: toks => adStep toks
  | ["redlane", sh, bd, ax, kd, b] =>
    match parseShape sh, bd.toNat?, b.toNat? with
    | some s, some bdim, some b =>
      let axes : Option (List Int) := if ax == "none" then none else (ax.splitOn ",").mapM String.toInt?
      if ax != "none" && axes.isNone then "bad-op" else redLane s bdim axes (kd == "1") b
    | _, _, _ => "bad-op"
  | ["rsh", kd, ax, sh] =>
    -- rsh <0|1> <axes a,b|-> <shape> -> reduced shape
    match parseShape sh with
    | some s =>
      let axes : List Nat := if ax == "-" then [] else ((ax.splitOn ",").filterMap String.toNat?)
      shapeStr (reduceShape (kd == "1") axes s)
    | none => "bad-op"
  | _ => "bad-op"

partial def loop (h : IO.FS.Stream) : IO Unit := do
  let line ← h.getLine
  if line.isEmpty then return ()
  IO.println (step line)
  loop h

def main : IO Unit := do loop (← IO.getStdin)
