/- Line-protocol driver for the C10 batcher model.
   bat <n> (<shape> <bdim> <offset>)*n   shape: `s` (scalar) or dims joined by `x`; bdim: int or `n`
     -> raises | incompatible | <outdim> <shape> | <values row-major>
   Operands are the tensors whose element at idx is offset + (base-4 digits of idx); the pointwise
   primitive is f(a_1..a_n) = Σ a_i * 1024^(n-i).
-/
import J2O.Model.C10
open J2O.C10

def parseShape (s : String) : Option (List Nat) :=
  if s == "s" then some [] else (s.splitOn "x").mapM String.toNat?

def encT (shape : List Nat) (off : Nat) : Tensor Nat :=
  ⟨shape, fun idx => idx.foldl (fun a i => 4 * a + i) off⟩

def fcomb (xs : List Nat) : Nat := xs.foldl (fun a x => 1024 * a + x) 0

/-- all indices of a shape, row-major -/
def indices : List Nat → List (List Nat)
  | [] => [[]]
  | d :: ds => (List.range d).flatMap fun i => (indices ds).map fun r => i :: r

/-- numpy compatibility of a list of shapes (right-aligned: equal or 1) -/
def compat2 (s t : List Nat) : Bool :=
  (List.zip s.reverse t.reverse).all fun p => p.1 == p.2 || p.1 == 1 || p.2 == 1
def compatAll : List (List Nat) → Bool
  | [] => true
  | s :: ss => ss.all (compat2 s) && compatAll ss

def shapeStr (s : List Nat) : String := if s.isEmpty then "s" else "x".intercalate (s.map toString)

/-- shapes the primitive is finally bound to (mirrors the two paths of the batcher) -/
def boundShapes (args : List (Tensor Nat × Option Nat)) : List (List Nat) :=
  match firstMapped args with
  | none => []
  | some (shape, dim) =>
    if args.all (fun p => p.1.rank == 0 || (p.1.shape == shape && p.2 == some dim)) then args.map (·.1.shape)
    else
      let a1 := args.map fun p => if p.1.rank = 0 then p else (bdimAtFront p.1 p.2, p.2)
      let ndim := maxRank (a1.map (·.1))
      (a1.map fun p => handleScalar ndim p.1 p.2).map (·.shape)

partial def parseOps : Nat → List String → Option (List (Tensor Nat × Option Nat))
  | 0, [] => some []
  | n + 1, sh :: d :: off :: rest =>
    match parseShape sh, off.toNat?, parseOps n rest with
    | some s, some o, some tl =>
      if d == "n" then some ((encT s o, none) :: tl)
      else match d.toNat? with
        | some k => some ((encT s o, some k) :: tl)
        | none => none
    | _, _, _ => none
  | _, _ => none

def step (line : String) : String :=
  match line.trimAscii.toString.splitOn " " with
  | "bat" :: n :: rest =>
    match n.toNat? with
    | none => "bad-op"
    | some n =>
      match parseOps n rest with
      | none => "bad-op"
      | some args =>
        match broadcastBatcher fcomb args with
        | none => "raises"
        | some (out, od) =>
          if !compatAll (boundShapes args) then "incompatible"
          else
            let vals := (indices out.shape).map fun i => toString (out.get i)
            s!"{od} {shapeStr out.shape} | " ++ " ".intercalate vals
  | ["red", sh, bd, ax] =>
    -- red <shape> <bdim> <axes: none | a,b,..>  ->  <moved shape> <axesFull> <outdim>
    match parseShape sh, bd.toNat? with
    | some s, some b =>
      let axes : Option (List Int) := if ax == "none" then none else (ax.splitOn ",").mapM String.toInt?
      if ax != "none" && axes.isNone then "bad-op" else
      let r := reductionBatchRule s b axes
      s!"{shapeStr r.1} {",".intercalate (r.2.1.map toString)} {r.2.2}"
    | _, _ => "bad-op"
  | ["rsh", kd, ax, sh] =>
    -- rsh <0|1> <axes a,b|-> <shape> -> reduced shape
    match parseShape sh with
    | some s =>
      let axes : List Nat := if ax == "-" then [] else ((ax.splitOn ",").filterMap String.toNat?)
      shapeStr (reduceShape (kd == "1") axes s)
    | none => "bad-op"
  | _ => "bad-op"

partial def loop (h : IO.FS.Stream) : IO Unit := do
  let line ← h.getLine
  if line.isEmpty then return ()
  IO.println (step line)
  loop h

def main : IO Unit := do loop (← IO.getStdin)
