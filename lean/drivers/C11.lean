/- Line-protocol driver for C11 (one JSON request per line, one answer line each).
   {"op":"legal","m":MODEL}                          -> true | JSON array of reasons "where|domain|op|why"
   {"op":"forms","rows":[[opset, op, nIn, nOut, [attrs…]]…]}  -> JSON array of booleans (nodeLegalB, and nodeTypedB when a 6th / 7th field lists input / output dtypes; attributes as `name` or `name:AttributeType`)
   The operator table is the regenerated `J2O.Gen.C11.schemas`.
-/
import J2O.Model.ModelTreeJson
import J2O.Model.C11
import J2O.Gen.C11
open Lean J2O.MT J2O.C11 J2O.Gen.C11

def step (j : Json) : Except String String := do
  let op ← (← j.getObjVal? "op").getStr?
  match op with
  | "legal" =>
    let m ← jModel (← j.getObjVal? "m")
    if opsetLegal schemas m && typesLegal schemas m then pure "true"
    else pure (Json.arr ((explain schemas m ++ explainTypes schemas m).toArray.map Json.str)).compress
  | "forms" =>
    let rows ← (← j.getObjVal? "rows").getArr?
    let mut out : Array Json := #[]
    for r in rows do
      let a ← r.getArr?
      let v ← a[0]!.getNat?
      let o ← a[1]!.getStr?
      let ni ← a[2]!.getNat?
      let no ← a[3]!.getNat?
      let attrs ← (← a[4]!.getArr?).toList.mapM (·.getStr?)
      let dts ← match a[5]? with
        | some d => (← d.getArr?).toList.mapM (·.getNat?)
        | none => pure []
      let odts ← match a[6]? with
        | some d => (← d.getArr?).toList.mapM (·.getNat?)
        | none => pure []
      if dts.isEmpty && odts.isEmpty then
        let n : Node := .mk "" o (List.replicate ni "x") (List.replicate no "y") attrs []
        out := out.push (Json.bool (nodeLegalB schemas v n))
      else
        let mk (pre : String) (l : List Nat) : List (String × Annot) := ((List.range l.length).zip l).filterMap
          (fun p => if p.2 = 0 then none else some (pre ++ toString p.1, (⟨some p.2, none⟩ : Annot)))
        let ins := (List.range (if dts.isEmpty then ni else dts.length)).map (fun k => "x" ++ toString k)
        let outs := (List.range (if odts.isEmpty then no else odts.length)).map (fun k => "y" ++ toString k)
        let n : Node := .mk "" o ins outs attrs []
        out := out.push (Json.bool (decide (ins.length = ni) && decide (outs.length = no)
          && nodeLegalB schemas v n && nodeTypedB schemas v (mk "x" dts ++ mk "y" odts) n))
    pure (Json.arr out).compress
  | _ => throw "unknown op"

def main : IO Unit := do driverLoop (← IO.getStdin) step
