/- Line-protocol driver for the C07 registry model (one JSON object per line).
   {"op":"reset"}                         -> ok
   {"op":"enter","site":{…}}              -> hit|miss <idx> <name> <domain> <nIn> <nOut> <k> <q> <i> <c>
                                             (k/q/i/c = number of the first call site since `reset` whose whole
                                              key / qualified_name / input_sig / capture_sig equals this site's)
   {"op":"alloc","ns":[…],"base":"…","unique":b} -> <name> <domain>   (`_allocate_friendly_name` on the
                                              counter table of the current state, decimal counters)
   {"op":"exit"}                          -> ok
   {"op":"keyeq","a":{…},"b":{…}}         -> true|false      (mkKey a = mkKey b)
   The state of the registry machine persists between lines until `reset`.
-/
import Lean.Data.Json
import J2O.Model.C07
import J2O.Model.C07Key
open Lean J2O.C07

/-- executable digest, injective on byte lists (base-257 positional with offset 1) -/
def dig (b : Bytes) : Nat := b.foldl (fun a x => a * 257 + (x % 256) + 1) 0

def strs (j : Json) : Except String (List String) := do
  let a ← j.getArr?
  a.toList.mapM (fun x => x.getStr?)

def nats (j : Json) : Except String (List Nat) := do
  let a ← j.getArr?
  a.toList.mapM (fun x => x.getNat?)

def optStrs (j : Json) (k : String) : List String :=
  match j.getObjVal? k with
  | .ok v => (strs v).toOption.getD []
  | .error _ => []

def optStr (j : Json) (k : String) : String :=
  match j.getObjValAs? String k with
  | .ok v => v
  | .error _ => ""

def optNats (j : Json) (k : String) : List Nat :=
  match j.getObjVal? k with
  | .ok v => (nats v).toOption.getD []
  | .error _ => []

def parseCap (j : Json) : Except String (String × CapVal) := do
  let name ← j.getObjValAs? String "name"
  let kind ← j.getObjValAs? String "kind"
  match kind with
  | "const" => pure (name, .const (optStrs j "shape") (optStr j "dtype") (optNats j "bytes"))
  | "dynamic" => pure (name, .dynamic (optStrs j "shape") (optStr j "dtype"))
  | "callInput" => pure (name, .callInput (optStrs j "shape") (optStr j "dtype"))
  | "static" => pure (name, .static (optStr j "type"))
  | k => throw s!"bad capture kind {k}"

def parseFp (j : Json) : Except String (String × FpVal) := do
  let tag ← j.getObjValAs? String "tag"
  let kind ← j.getObjValAs? String "kind"
  match kind with
  | "none" => pure (tag, .none)
  | "lit" => pure (tag, .lit (optStr j "ty") (optStr j "repr"))
  | "arr" => pure (tag, .arr (optStrs j "shape") (optStr j "dtype") (optNats j "bytes"))
  | "obj" => pure (tag, .obj (optStr j "ty") (optStr j "repr"))
  | k => throw s!"bad state kind {k}"

def parseSite (j : Json) : Except String CallSite := do
  let target ← j.getObjValAs? String "target"
  let unique ← j.getObjValAs? Bool "unique"
  let ns ← strs (← j.getObjVal? "ns")
  let base ← j.getObjValAs? String "base"
  let sigs ← (← j.getObjVal? "inSig").getArr?
  let inSig ← sigs.toList.mapM (fun s => do
    pure (⟨← strs (← s.getObjVal? "shape"), ← s.getObjValAs? String "dtype"⟩ : TSig))
  let caps ← (← (← j.getObjVal? "caps").getArr?).toList.mapM parseCap
  let paramNames ← strs (← j.getObjVal? "paramNames")
  let injected ← (← (← j.getObjVal? "injected").getArr?).toList.mapM parseCap
  let cj ← j.getObjVal? "callee"
  let ckind ← cj.getObjValAs? String "kind"
  let id ← cj.getObjValAs? Nat "id"
  let callee ← match ckind with
    | "inst" => do
      let st ← (← (← cj.getObjVal? "state").getArr?).toList.mapM parseFp
      pure (Callee.inst id (optStr cj "type") st)
    | "func" => pure (Callee.func id (optStr cj "module") (optStr cj "name"))
    | k => throw s!"bad callee kind {k}"
  let nOut ← j.getObjValAs? Nat "nOut"
  pure { target, unique, ns, base, inSig, caps, paramNames, injected, callee, nOut }

def renderDomain (d : List Seg) : String :=
  ".".intercalate (d.map (fun s => match s with | .s x => x | .n k => toString k))

def handle (st : St) (line : String) : St × String :=
  match Json.parse line with
  | .error e => (st, s!"bad-json {e}")
  | .ok j =>
    match j.getObjValAs? String "op" with
    | .error _ => (st, "bad-op")
    | .ok "reset" => ({}, "ok")
    | .ok "exit" => (step dig dig st .exit, "ok")
    | .ok "enter" =>
      match j.getObjVal? "site" >>= parseSite with
      | .error e => (st, s!"bad-site {e}")
      | .ok c =>
        let st' := step dig dig st (.enter c)
        match st'.log with
        | e :: _ =>
          let sites := st'.log.reverse
          let kc := sites.findIdx (fun e' => decide (e'.key = e.key))
          let qc := sites.findIdx (fun e' => decide (e'.key.qname = e.key.qname))
          let ic := sites.findIdx (fun e' => decide (e'.key.inSig = e.key.inSig))
          let cc := sites.findIdx (fun e' => decide (e'.key.capSig = e.key.capSig))
          (st', s!"{if e.hit then "hit" else "miss"} {e.d.idx} {e.d.name} {renderDomain e.d.domain} {e.d.nIn} {e.d.nOut} {kc} {qc} {ic} {cc}")
        | [] => (st', "internal-error")
    | .ok "alloc" =>
      match j.getObjVal? "ns" >>= strs, j.getObjValAs? String "base", j.getObjValAs? Bool "unique" with
      | .ok ns, .ok base, .ok u =>
        let r := allocate Nat.repr st.counters ⟨ns, base, u⟩
        ({ st with counters := r.2 }, s!"{r.1.1} {".".intercalate r.1.2}")
      | _, _, _ => (st, "bad-alloc")
    | .ok "keyeq" =>
      match j.getObjVal? "a" >>= parseSite, j.getObjVal? "b" >>= parseSite with
      | .ok a, .ok b => (st, toString (decide (mkKey dig dig a = mkKey dig dig b)))
      | .error e, _ => (st, s!"bad-site {e}")
      | _, .error e => (st, s!"bad-site {e}")
    | .ok _ => (st, "bad-op")

partial def loop (h : IO.FS.Stream) (st : St) : IO Unit := do
  let line ← h.getLine
  if line.isEmpty then return ()
  let (st', out) := handle st line
  IO.println out
  loop h st'

def main : IO Unit := do loop (← IO.getStdin) {}
