/- Line-protocol driver for the C18 model (one JSON request per line, one answer line each).

   {"op":"cmp","rtol":"n/d","atol":"n/d","nchw":[i..],"exp":[T..],"got":[T..]}
        T = {"k":"f32","s":[dims],"v":[scalar | [re,im] ..]}   scalar = "n/d" | "n" | "nan" | "inf" | "-inf"
        -> "<verdict> <agrees|disagrees> <lossless|lossy>"
           verdict = match | count | shape:i | value:i | nonfloat:i | unspecified:i
   {"op":"cast","src":"f64","dst":"f32","v":[scalar|[re,im]..]}
        -> space separated results: re,im each  n/d | nan | inf | -inf ; "none" for undefined
   {"op":"promote","a":"f32","b":"i64"}
        -> "<can_cast(a -> b, safe)> <result_type(a, b)>"        e.g. "false f64"
   {"op":"x64","flag":bool,"prog":P}
        P = {"t":"skip"|"raise"} | {"t":"set","b":bool} | {"t":"seq","a":P,"b":P}
          | {"t":"tmp"|"force","en":bool,"body":P} | {"t":"catch","body":P}
        -> "<flag after> <raised>"
-/
import Lean.Data.Json
import J2O.Model.C18
open Lean J2O.C18

def parseRat (s : String) : Option Rat :=
  match s.splitOn "/" with
  | [n] => n.toInt?.map fun z => (z : Rat)
  | [n, d] =>
    match n.toInt?, d.toNat? with
    | some z, some k => if k = 0 then none else some (mkRat z k)
    | _, _ => none
  | _ => none

def parseSc (s : String) : Option Sc :=
  if s == "nan" then some .nan
  else if s == "inf" then some .pinf
  else if s == "-inf" then some .ninf
  else (parseRat s).map .fin

def parseEl (j : Json) : Option El :=
  match j with
  | .str s => (parseSc s).map fun r => ⟨r, zero⟩
  | .arr a =>
    match a.toList with
    | [.str r, .str i] =>
      match parseSc r, parseSc i with
      | some r, some i => some ⟨r, i⟩
      | _, _ => none
    | _ => none
  | _ => none

def parseKind (s : String) : Option Kind :=
  match s with
  | "bool" => some .bool
  | "i8" => some (.int true 8) | "i16" => some (.int true 16)
  | "i32" => some (.int true 32) | "i64" => some (.int true 64)
  | "u8" => some (.int false 8) | "u16" => some (.int false 16)
  | "u32" => some (.int false 32) | "u64" => some (.int false 64)
  | "f16" => some (.flt f16) | "f32" => some (.flt f32) | "f64" => some (.flt f64)
  | "c64" => some (.cplx f32) | "c128" => some (.cplx f64)
  | _ => none

def showKind (k : Kind) : String :=
  if k = .bool then "bool"
  else if k = .int true 8 then "i8" else if k = .int true 16 then "i16"
  else if k = .int true 32 then "i32" else if k = .int true 64 then "i64"
  else if k = .int false 8 then "u8" else if k = .int false 16 then "u16"
  else if k = .int false 32 then "u32" else if k = .int false 64 then "u64"
  else if k = .flt f16 then "f16" else if k = .flt f32 then "f32" else if k = .flt f64 then "f64"
  else if k = .cplx f32 then "c64" else if k = .cplx f64 then "c128"
  else "other"

def optAll {α β} (f : α → Option β) : List α → Option (List β)
  | [] => some []
  | x :: xs => do let y ← f x; let ys ← optAll f xs; pure (y :: ys)

def parseTn (j : Json) : Option Tn := do
  let k ← (j.getObjValAs? String "k").toOption
  let kind ← parseKind k
  let s ← (j.getObjValAs? (Array Nat) "s").toOption
  let v ← (j.getObjVal? "v").toOption
  let va ← v.getArr?.toOption
  let vals ← optAll parseEl va.toList
  pure ⟨kind, s.toList, vals⟩

def showVerdict : Verdict → String
  | .isMatch => "match"
  | .count => "count"
  | .shape i => s!"shape:{i}"
  | .value i => s!"value:{i}"
  | .nonfloat i => s!"nonfloat:{i}"
  | .unspecified i => s!"unspecified:{i}"

def showRat (q : Rat) : String := if q.den = 1 then s!"{q.num}" else s!"{q.num}/{q.den}"

def showSc : Sc → String
  | .fin q => showRat q
  | .nan => "nan"
  | .pinf => "inf"
  | .ninf => "-inf"

partial def parseXP (j : Json) : Option XP := do
  let t ← (j.getObjValAs? String "t").toOption
  match t with
  | "skip" => pure .skip
  | "raise" => pure .raise
  | "raiseBase" => pure .raiseBase
  | "set" => do let b ← (j.getObjValAs? Bool "b").toOption; pure (.set b)
  | "seq" => do
    let a ← (j.getObjVal? "a").toOption
    let b ← (j.getObjVal? "b").toOption
    pure (.seq (← parseXP a) (← parseXP b))
  | "tmp" => do
    let en ← (j.getObjValAs? Bool "en").toOption
    let b ← (j.getObjVal? "body").toOption
    pure (.tmp en (← parseXP b))
  | "force" => do
    let en ← (j.getObjValAs? Bool "en").toOption
    let b ← (j.getObjVal? "body").toOption
    pure (.force en (← parseXP b))
  | "catch" => do
    let b ← (j.getObjVal? "body").toOption
    pure (.catch (← parseXP b))
  | _ => none

def stepCmp (j : Json) : Option String := do
  let rtol ← parseRat (← (j.getObjValAs? String "rtol").toOption)
  let atol ← parseRat (← (j.getObjValAs? String "atol").toOption)
  let nchw ← (j.getObjValAs? (Array Nat) "nchw").toOption
  let e ← (j.getObjVal? "exp").toOption
  let g ← (j.getObjVal? "got").toOption
  let es ← optAll parseTn (← e.getArr?.toOption).toList
  let gs ← optAll parseTn (← g.getArr?.toOption).toList
  let cfg : Cfg := ⟨rtol, atol, nchw.toList⟩
  let v := decideAll cfg es gs
  let a := if agreesB cfg es gs then "agrees" else "disagrees"
  let l := if noLossyB cfg es gs then "lossless" else "lossy"
  pure s!"{showVerdict v} {a} {l}"

def stepCast (j : Json) : Option String := do
  let src ← parseKind (← (j.getObjValAs? String "src").toOption)
  let dst ← parseKind (← (j.getObjValAs? String "dst").toOption)
  let v ← (j.getObjVal? "v").toOption
  let vals ← optAll parseEl (← v.getArr?.toOption).toList
  let outs := vals.map fun x =>
    match castEl src dst x with
    | none => "none"
    | some y => s!"{showSc y.re},{showSc y.im}"
  pure (" ".intercalate outs)

def stepPromote (j : Json) : Option String := do
  let a ← parseKind (← (j.getObjValAs? String "a").toOption)
  let b ← parseKind (← (j.getObjValAs? String "b").toOption)
  pure s!"{canCastSafe a b} {showKind (resultKind a b)}"

def showExit : Exit → String
  | .normal => "normal"
  | .exc => "exc"
  | .base => "base"

/-- optional "inject": n  → a BaseException arrives right before the n-th atomic step of the program -/
def stepX64 (j : Json) : Option String := do
  let f ← (j.getObjValAs? Bool "flag").toOption
  let p ← parseXP (← (j.getObjVal? "prog").toOption)
  let p' := match (j.getObjValAs? Nat "inject").toOption with
    | some n => (injectAt .raiseBase p (some n)).1
    | none => p
  let r := xrun p' f
  pure s!"{r.1} {showExit r.2}"

def showEl (x : El) : String := s!"{showSc x.re},{showSc x.im}"

def showTn (t : Tn) : String :=
  let dims := ".".intercalate (t.shape.map toString)
  let vals := ";".intercalate (t.vals.map showEl)
  s!"{showKind t.kind}:{dims}:{vals}"

def parseMeta (j : Json) : Option InMeta := do
  let n ← (j.getObjValAs? String "name").toOption
  let k := match (j.getObjValAs? String "k").toOption with
    | some s => parseKind s
    | none => none
  pure ⟨n, k⟩

def parseParam (j : Json) : Option (String × Tn) := do
  let n ← (j.getObjValAs? String "name").toOption
  let t ← parseTn (← (j.getObjVal? "t").toOption)
  pure (n, t)

def showFeedErr : FeedErr → String
  | .tooFew n => s!"tooFew:{n}"
  | .tooMany => "tooMany"
  | .undefinedCast n => s!"undefinedCast:{n}"
  | .complexPack n => s!"complexPack:{n}"

/-- {"op":"feed","metas":[{"name":..,"k":..}],"xs":[T..],"params":[{"name":..,"t":T}..],"rtol","atol"}
    -> "ok <name>=<kind>:<dims>:<vals> ... | <verdict> <agrees|disagrees> <same|coerced>"
       (verdict of comparing what fn receives, in graph-input order, with the feeds = an identity model)
    or "error <why>" -/
def stepFeed (j : Json) : Option String := do
  let rtol ← parseRat (← (j.getObjValAs? String "rtol").toOption)
  let atol ← parseRat (← (j.getObjValAs? String "atol").toOption)
  let ms ← optAll parseMeta (← (← (j.getObjVal? "metas").toOption).getArr?.toOption).toList
  let xs ← optAll parseTn (← (← (j.getObjVal? "xs").toOption).getArr?.toOption).toList
  let ps ← optAll parseParam (← (← (j.getObjVal? "params").toOption).getArr?.toOption).toList
  match bindFeeds ms xs ps with
  | .error e => pure s!"error {showFeedErr e}"
  | .ok fd =>
    let shown := " ".intercalate (fd.map fun p => s!"{p.1}={showTn p.2}")
    let cfg : Cfg := ⟨rtol, atol, []⟩
    match fnArgs ms xs ps with
    | none => pure s!"ok {shown} | nofnargs"
    | some fa =>
      let es := fa.map (·.2)
      let gs := fd.map (·.2)
      let v := decideAll cfg es gs
      let a := if agreesB cfg es gs then "agrees" else "disagrees"
      let c := if decide (es = gs) then "same" else "coerced"
      pure s!"ok {shown} | {showVerdict v} {a} {c}"

def step (line : String) : String :=
  match Json.parse line with
  | .error _ => "bad-json"
  | .ok j =>
    match (j.getObjValAs? String "op").toOption with
    | some "cmp" => (stepCmp j).getD "bad-op"
    | some "cast" => (stepCast j).getD "bad-op"
    | some "x64" => (stepX64 j).getD "bad-op"
    | some "promote" => (stepPromote j).getD "bad-op"
    | some "feed" => (stepFeed j).getD "bad-op"
    | _ => "bad-op"

partial def loop (h : IO.FS.Stream) : IO Unit := do
  let line ← h.getLine
  if line.isEmpty then return ()
  IO.println (step line)
  loop h

def main : IO Unit := do loop (← IO.getStdin)
