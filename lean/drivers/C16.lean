/- Line-protocol driver for the C16 dispatcher model.
   {"reg":{"prim":"act"|"returnN:3",…},"inputs":[v…],"prog":[{"p":prim,"i":[v…],"o":[v|null…],"b":[eqn…]}…]}
   -> ok | unregistered <prim> | unboundInput <eqn> <k> | notBound <eqn> <k> | disconnected <eqn> <k>
      | arity <eqn> | plugin <eqn>
-/
import Lean.Data.Json
import J2O.Model.C16
open Lean (Json)
open J2O.C16

def parseAct (s : String) : Option Act :=
  match s.splitOn ":" with
  | ["bindConnected"] => some .bindConnected
  | ["nobind"] => some .nobind
  | ["bindDisconnected"] => some .bindDisconnected
  | ["returnAll"] => some .returnAll
  | ["returnN", n] => n.toNat?.map Act.returnN
  | ["bindFirstReturnRest"] => some .bindFirstReturnRest
  | ["raise"] => some .raise
  | ["nested"] => some .nested
  | _ => none

partial def parseProg (js : List Json) : Prog :=
  match js with
  | [] => .nil
  | j :: rest =>
    let prim := match j.getObjVal? "p" with | .ok (.str s) => s | _ => "?"
    let ins := match j.getObjVal? "i" with
      | .ok (.arr a) => a.toList.filterMap (fun (x : Json) => x.getNat?.toOption) | _ => []
    let outs := match j.getObjVal? "o" with
      | .ok (.arr a) => a.toList.map (fun (x : Json) => x.getNat?.toOption) | _ => []
    let body := match j.getObjVal? "b" with | .ok (.arr a) => parseProg a.toList | _ => .nil
    .cons prim ins outs body (parseProg rest)

def handle (line : String) : String :=
  match Json.parse line with
  | .error e => s!"error:json {e}"
  | .ok j =>
    let regList : List (String × Act) := match j.getObjVal? "reg" with
      | .ok (.obj kv) => kv.toList.filterMap (fun (kvp : String × Json) =>
          match kvp.2 with | .str s => (parseAct s).map (fun a => (kvp.1, a)) | _ => none)
      | _ => []
    let reg : String → Option Act := fun p => (regList.find? (·.1 == p)).map (·.2)
    let inputs := match j.getObjVal? "inputs" with
      | .ok (.arr a) => a.toList.filterMap (fun (x : Json) => x.getNat?.toOption) | _ => []
    let s0 : St := inputs.foldl (fun s v => let (s1, x) := s.freshConn; s1.bind v x) ⟨[], [], 0⟩
    let prog := match j.getObjVal? "prog" with | .ok (.arr a) => parseProg a.toList | _ => .nil
    match lower reg prog s0 0 with
    | .ok _ => "ok"
    | .error (.unregistered p) => s!"unregistered {p}"
    | .error (.unboundInput i k) => s!"unboundInput {i} {k}"
    | .error (.notBound i k) => s!"notBound {i} {k}"
    | .error (.disconnected i k) => s!"disconnected {i} {k}"
    | .error (.arity i) => s!"arity {i}"
    | .error (.plugin i) => s!"plugin {i}"

partial def loop (h : IO.FS.Stream) : IO Unit := do
  let line ← h.getLine
  if line.isEmpty then return ()
  IO.println (handle line)
  loop h

def main : IO Unit := do loop (← IO.getStdin)
