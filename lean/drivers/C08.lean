/- Line-protocol driver for C08 (one JSON request per line, one answer line each).
   {"op":"loosen","before":MODEL,"after":MODEL,"promote":bool,"constF32":[names]}
        -> same | diff <n model lines> <n real lines> | diff <model line> <> <real line>
        (model = loosenModel before, then promoteModel when "promote")
   {"op":"bcast","shapes":[[dim…]…]}   dim = int | "symbol" | null
        -> none | [d,d,…]  (rendered like annotations)
-/
import J2O.Model.ModelTreeJson
import J2O.Model.C08
open Lean J2O.MT J2O.C08

def firstDiff : List String → List String → Option (String × String)
  | [], [] => none
  | a :: as, b :: bs => if a == b then firstDiff as bs else some (a, b)
  | a :: _, [] => some (a, "<missing>")
  | [], b :: _ => some ("<missing>", b)

def step (j : Json) : Except String String := do
  let op ← (← j.getObjVal? "op").getStr?
  match op with
  | "loosen" =>
    let before ← jModel (← j.getObjVal? "before")
    let after ← jModel (← j.getObjVal? "after")
    let promote ← (← j.getObjVal? "promote").getBool?
    let c ← (← (← j.getObjVal? "constF32").getArr?).toList.mapM (·.getStr?)
    let m := loosenModel before
    let m := if promote then promoteModel c m else m
    let a := renderModel m
    let b := renderModel after
    match firstDiff a b with
    | none => pure "same"
    | some (x, y) => pure s!"diff {x} <> {y}"
  | "bcast" =>
    let shapes ← (← (← j.getObjVal? "shapes").getArr?).toList.mapM fun s => do
      (← s.getArr?).toList.mapM jDim
    match broadcastDims shapes with
    | none => pure "none"
    | some r => pure ("[" ++ ",".intercalate (r.map Dim.render) ++ "]")
  | _ => throw "unknown op"

def main : IO Unit := do driverLoop (← IO.getStdin) step
