/- Line-protocol driver for C08 (one JSON request per line, one answer line each).
   {"op":"loosen","before":MODEL,"after":MODEL,"promote":bool,"constF32":[names]}
        -> same | diff <n model lines> <n real lines> | diff <model line> <> <real line>
        (model = loosenModel before, then promoteModel when "promote")
   {"op":"bcast","shapes":[[dim…]…]}   dim = int | "symbol" | null
        -> none | [d,d,…]  (rendered like annotations)
   {"op":"consistent","m":MODEL}      (attribute lists may carry values: `name=v1,v2`, `in<i>=…`, `vdtype=`, `vshape=`)
        -> {"vocab":n,"certified":k,"rejected":["scope|op|output|declared|inputs…", …],
            "calls":n,"calls_certified":k,"rejected_calls":[…],"skipped":{op:count}}  (all scopes; both vocabularies;
            every call of a model-local function is checked with the call site's argument annotations)
   {"op":"infer","g":GRAPH}           (vinfo = run-time dtype/shape of the top-level values)
        -> [[output name, inferred annotation] …] for the vocabulary nodes of the top scope
-/
import J2O.Model.ModelTreeJson
import J2O.Model.C08
import J2O.Model.C08Ops
open Lean J2O.MT J2O.C08

def firstDiff : List String → List String → Option (String × String)
  | [], [] => none
  | a :: as, b :: bs => if a == b then firstDiff as bs else some (a, b)
  | a :: _, [] => some (a, "<missing>")
  | [], b :: _ => some ("<missing>", b)

/-- all scopes of a graph tree with a printable path; each scope's `vinfo` is extended by the
    annotations of its enclosing scopes (captured outer values), local entries first -/
partial def scopesOf (path : String) (outer : List (String × Annot)) (g : Graph) : List (String × Graph) :=
  let vi := g.vinfo ++ outer
  (path, .mk g.inputs g.inits g.nodes g.outputs vi) :: (g.nodes.zipIdx.flatMap fun (n, k) =>
    n.bodies.zipIdx.flatMap fun (b, j) => scopesOf s!"{path}/{k}:{n.op}[{j}]" vi b)

def rejectedOf (path : String) (g : Graph) : List String :=
  (g.nodes.filter (fun n => inVocabAll n && !nodeOk g.vinfo n)).map fun n =>
    let outs := ",".intercalate (n.outsRaw.map fun y => y ++ "=" ++ (annotOf g.vinfo y).render)
    let ins := ",".intercalate (n.ins.map fun x => x ++ "=" ++ (annotOf g.vinfo x).render)
    s!"{path}|{n.op}|{outs}|{ins}"

def step (j : Json) : Except String String := do
  let op ← (← j.getObjVal? "op").getStr?
  match op with
  | "loosen" =>
    let before ← jModel (← j.getObjVal? "before")
    let after ← jModel (← j.getObjVal? "after")
    let promote ← (← j.getObjVal? "promote").getBool?
    let c ← (← (← j.getObjVal? "constF32").getArr?).toList.mapM (·.getStr?)
    let m := loosenModel before
    let m := if promote then promoteModel c m else m
    let a := renderModel m
    let b := renderModel after
    match firstDiff a b with
    | none => pure "same"
    | some (x, y) => pure s!"diff {x} <> {y}"
  | "bcast" =>
    let shapes ← (← (← j.getObjVal? "shapes").getArr?).toList.mapM fun s => do
      (← s.getArr?).toList.mapM jDim
    match broadcastDims shapes with
    | none => pure "none"
    | some r => pure ("[" ++ ",".intercalate (r.map Dim.render) ++ "]")
  | "consistent" =>
    let m ← jModel (← j.getObjVal? "m")
    let scopes := scopesOf "main" [] m.graph ++ m.funcs.flatMap (fun f => scopesOf ("fn " ++ f.name) [] f.asGraph)
    let stats := scopes.map (fun (_, g) => consistentStatsX g)
    let vocab : Nat := stats.foldl (fun a s => a + s.1) 0
    let cert : Nat := stats.foldl (fun a s => a + s.2) 0
    let rej := scopes.flatMap (fun (p, g) => rejectedOf p g)
    let old : Nat := (scopes.map (fun (_, g) => (consistentStats g).1)).foldl (· + ·) 0
    -- every call of a model-local function, with the call site's argument annotations
    let calls := scopes.flatMap fun (p, g) => g.nodes.filterMap fun n =>
      if n.domain == "" then none else
      match m.funcs.find? (fun f => f.domain == n.domain && f.name == n.op) with
      | none => none
      | some f =>
        let args := n.ins.map (annotOf g.vinfo)
        some (callSiteConsistent f args,
              s!"{p}|{n.domain}::{n.op}|" ++ ",".intercalate (args.map Annot.render) ++ "|formals " ++
                ",".intercalate (f.inputs.map fun x => (annotOf f.vinfo x).render))
    let skipped := scopes.flatMap fun (_, g) => (g.nodes.filter (fun n => !inVocabAll n && n.domain == "")).map (·.op)
    let hist := skipped.foldl (fun (acc : List (String × Nat)) op =>
      match acc.find? (·.1 == op) with
      | some _ => acc.map (fun e => if e.1 == op then (e.1, e.2 + 1) else e)
      | none => acc ++ [(op, 1)]) []
    pure (Json.mkObj [("vocab", toJson vocab), ("certified", toJson cert), ("vocab_small", toJson old),
                      ("rejected", Json.arr (rej.toArray.map Json.str)),
                      ("calls", toJson calls.length),
                      ("calls_certified", toJson (calls.filter (·.1)).length),
                      ("rejected_calls", Json.arr ((calls.filter (!·.1)).map (Json.str ·.2)).toArray),
                      ("skipped", Json.mkObj (hist.map fun (o, c) => (o, toJson c)))]).compress
  | "infer" =>
    let g ← jGraph (← j.getObjVal? "g")
    let vi := g.vinfo
    let out := g.nodes.filterMap fun n =>
      match n.outsRaw with
      | [y] =>
        if inVocab n then
          match vocabKind n with
          | .unary x _ => some (y, (annotOf vi x).render)
          | .binary a b _ =>
            let A := annotOf vi a
            let B := annotOf vi b
            let d := match A.dims, B.dims with
              | some la, some lb => broadcastDims [la, lb]
              | _, _ => none
            some (y, (⟨A.dtype, d⟩ : Annot).render)
          | .other => none
        else if inVocabX n then some (y, inferRender vi n)
        else none
      | _ => none
    pure (Json.arr (out.toArray.map fun (y, r) => Json.arr #[Json.str y, Json.str r])).compress
  | _ => throw "unknown op"

def main : IO Unit := do driverLoop (← IO.getStdin) step
