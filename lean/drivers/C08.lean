/- Line-protocol driver for C08 (one JSON request per line, one answer line each).
   {"op":"loosen","before":MODEL,"after":MODEL,"promote":bool,"constF32":[names]}
        -> same | diff <n model lines> <n real lines> | diff <model line> <> <real line>
        (model = loosenModel before, then promoteModel when "promote")
   {"op":"bcast","shapes":[[dim…]…]}   dim = int | "symbol" | null
        -> none | [d,d,…]  (rendered like annotations)
   {"op":"consistent","m":MODEL}
        -> {"vocab":n,"certified":k,"rejected":["scope|op|output|declared|inputs…", …]}  (all scopes)
-/
import J2O.Model.ModelTreeJson
import J2O.Model.C08
open Lean J2O.MT J2O.C08

def firstDiff : List String → List String → Option (String × String)
  | [], [] => none
  | a :: as, b :: bs => if a == b then firstDiff as bs else some (a, b)
  | a :: _, [] => some (a, "<missing>")
  | [], b :: _ => some ("<missing>", b)

/-- all scopes of a graph tree with a printable path; each scope's `vinfo` is extended by the
    annotations of its enclosing scopes (captured outer values), local entries first -/
partial def scopesOf (path : String) (outer : List (String × Annot)) (g : Graph) : List (String × Graph) :=
  let vi := g.vinfo ++ outer
  (path, .mk g.inputs g.inits g.nodes g.outputs vi) :: (g.nodes.zipIdx.flatMap fun (n, k) =>
    n.bodies.zipIdx.flatMap fun (b, j) => scopesOf s!"{path}/{k}:{n.op}[{j}]" vi b)

def rejectedOf (path : String) (g : Graph) : List String :=
  (g.nodes.filter (fun n => inVocab n && !nodeConsistent g.vinfo n)).map fun n =>
    let outs := ",".intercalate (n.outsRaw.map fun y => y ++ "=" ++ (annotOf g.vinfo y).render)
    let ins := ",".intercalate (n.ins.map fun x => x ++ "=" ++ (annotOf g.vinfo x).render)
    s!"{path}|{n.op}|{outs}|{ins}"

def step (j : Json) : Except String String := do
  let op ← (← j.getObjVal? "op").getStr?
  match op with
  | "loosen" =>
    let before ← jModel (← j.getObjVal? "before")
    let after ← jModel (← j.getObjVal? "after")
    let promote ← (← j.getObjVal? "promote").getBool?
    let c ← (← (← j.getObjVal? "constF32").getArr?).toList.mapM (·.getStr?)
    let m := loosenModel before
    let m := if promote then promoteModel c m else m
    let a := renderModel m
    let b := renderModel after
    match firstDiff a b with
    | none => pure "same"
    | some (x, y) => pure s!"diff {x} <> {y}"
  | "bcast" =>
    let shapes ← (← (← j.getObjVal? "shapes").getArr?).toList.mapM fun s => do
      (← s.getArr?).toList.mapM jDim
    match broadcastDims shapes with
    | none => pure "none"
    | some r => pure ("[" ++ ",".intercalate (r.map Dim.render) ++ "]")
  | "consistent" =>
    let m ← jModel (← j.getObjVal? "m")
    let scopes := scopesOf "main" [] m.graph ++ m.funcs.flatMap (fun f => scopesOf ("fn " ++ f.name) [] f.asGraph)
    let stats := scopes.map (fun (_, g) => consistentStats g)
    let vocab : Nat := stats.foldl (fun a s => a + s.1) 0
    let cert : Nat := stats.foldl (fun a s => a + s.2) 0
    let rej := scopes.flatMap (fun (p, g) => rejectedOf p g)
    pure (Json.mkObj [("vocab", toJson vocab), ("certified", toJson cert),
                      ("rejected", Json.arr (rej.toArray.map Json.str))]).compress
  | _ => throw "unknown op"

def main : IO Unit := do driverLoop (← IO.getStdin) step
