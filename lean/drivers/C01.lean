/- Line-protocol driver for the C01 model (values: `i:<int>` `b:0|1` `q:<num>/<den>` `err`).
   op <ideal|fixed> <ty> <argTy> <op> <val>*     -> val     one ONNX operator (Op.eval)
   recipe <name> <ideal|fixed> <val>*            -> val     regenerated recipe (Gen.C01.recipes)
   jax <key> <ty> <val>*                         -> val     JAX-side semantics (jaxSem)
   targ <name> <int>*      -> none | <nat>       tensor recipe: ArgMax/ArgMin
   tcum <name> <int>*      -> none | <int>*      tensor recipe: CumSum
   thot <name> <int>       -> none | 0/1 string  tensor recipe: OneHot
   jarg max|min <int>*  /  jcum 0|1 <int>*  /  jhot <depth> <int>     JAX-side tensor semantics
   oarg max|min 0|1 <int>* /  ocum <excl> <rev> <int>* / ohot <depth> <int>    ONNX tensor operators
   sweep <name> <key> <ty> <arity 1|2>  -> <cases> <bad> x[,s];...   all values of an 8-bit dtype:
                                           recipe (fixed mode) vs jaxSem, disagreeing inputs listed
   fix <q>                 -> int                candidate repair of lax.round
   bind <outs> <none|k>    -> unchanged | error | bound i:v,...   (outs: e.g. dn,DN ; D=drop N=needs)
   grecipe <name> <tensor>*          -> ok <tensor>* | fail <tensor>*    every value of the regenerated
                                        dataflow recipe (Gen.C01.grecipes) in SSA order (fail: up to the node that failed)
   gjax <key> <int>* / <tensor>*     -> <tensor>* | none                 JAX-side tensor semantics (jaxSemT)
   gop <ty> <argTy> <op…> / <tensor>* -> <tensor> | none                  one tensor operator (GOp.eval)
   (tensor: <d1>x<d2>…:<v1>,<v2>…   scalar ":5"   empty vector "0:")
-/
import J2O.Model.C01
import J2O.Model.C01Tensor
import J2O.Gen.C01
import J2O.Gen.C01Tensor
open J2O.C01

def parseDT : String → Option DT
  | "bool" => some .bool | "i8" => some .i8 | "i16" => some .i16 | "i32" => some .i32
  | "i64" => some .i64 | "u8" => some .u8 | "u16" => some .u16 | "u32" => some .u32
  | "u64" => some .u64 | "f32" => some .f32 | "f64" => some .f64 | _ => none

def parseMode : String → Option Mode
  | "ideal" => some .ideal | "fixed" => some .fixed | _ => none

def parseVal (s : String) : Val :=
  if s == "err" then .err
  else match s.splitOn ":" with
    | ["i", v] => match v.toInt? with | some n => .i n | none => .err
    | ["b", v] => .b (v == "1")
    | ["q", v] =>
      match v.splitOn "/" with
      | [n, d] => match n.toInt?, d.toNat? with
        | some n, some d => if d == 0 then .err else .q (mkRat n d)
        | _, _ => .err
      | [n] => match n.toInt? with | some n => .q (n : Rat) | none => .err
      | _ => .err
    | _ => .err

def showVal : Val → String
  | .i v => s!"i:{v}"
  | .b v => if v then "b:1" else "b:0"
  | .q v => s!"q:{v.num}/{v.den}"
  | .err => "err"

def parseOp : String → Option Op
  | "identity" => some .identity | "neg" => some .neg | "abs" => some .abs | "sign" => some .sign
  | "not" => some .not | "bitNot" => some .bitNot | "floor" => some .floor | "ceil" => some .ceil
  | "round" => some .round | "cast" => some .cast | "add" => some .add | "sub" => some .sub
  | "mul" => some .mul | "div" => some .div | "mod1" => some (.mod true) | "mod0" => some (.mod false)
  | "pow" => some .pow | "max" => some .max | "min" => some .min | "and" => some .and
  | "or" => some .or | "xor" => some .xor | "bitAnd" => some .bitAnd | "bitOr" => some .bitOr
  | "bitXor" => some .bitXor | "shl" => some .shl | "shr" => some .shr | "eq" => some .eq
  | "lt" => some .lt | "le" => some .le | "gt" => some .gt | "ge" => some .ge
  | "where" => some .where_ | "clip" => some .clip | _ => none

def ints (xs : List String) : Option (List Int) := xs.mapM String.toInt?

def showInts (l : List Int) : String := " ".intercalate (l.map toString)

def parseOuts (s : String) : List OutVar :=
  if s == "-" then [] else
  (s.splitOn ",").map fun t =>
    let cs := t.toList
    ⟨cs.getD 0 'd' == 'D', cs.getD 1 'n' == 'N'⟩

def allInts (t : DT) : List Int := (List.range (2 ^ t.bits)).map fun (n : Nat) => (n : Int) + t.lo

def sweep (r : Recipe) (key : String) (t : DT) (arity : Nat) : String := Id.run do
  let vs := allInts t
  let mut bad : Array String := #[]
  let mut n := 0
  if arity == 1 then
    for x in vs do
      n := n + 1
      if r.eval .fixed [.i x] != jaxSem key t [.i x] then bad := bad.push s!"{x}"
  else
    for x in vs do
      for y in vs do
        n := n + 1
        if r.eval .fixed [.i x, .i y] != jaxSem key t [.i x, .i y] then bad := bad.push s!"{x},{y}"
  return s!"{n} {bad.size} " ++ ";".intercalate bad.toList

def parseTn (s : String) : Option Tn :=
  match s.splitOn ":" with
  | [sh, da] =>
    let dims := if sh == "" then some [] else (sh.splitOn "x").mapM String.toNat?
    let vals := if da == "" then some [] else (da.splitOn ",").mapM String.toInt?
    match dims, vals with
    | some d, some v => some ⟨d, v⟩
    | _, _ => none
  | _ => none

def showTn (t : Tn) : String :=
  "x".intercalate (t.shape.map toString) ++ ":" ++ ",".intercalate (t.data.map toString)

def showTns (l : List Tn) : String := " ".intercalate (l.map showTn)

def splitSlash (xs : List String) : List String × List String :=
  (xs.takeWhile (· != "/"), (xs.dropWhile (· != "/")).drop 1)

def parseBin : String → Option BinOp
  | "add" => some .add | "sub" => some .sub | "mul" => some .mul | "div" => some .div
  | "max" => some .max | "min" => some .min | "less" => some .less | "greater" => some .greater
  | "equal" => some .equal | "and" => some .and | "or" => some .or | _ => none

def parseRed : String → Option RedKind
  | "max" => some .max | "min" => some .min | "sum" => some .sum | "prod" => some .prod | _ => none

def parseGOp : List String → Option GOp
  | ["identity"] => some .identity | ["neg"] => some .neg | ["not"] => some .not
  | ["cast", b] => some (.cast (b == "1"))
  | ["bin", f] => (parseBin f).map .bin
  | ["where"] => some .where_ | ["shape"] => some .shape | ["squeeze"] => some .squeeze
  | ["unsqueeze"] => some .unsqueeze | ["reshape"] => some .reshape | ["expand"] => some .expand
  | ["concat", a] => a.toInt?.map .concat
  | ["slice"] => some .slice | ["pad"] => some .pad | ["range"] => some .range
  | ["gather", a] => a.toInt?.map .gather
  | ["gatherElements", a] => a.toInt?.map .gatherElements
  | ["reduce", k, keep] => (parseRed k).map fun k => .reduce k (keep == "1")
  | ["topk", idx, ax, lg, so] => ax.toInt?.map fun a => .topk (idx == "1") a (lg == "1") (so == "1")
  | ["maxPool", k, pl, pr] =>
    match k.toInt?, pl.toInt?, pr.toInt? with
    | some k, some pl, some pr => some (.maxPool [k] [1] [pl, pr])
    | _, _, _ => none
  | ["cumsum", e, r] => some (.cumsum (e == "1") (r == "1"))
  | _ => none

def step (line : String) : String :=
  match line.trimAscii.toString.splitOn " " with
  | "grecipe" :: name :: ts =>
    match J2O.Gen.C01.grecipes.find? (fun p => p.1 == name), ts.mapM parseTn with
    | some (_, r), some ins =>
      let (env, ok) := evalGTrace ins r.nodes
      (if ok then "ok " else "fail ") ++ showTns env
    | _, _ => "bad-op"
  | "gjax" :: key :: rest =>
    let (ps, ts) := splitSlash rest
    match ps.mapM String.toInt?, ts.mapM parseTn with
    | some ps, some ins =>
      match jaxSemT key ps ins with
      | some o => showTns o
      | none => "none"
    | _, _ => "bad-op"
  | "gop" :: ty :: aty :: rest =>
    let (os, ts) := splitSlash rest
    match parseDT ty, parseDT aty, parseGOp os, ts.mapM parseTn with
    | some ty, some aty, some op, some ins =>
      match op.eval ty aty ins with
      | some o => showTn o
      | none => "none"
    | _, _, _, _ => "bad-op"
  | "op" :: md :: ty :: aty :: op :: vals =>
    match parseMode md, parseDT ty, parseDT aty, parseOp op with
    | some md, some ty, some aty, some op => showVal (op.eval md ty aty (vals.map parseVal))
    | _, _, _, _ => "bad-op"
  | "recipe" :: name :: md :: vals =>
    match parseMode md, J2O.Gen.C01.recipes.find? (fun p => p.1 == name) with
    | some md, some (_, r) => showVal (r.eval md (vals.map parseVal))
    | _, _ => "bad-op"
  | "jax" :: key :: ty :: vals =>
    match parseDT ty with
    | some ty => showVal (jaxSem key ty (vals.map parseVal))
    | none => "bad-op"
  | "targ" :: name :: xs =>
    match J2O.Gen.C01.trecipes.find? (fun p => p.1 == name), ints xs with
    | some (_, r), some l => match r.evalArg l with | some n => toString n | none => "none"
    | _, _ => "bad-op"
  | "tcum" :: name :: xs =>
    match J2O.Gen.C01.trecipes.find? (fun p => p.1 == name), ints xs with
    | some (_, r), some l => match r.evalCum l with | some o => showInts o | none => "none"
    | _, _ => "bad-op"
  | ["thot", name, x] =>
    match J2O.Gen.C01.trecipes.find? (fun p => p.1 == name), x.toInt? with
    | some (_, r), some i =>
      match r.evalOneHot i with
      | some o => String.ofList (o.map fun b => if b then '1' else '0')
      | none => "none"
    | _, _ => "bad-op"
  | "jarg" :: which :: xs =>
    match ints xs with
    | some l =>
      match (if which == "max" then Jax.argmax l else Jax.argmin l) with
      | some n => toString n | none => "none"
    | none => "bad-op"
  | "jcum" :: rev :: xs =>
    match ints xs with
    | some l => showInts (Jax.cumsum (rev == "1") l)
    | none => "bad-op"
  | ["jhot", d, x] =>
    match d.toNat?, x.toInt? with
    | some d, some i => String.ofList ((Jax.oneHot d i).map fun b => if b then '1' else '0')
    | _, _ => "bad-op"
  | "oarg" :: which :: last :: xs =>
    match ints xs with
    | some l =>
      match (if which == "max" then Onnx.argMax (last == "1") l else Onnx.argMin (last == "1") l) with
      | some n => toString n | none => "none"
    | none => "bad-op"
  | "ocum" :: ex :: rev :: xs =>
    match ints xs with
    | some l => showInts (Onnx.cumSum (ex == "1") (rev == "1") l)
    | none => "bad-op"
  | ["ohot", d, x] =>
    match d.toNat?, x.toInt? with
    | some d, some i => String.ofList ((Onnx.oneHot d i).map fun b => if b then '1' else '0')
    | _, _ => "bad-op"
  | ["sweep", name, key, ty, ar] =>
    match J2O.Gen.C01.recipes.find? (fun p => p.1 == name), parseDT ty, ar.toNat? with
    | some (_, r), some t, some a => sweep r key t a
    | _, _, _ => "bad-op"
  | ["fix", x] =>
    match parseVal x with
    | .q v => toString (roundAwayFix v)
    | _ => "bad-op"
  | ["bind", outs, ret] =>
    let os := parseOuts outs
    let r : Option (List Nat) := if ret == "none" then none else (ret.toNat?.map List.range)
    if ret != "none" && r.isNone then "bad-op" else
    match bindReturned os r with
    | .unchanged => "unchanged"
    | .error => "error"
    | .bound bs => "bound " ++ ",".intercalate (bs.map fun p => s!"{p.1}:{p.2}")
  | _ => "bad-op"

partial def loop (h : IO.FS.Stream) : IO Unit := do
  let line ← h.getLine
  if line.isEmpty then return ()
  IO.println (step line)
  loop h

def main : IO Unit := do loop (← IO.getStdin)
