/- Line-protocol driver for C03 (one JSON request per line, one answer line each).
   {"op":"scopes","m":MODEL}                      -> true | false <first failing conjunct>
   {"op":"names","calls":[CALL…]}                 -> JSON array of the minted names, call order
      CALL = ["C", ctx, base]          ctx.fresh_name(base)
           | ["B", ctx, base]          ctx.builder.fresh_name(base)
           | ["child", ctx, prefix, new]   new := make_subgraph_context(ctx, prefix=prefix)
                                           (answers with the prefix minted from the parent)
      context 0 is the root context.
-/
import J2O.Model.ModelTreeJson
import J2O.Model.C03
open Lean J2O.MT J2O.C03

structure CtxSim where
  id : Nat
  pref : Option Str
  cntC : Counters
  cntB : Counters

def findCtx (cs : List CtxSim) (i : Nat) : Option CtxSim := cs.find? (·.id == i)

def putCtx (cs : List CtxSim) (c : CtxSim) : List CtxSim :=
  c :: cs.filter (·.id != c.id)

def fullBase (c : CtxSim) (b : Str) : Str :=
  match c.pref with
  | none => b
  | some p => childBase p b

def simCall (cs : List CtxSim) (call : Json) : Except String (List CtxSim × String) := do
  let arr ← call.getArr?
  let kind ← arr[0]!.getStr?
  let cid ← arr[1]!.getNat?
  let some c := findCtx cs cid | throw s!"unknown ctx {cid}"
  let base := (← arr[2]!.getStr?).toList
  match kind with
  | "C" =>
    let (nm, cnt) := fresh renderC c.cntC (fullBase c base)
    pure (putCtx cs { c with cntC := cnt }, String.ofList nm)
  | "B" =>
    let (nm, cnt) := fresh renderB c.cntB (fullBase c base)
    pure (putCtx cs { c with cntB := cnt }, String.ofList nm)
  | "child" =>
    let newId ← arr[3]!.getNat?
    let (nm, cnt) := fresh renderC c.cntC (fullBase c base)
    let cs := putCtx cs { c with cntC := cnt }
    pure (putCtx cs { id := newId, pref := some nm, cntC := [], cntB := [] }, String.ofList nm)
  | _ => throw "bad call kind"

def step (j : Json) : Except String String := do
  let op ← (← j.getObjVal? "op").getStr?
  match op with
  | "scopes" =>
    let m ← jModel (← j.getObjVal? "m")
    if checkScopes m then pure "true" else pure ("false " ++ explain m)
  | "names" =>
    let calls ← (← j.getObjVal? "calls").getArr?
    let mut cs : List CtxSim := [{ id := 0, pref := none, cntC := [], cntB := [] }]
    let mut out : Array Json := #[]
    for call in calls do
      let (cs', nm) ← simCall cs call
      cs := cs'
      out := out.push (Json.str nm)
    pure (Json.arr out).compress
  | _ => throw "unknown op"

def main : IO Unit := do driverLoop (← IO.getStdin) step
