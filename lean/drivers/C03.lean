/- Line-protocol driver for C03 (one JSON request per line, one answer line each).
   {"op":"scopes","m":MODEL}                      -> true | false <first failing conjunct>
                                                     (checkScopes; callsBound: no absent operand for a formal that is read; acyclic: no recursion)
   {"op":"names","calls":[CALL…]}                 -> JSON array of the minted names, call order
      CALL = ["C", ctx, base]          ctx.fresh_name(base)
           | ["B", ctx, base]          ctx.builder.fresh_name(base)
           | ["child", ctx, prefix, new]   new := make_subgraph_context(ctx, prefix=prefix)
                                           (answers with the prefix minted from the parent)
      context 0 is the root context.
   {"op":"namefix","ev":[EV…]}                    -> JSON array of [value id, final name] in visiting order | fuel
      EV = ["enter"] | ["exit"] | ["v", id, name]   (NameFixPass contract model `nfRun`, Model/C03Rename.lean)
-/
import J2O.Model.ModelTreeJson
import J2O.Model.C03
import J2O.Model.C03Rename
import J2O.Model.C03Calls
import J2O.Model.C03Acyclic
open Lean J2O.MT J2O.C03

structure CtxSim where
  id : Nat
  pref : Option Str
  cntC : Counters
  cntB : Counters

def findCtx (cs : List CtxSim) (i : Nat) : Option CtxSim := cs.find? (·.id == i)

def putCtx (cs : List CtxSim) (c : CtxSim) : List CtxSim :=
  c :: cs.filter (·.id != c.id)

def fullBase (c : CtxSim) (b : Str) : Str :=
  match c.pref with
  | none => b
  | some p => childBase p b

def simCall (cs : List CtxSim) (call : Json) : Except String (List CtxSim × String) := do
  let arr ← call.getArr?
  let kind ← arr[0]!.getStr?
  let cid ← arr[1]!.getNat?
  let some c := findCtx cs cid | throw s!"unknown ctx {cid}"
  let base := (← arr[2]!.getStr?).toList
  match kind with
  | "C" =>
    let (nm, cnt) := fresh renderC c.cntC (fullBase c base)
    pure (putCtx cs { c with cntC := cnt }, String.ofList nm)
  | "B" =>
    let (nm, cnt) := fresh renderB c.cntB (fullBase c base)
    pure (putCtx cs { c with cntB := cnt }, String.ofList nm)
  | "child" =>
    let newId ← arr[3]!.getNat?
    let (nm, cnt) := fresh renderC c.cntC (fullBase c base)
    let cs := putCtx cs { c with cntC := cnt }
    pure (putCtx cs { id := newId, pref := some nm, cntC := [], cntB := [] }, String.ofList nm)
  | _ => throw "bad call kind"

def step (j : Json) : Except String String := do
  let op ← (← j.getObjVal? "op").getStr?
  match op with
  | "scopes" =>
    let m ← jModel (← j.getObjVal? "m")
    if !checkScopes m then pure ("false " ++ explain m)
    else if !callsBound m then pure "false call-operand-absent"     -- Props/C03Calls.lean
    else if !acyclic m then pure "false function-recursion"         -- Props/C03Acyclic.lean
    else pure "true"
  | "names" =>
    let calls ← (← j.getObjVal? "calls").getArr?
    let mut cs : List CtxSim := [{ id := 0, pref := none, cntC := [], cntB := [] }]
    let mut out : Array Json := #[]
    for call in calls do
      let (cs', nm) ← simCall cs call
      cs := cs'
      out := out.push (Json.str nm)
    pure (Json.arr out).compress
  | "namefix" =>
    let evs ← (← j.getObjVal? "ev").getArr?
    let mut es : Array Ev := #[]
    for e in evs do
      let arr ← e.getArr?
      match ← arr[0]!.getStr? with
      | "enter" => es := es.push .enter
      | "exit" => es := es.push .exit
      | "v" => es := es.push (.val (← arr[1]!.getNat?) (← arr[2]!.getStr?))
      | _ => throw "bad event"
    match nfRun nfInit es.toList with
    | none => pure "fuel"
    | some st =>
      pure (Json.arr (st.out.reverse.toArray.map fun (i, nm) => Json.arr #[Json.num i, Json.str nm])).compress
  | _ => throw "unknown op"

def main : IO Unit := do driverLoop (← IO.getStdin) step
