/- Line-protocol driver for the C06 model: one JSON request per line, one JSON answer per line.

  {"op":"prescribe","kind":"while","nCondConst":a,"nBodyConst":b,"nState":c,"batched":bool}
  {"op":"prescribe","kind":"fori","lo":l,"trip":n,"nState":c}
  {"op":"prescribe","kind":"scan","nConst":a,"nCarry":b,"nXs":c,"nYs":d,"length":n|null}
  {"op":"prescribe","kind":"cond"}                       -> the wiring the scheme prescribes
  {"op":"accepts","construct":"while|fori|scan|cond","reverse":b,"nXs":n,"staticLength":b,
   "nState":n,"dynamicBounds":b,"capturesTracer":b,"nBranches":n}            -> {"accepts":bool,"supported":bool}
  {"op":"loop","M":m,"cond0":b,"a":a,"b":b,"c":c,"T":t,"s0":s}
       ONNX Loop with body  s' = a*s + b*iter + c ; cond_out = s' < T ; scan output s'
                                                           -> {"state":s,"stacked":[..]}
  {"op":"while","a":a,"c":c,"T":t,"s0":s,"fuel":n}        JAX while  (s < T) (a*s + c)  -> {"state":s|null}
-/
import Lean.Data.Json
import J2O.Model.C06
open Lean J2O.C06

abbrev R := Except String

def tripJ : Trip → Json
  | .maxInt64 => Json.arr #[Json.str "max"]
  | .static n => Json.arr #[Json.str "static", Json.num (n : Int)]
  | .dimOfCarried k => Json.arr #[Json.str "dim", Json.num (k : Int)]

def slotS : Slot → String
  | .predicate => "predicate" | .bodyConst => "bodyConst" | .condConst => "condConst"
  | .state => "state" | .const => "const" | .carry => "carry" | .xs => "xs"

def wiringJ (w : LoopWiring) : Json :=
  Json.mkObj [
    ("trip", tripJ w.trip),
    ("cond0", Json.str (match w.cond0 with | .constTrue => "true" | .computed => "computed")),
    ("condOut", Json.str (match w.condOut with
      | .passCondIn => "pass" | .ofNewState => "new" | .ofOldState => "old" | .other => "other")),
    ("slots", Json.arr (w.slots.toArray.map fun s => Json.str (slotS s))),
    ("outs", Json.arr (w.outs.toArray.map fun o =>
      Json.str (match o with | .passthrough => "passthrough" | .computed => "computed"))),
    ("nScanOut", Json.num (w.nScanOut : Int)),
    ("gathered", Json.arr (w.gathered.toArray.map fun (k : Nat) => Json.num (Int.ofNat k))),
    ("iterOffset", Json.num w.iterOffset),
    ("results", Json.arr (w.results.toArray.map fun (k : Nat) => Json.num (Int.ofNat k)))]

def getNat (j : Json) (k : String) : R Nat := do (← j.getObjVal? k).getNat?
def getInt (j : Json) (k : String) : R Int := do (← j.getObjVal? k).getInt?
def getBool (j : Json) (k : String) : R Bool := do (← j.getObjVal? k).getBool?

def handle (line : String) : R Json := do
  let j ← Json.parse line
  let op ← (← j.getObjVal? "op").getStr?
  match op with
  | "prescribe" =>
    let kind ← (← j.getObjVal? "kind").getStr?
    match kind with
    | "while" => pure (wiringJ (prescribeWhile (← getNat j "nCondConst") (← getNat j "nBodyConst")
                                  (← getNat j "nState") (← getBool j "batched")))
    | "fori" => pure (wiringJ (prescribeFori (← getInt j "lo") (← getNat j "trip") (← getNat j "nState")))
    | "scan" =>
      let len := match j.getObjVal? "length" with
        | .ok (.num n) => some n.mantissa.toNat
        | _ => none
      pure (wiringJ (prescribeScan (← getNat j "nConst") (← getNat j "nCarry") (← getNat j "nXs")
                        (← getNat j "nYs") len))
    | "cond" =>
      let w := prescribeCond
      pure (Json.mkObj [("castToBool", Json.bool w.castToBool), ("thenBranch", Json.num (w.thenBranch : Int)),
                        ("elseBranch", Json.num (w.elseBranch : Int))])
    | k => throw s!"bad-kind:{k}"
  | "accepts" =>
    let c ← match (← (← j.getObjVal? "construct").getStr?) with
      | "while" => pure Construct.whileLoop
      | "fori" => pure Construct.foriLoop
      | "scan" => pure Construct.scan
      | "cond" => pure Construct.cond
      | k => throw s!"bad-construct:{k}"
    let v : Variant := { construct := c, reverse := ← getBool j "reverse", nXs := ← getNat j "nXs",
                         staticLength := ← getBool j "staticLength", nState := ← getNat j "nState",
                         dynamicBounds := ← getBool j "dynamicBounds",
                         capturesTracer := ← getBool j "capturesTracer", nBranches := ← getNat j "nBranches" }
    pure (Json.mkObj [("accepts", Json.bool (accepts v)), ("supported", Json.bool (supported v))])
  | "loop" =>
    let a ← getInt j "a"; let b ← getInt j "b"; let c ← getInt j "c"; let t ← getInt j "T"
    let r := loopO (← getNat j "M") (← getBool j "cond0")
      (fun i _ (s : Int) => let s' := a * s + b * i + c; (decide (s' < t), s', s')) (← getInt j "s0")
    pure (Json.mkObj [("state", Json.num r.1), ("stacked", Json.arr (r.2.toArray.map fun (x : Int) => Json.num (JsonNumber.fromInt x)))])
  | "while" =>
    let a ← getInt j "a"; let c ← getInt j "c"; let t ← getInt j "T"
    match whileFuel (fun s : Int => decide (s < t)) (fun s => a * s + c) (← getNat j "fuel") (← getInt j "s0") with
    | some s => pure (Json.mkObj [("state", Json.num s)])
    | none => pure (Json.mkObj [("state", Json.null)])
  | o => throw s!"bad-op:{o}"

partial def loop (h : IO.FS.Stream) : IO Unit := do
  let line ← h.getLine
  if line.isEmpty then return ()
  match handle line with
  | .ok j => IO.println j.compress
  | .error e => IO.println (Json.mkObj [("error", Json.str e)]).compress
  loop h

def main : IO Unit := do loop (← IO.getStdin)
