/- Line-protocol driver for the C06 model: one JSON request per line, one JSON answer per line.

  {"op":"prescribe","kind":"while","nCondConst":a,"nBodyConst":b,"nState":c,"batched":bool}
  {"op":"prescribe","kind":"fori","lo":l,"trip":n,"nState":c}
  {"op":"prescribe","kind":"scan","nConst":a,"nCarry":b,"nXs":c,"nYs":d,"length":n|null}
  {"op":"prescribe","kind":"cond"}                       -> the wiring the scheme prescribes
  {"op":"accepts","construct":"while|fori|scan|cond","reverse":b,"nXs":n,"staticLength":b,
   "nState":n,"dynamicBounds":b,"capturesTracer":b,"nBranches":n}            -> {"accepts":bool,"supported":bool}
  {"op":"loop","M":m,"cond0":b,"a":a,"b":b,"c":c,"T":t,"s0":s}
       ONNX Loop with body  s' = a*s + b*iter + c ; cond_out = s' < T ; scan output s'
                                                           -> {"state":s,"stacked":[..]}
  {"op":"while","a":a,"c":c,"T":t,"s0":s,"fuel":n}        JAX while  (s < T) (a*s + c)  -> {"state":s|null}
  {"op":"mask","predShape":[..],"stateRank":n,"axes":[..]}   freeze mask of the vmapped while: shape of
       Unsqueeze(pred, axes) and what the scheme prescribes   -> {"shape":[..],"prescribedAxes":[..],"prescribedShape":[..]}
  {"op":"bcast","maskShape":[..],"stateShape":[..]}         for every index of the state (row-major) the flat
       position of the mask element that broadcasting reads (`bproj`)           -> {"reads":[..]}
  {"op":"bodies","loops":[[code,const],..]}                 body each loop gets (`exportMemo`, key = code and
       closure, empty memo) and without any memo                                -> {"bodies":[..],"own":[..]}
  {"op":"scanM","M":m,"xs":[..]}                            scan Loop with trip count M, body (c+x, c*2+x)
                                                           -> {"carry":c,"stacked":[..],"jaxCarry":c,"jaxStacked":[..]}
-/
import Lean.Data.Json
import J2O.Model.C06
import J2O.Model.C06R2
open Lean J2O.C06

abbrev R := Except String

def tripJ : Trip → Json
  | .maxInt64 => Json.arr #[Json.str "max"]
  | .static n => Json.arr #[Json.str "static", Json.num (n : Int)]
  | .dimOfCarried k => Json.arr #[Json.str "dim", Json.num (k : Int)]

def slotS : Slot → String
  | .predicate => "predicate" | .bodyConst => "bodyConst" | .condConst => "condConst"
  | .state => "state" | .const => "const" | .carry => "carry" | .xs => "xs"

def wiringJ (w : LoopWiring) : Json :=
  Json.mkObj [
    ("trip", tripJ w.trip),
    ("cond0", Json.str (match w.cond0 with | .constTrue => "true" | .computed => "computed")),
    ("condOut", Json.str (match w.condOut with
      | .passCondIn => "pass" | .ofNewState => "new" | .ofOldState => "old" | .other => "other")),
    ("slots", Json.arr (w.slots.toArray.map fun s => Json.str (slotS s))),
    ("outs", Json.arr (w.outs.toArray.map fun o =>
      Json.str (match o with | .passthrough => "passthrough" | .computed => "computed"))),
    ("nScanOut", Json.num (w.nScanOut : Int)),
    ("gathered", Json.arr (w.gathered.toArray.map fun (k : Nat) => Json.num (Int.ofNat k))),
    ("iterOffset", Json.num w.iterOffset),
    ("results", Json.arr (w.results.toArray.map fun (k : Nat) => Json.num (Int.ofNat k)))]

def getNat (j : Json) (k : String) : R Nat := do (← j.getObjVal? k).getNat?
def getInt (j : Json) (k : String) : R Int := do (← j.getObjVal? k).getInt?
def getBool (j : Json) (k : String) : R Bool := do (← j.getObjVal? k).getBool?

def getNats (j : Json) (k : String) : R (List Nat) := do
  let a ← (← j.getObjVal? k).getArr?
  a.toList.mapM fun x => x.getNat?

def natsJ (l : List Nat) : Json := Json.arr (l.toArray.map fun (k : Nat) => Json.num (Int.ofNat k))
def intsJ (l : List Int) : Json := Json.arr (l.toArray.map fun (k : Int) => Json.num (JsonNumber.fromInt k))

/-- all multi-indices of a shape in row-major order -/
def allIdx : List Nat → List (List Nat)
  | [] => [[]]
  | d :: ds => (List.range d).flatMap fun i => (allIdx ds).map (i :: ·)

/-- row-major flat position -/
def ravel (shape idx : List Nat) : Nat :=
  (shape.zip idx).foldl (fun acc (di : Nat × Nat) => acc * di.1 + di.2) 0

def handle (line : String) : R Json := do
  let j ← Json.parse line
  let op ← (← j.getObjVal? "op").getStr?
  match op with
  | "prescribe" =>
    let kind ← (← j.getObjVal? "kind").getStr?
    match kind with
    | "while" => pure (wiringJ (prescribeWhile (← getNat j "nCondConst") (← getNat j "nBodyConst")
                                  (← getNat j "nState") (← getBool j "batched")))
    | "fori" => pure (wiringJ (prescribeFori (← getInt j "lo") (← getNat j "trip") (← getNat j "nState")))
    | "scan" =>
      let len := match j.getObjVal? "length" with
        | .ok (.num n) => some n.mantissa.toNat
        | _ => none
      pure (wiringJ (prescribeScan (← getNat j "nConst") (← getNat j "nCarry") (← getNat j "nXs")
                        (← getNat j "nYs") len))
    | "cond" =>
      let w := prescribeCond
      pure (Json.mkObj [("castToBool", Json.bool w.castToBool), ("thenBranch", Json.num (w.thenBranch : Int)),
                        ("elseBranch", Json.num (w.elseBranch : Int))])
    | k => throw s!"bad-kind:{k}"
  | "accepts" =>
    let c ← match (← (← j.getObjVal? "construct").getStr?) with
      | "while" => pure Construct.whileLoop
      | "fori" => pure Construct.foriLoop
      | "scan" => pure Construct.scan
      | "cond" => pure Construct.cond
      | k => throw s!"bad-construct:{k}"
    let v : Variant := { construct := c, reverse := ← getBool j "reverse", nXs := ← getNat j "nXs",
                         staticLength := ← getBool j "staticLength", nState := ← getNat j "nState",
                         dynamicBounds := ← getBool j "dynamicBounds",
                         capturesTracer := ← getBool j "capturesTracer", nBranches := ← getNat j "nBranches" }
    pure (Json.mkObj [("accepts", Json.bool (accepts v)), ("supported", Json.bool (supported v))])
  | "loop" =>
    let a ← getInt j "a"; let b ← getInt j "b"; let c ← getInt j "c"; let t ← getInt j "T"
    let r := loopO (← getNat j "M") (← getBool j "cond0")
      (fun i _ (s : Int) => let s' := a * s + b * i + c; (decide (s' < t), s', s')) (← getInt j "s0")
    pure (Json.mkObj [("state", Json.num r.1), ("stacked", Json.arr (r.2.toArray.map fun (x : Int) => Json.num (JsonNumber.fromInt x)))])
  | "while" =>
    let a ← getInt j "a"; let c ← getInt j "c"; let t ← getInt j "T"
    match whileFuel (fun s : Int => decide (s < t)) (fun s => a * s + c) (← getNat j "fuel") (← getInt j "s0") with
    | some s => pure (Json.mkObj [("state", Json.num s)])
    | none => pure (Json.mkObj [("state", Json.null)])
  | "mask" =>
    let ps ← getNats j "predShape"
    let n ← getNat j "stateRank"
    let axes ← getNats j "axes"
    pure (Json.mkObj [("shape", natsJ (unsqueezeShape ps axes)), ("prescribedAxes", natsJ (maskAxes ps.length n)),
                      ("prescribedShape", natsJ (maskShape ps n))])
  | "bcast" =>
    let ms ← getNats j "maskShape"
    let ss ← getNats j "stateShape"
    pure (Json.mkObj [("reads", natsJ ((allIdx ss).map fun idx => ravel ms (bproj ms idx)))])
  | "bodies" =>
    let a ← (← j.getObjVal? "loops").getArr?
    let loops ← a.toList.mapM fun (x : Json) => do
      let p ← x.getArr?
      match p.toList with
      | [c, m] => pure ((← c.getNat?), (← m.getInt?))
      | _ => throw "bad-loop"
    pure (Json.mkObj [("bodies", intsJ (exportMemo (fun e : Nat × Int => e) (fun e => e.2) [] loops)),
                      ("own", intsJ (exportBodies (fun e : Nat × Int => e.2) loops))])
  | "scanM" =>
    let a ← (← j.getObjVal? "xs").getArr?
    let xs ← a.toList.mapM fun (x : Json) => x.getInt?
    let f : Int → Int → Int × Int := fun c x => (c + x, c * 2 + x)
    let r := scanSchemeM (← getNat j "M") f 0 xs
    let q := scanJ f 0 xs
    pure (Json.mkObj [("carry", Json.num (JsonNumber.fromInt r.1)), ("stacked", intsJ r.2),
                      ("jaxCarry", Json.num (JsonNumber.fromInt q.1)), ("jaxStacked", intsJ q.2)])
  | o => throw s!"bad-op:{o}"

partial def loop (h : IO.FS.Stream) : IO Unit := do
  let line ← h.getLine
  if line.isEmpty then return ()
  match handle line with
  | .ok j => IO.println j.compress
  | .error e => IO.println (Json.mkObj [("error", Json.str e)]).compress
  loop h

def main : IO Unit := do loop (← IO.getStdin)
