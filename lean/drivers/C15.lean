/- Line-protocol driver for the C15 on-disk state machine (length level, `stepL`).

   {"op":"hist","side0":null|<size>,"steps":[{"mode":"standard"|"web","clash":bool,
                                             "req":[[name,raw,len]..]}..]}
   -> one record per step, joined by " | ":
        ok=<b> main=[name:i<len>;name:e<off>+<len>;..] side=<size|none>
-/
import Lean.Data.Json
import J2O.Model.C15
open Lean J2O.C15

def optAll {α β} (f : α → Option β) : List α → Option (List β)
  | [] => some []
  | x :: xs => do let y ← f x; let ys ← optAll f xs; pure (y :: ys)

def parseReqEntry (j : Json) : Option (String × Bool × Nat) := do
  let a ← j.getArr?.toOption
  let n ← (← a[0]?).getStr?.toOption
  let r ← (← a[1]?).getBool?.toOption
  let l ← (← a[2]?).getNat?.toOption
  pure (n, r, l)

def showStored : String × StoredL → String
  | (n, .inline l) => s!"{n}:i{l}"
  | (n, .ext o l) => s!"{n}:e{o}+{l}"

def showDisk (d : DiskL) (ok : Bool) : String :=
  let m := match d.main with
    | none => "none"
    | some es => "[" ++ ";".intercalate (es.map showStored) ++ "]"
  let s := match d.side with
    | none => "none"
    | some n => toString n
  s!"ok={ok} main={m} side={s}"

def stepHist (j : Json) : Option String := do
  let side0 := (j.getObjValAs? Nat "side0").toOption
  let stepsJ ← (j.getObjVal? "steps").toOption
  let steps ← optAll (fun (s : Json) => do
      let mode ← (s.getObjValAs? String "mode").toOption
      let clash ← (s.getObjValAs? Bool "clash").toOption
      let rq ← (s.getObjVal? "req").toOption
      let req ← optAll parseReqEntry (← rq.getArr?.toOption).toList
      let m ← (if mode == "web" then some Mode.web else if mode == "standard" then some Mode.standard else none)
      pure (m, clash, req)) (← stepsJ.getArr?.toOption).toList
  let init : DiskL × List String := (⟨none, side0⟩, [])
  let (_, outs) := steps.foldl (fun (acc : DiskL × List String) (st : Mode × Bool × Req) =>
      let r := stepL acc.1 st.1 st.2.2 st.2.1
      (r.1, acc.2 ++ [showDisk r.1 r.2])) init
  pure (" | ".intercalate outs)

def step (line : String) : String :=
  match Json.parse line with
  | .error _ => "bad-json"
  | .ok j =>
    match (j.getObjValAs? String "op").toOption with
    | some "hist" => (stepHist j).getD "bad-op"
    | _ => "bad-op"

partial def loop (h : IO.FS.Stream) : IO Unit := do
  let line ← h.getLine
  if line.isEmpty then return ()
  IO.println (step line)
  loop h

def main : IO Unit := do loop (← IO.getStdin)
