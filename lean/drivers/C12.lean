/- Line-protocol driver for the C12 model.
   {"op":"wrap","plain":[term…],"flagged":[term…],"fin":[i…],"fout":[i…]}
        -> match | mismatch     (is the real flagged export the wrap of the real plain export?)
   {"op":"validate","upper":n,"raw":[int | bool | anything else …]}
        -> ok [i, …] | err notInteger | err outOfRange | err duplicate
-/
import Lean.Data.Json
import J2O.Model.TermJson
import J2O.Model.C12
open Lean (Json)
open J2O J2O.C02 J2O.C12 J2O.TermJson

def rawIdx (j : Json) : RawIdx :=
  match j with
  | .bool b => .bool b
  | .num n => if n.exponent == 0 then .int n.mantissa else .other
  | _ => .other

def handle (line : String) : String :=
  match Json.parse line with
  | .error e => s!"error:json {e}"
  | .ok j =>
    match j.getObjVal? "op" with
    | .ok (.str "validate") =>
      let upper := (j.getObjVal? "upper").toOption.bind (fun v => v.getNat?.toOption) |>.getD 0
      let raw := match j.getObjVal? "raw" with | .ok (.arr a) => a.toList.map rawIdx | _ => []
      match validateLayoutIndices upper raw [] with
      | .ok out => s!"ok {out}"
      | .error .notInteger => "err notInteger"
      | .error .outOfRange => "err outOfRange"
      | .error .duplicate => "err duplicate"
    | .ok (.str "wrap") =>
      match j.getObjVal? "plain", j.getObjVal? "flagged" with
      | .ok (.arr p), .ok (.arr f) =>
        match p.toList.mapM parseTerm, f.toList.mapM parseTerm with
        | .ok pt, .ok ft =>
          let fin := ((j.getObjVal? "fin").toOption.bind natList?).getD []
          let fout := ((j.getObjVal? "fout").toOption.bind natList?).getD []
          let w := wrap fin fout (Term.ofList pt)
          let fl := Term.ofList ft
          if fl.erase == w.erase || certify fl w || certify w fl then "match" else "mismatch"
        | _, _ => "error:term"
      | _, _ => "error:missing"
    | _ => "error:op"

partial def loop (h : IO.FS.Stream) : IO Unit := do
  let line ← h.getLine
  if line.isEmpty then return ()
  IO.println (handle line)
  loop h

def main : IO Unit := do loop (← IO.getStdin)
