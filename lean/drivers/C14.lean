/- Line-protocol driver for the C14 model (one JSON object per line, one JSON answer per line).

   {"op":"names","kind":"b"|"c","bases":[…]}                      -> ["x_0",…]
   {"op":"friendly","calls":[[ns,base,unique],…]}                 -> [[op_type,domain],…]
   {"op":"memo","table":[[k,bool],…],"keys":[k,…]}                -> {"vals":[…],"cache":[k,…]}
   {"op":"convert","plugins":[[prim,fn],…],"sig":[[fn,bool],…],
        "hist":[[["fresh","x"],["bfresh","x"],["call",key,ns,base,unique],["lower",p],
                 ["bind",k,v],["resolve",k],["fail"]],…]}          -> [{"ok":[…]}|{"err":"…"},…]
   {"op":"refresh","ann":[[v,[dims]],…],"nodes":[[id,out,[ins]],…],"query":[v,…]}
                                                                   -> [[dims]|null,…]
   {"op":"ctx","prog":P,"raise":[k,…],"init":[names]}             -> {"raised":b,"val":[…],"trace":[[…],…]}
        P = ["step",k] | ["read"] | ["seq",P,P] | ["token",name,P] | ["saved",name,P] | ["nofinally",name,P]
          | ["handle",P,P] | ["assign",name]
-/
import Lean.Data.Json
import J2O.Model.C14
import J2O.Model.C14Ctx
open Lean J2O.C14

def orErr {α : Type} (x : Except String α) (f : α → Json) : Json :=
  match x with
  | .ok a => f a
  | .error e => Json.mkObj [("bad", Json.str e)]

def natList (j : Json) : Except String (List Nat) := do
  let a ← j.getArr?
  a.toList.mapM (fun x => x.getNat?)

def doNames (j : Json) : Except String Json := do
  let kind ← (← j.getObjVal? "kind").getStr?
  let bases ← (← j.getObjVal? "bases").getArr?
  let bases ← bases.toList.mapM (fun x => x.getStr?)
  let f := if kind == "b" then freshBuilder else freshCtx
  let (out, _) := bases.foldl (fun (acc : List String × Counters String) b =>
    let (n, c) := f acc.2 b
    (acc.1 ++ [n], c)) ([], [])
  return Json.arr (out.map Json.str).toArray

def doFriendly (j : Json) : Except String Json := do
  let calls ← (← j.getObjVal? "calls").getArr?
  let calls ← calls.toList.mapM (fun x => do
    let a ← x.getArr?
    let ns ← a[0]!.getStr?
    let base ← a[1]!.getStr?
    let u ← a[2]!.getBool?
    pure (ns, base, u))
  let (out, _) := calls.foldl (fun (acc : List Json × Counters (String × String × Bool)) c =>
    let (d, ctr) := friendly acc.2 c.1 c.2.1 c.2.2
    (acc.1 ++ [Json.arr #[Json.str d.1, Json.str d.2]], ctr)) ([], [])
  return Json.arr out.toArray

def doMemo (j : Json) : Except String Json := do
  let table ← (← j.getObjVal? "table").getArr?
  let table ← table.toList.mapM (fun x => do
    let a ← x.getArr?
    pure ((← a[0]!.getNat?), (← a[1]!.getBool?)))
  let keys ← natList (← j.getObjVal? "keys")
  let f : Nat → Bool := fun k => (table.lookup k).getD false
  let (vals, cache) := memoRun f [] keys
  return Json.mkObj [("vals", Json.arr (vals.map Json.bool).toArray),
                     ("cache", Json.arr (cache.reverse.map (fun kv => Json.num (JsonNumber.fromNat kv.1))).toArray)]

def parseOp (x : Json) : Except String (Op Nat) := do
  let a ← x.getArr?
  let tag ← a[0]!.getStr?
  match tag with
  | "fresh" => pure (.fresh (← a[1]!.getStr?))
  | "bfresh" => pure (.bfresh (← a[1]!.getStr?))
  | "call" => pure (.call (← a[1]!.getNat?) (← a[2]!.getStr?) (← a[3]!.getStr?) (← a[4]!.getBool?))
  | "lower" => pure (.lower (← a[1]!.getNat?))
  | "bind" => pure (.bind (← a[1]!.getNat?) (← a[2]!.getNat?))
  | "resolve" => pure (.resolve (← a[1]!.getNat?))
  | "fail" => pure .fail
  | t => throw s!"unknown op {t}"

def doConvert (j : Json) : Except String Json := do
  let pairs (name : String) : Except String (List (Nat × Json)) := do
    let arr ← (← j.getObjVal? name).getArr?
    arr.toList.mapM (fun x => do
      let a ← x.getArr?
      pure ((← a[0]!.getNat?), a[1]!))
  let plugins ← (← pairs "plugins").mapM (fun kv => do pure (kv.1, (← kv.2.getNat?)))
  let sigT ← (← pairs "sig").mapM (fun kv => do pure (kv.1, (← kv.2.getBool?)))
  let sig : Nat → Bool := fun k => (sigT.lookup k).getD false
  let hist ← (← j.getObjVal? "hist").getArr?
  let hist ← hist.toList.mapM (fun r => do
    let ops ← r.getArr?
    ops.toList.mapM parseOp)
  let (outs, _) := hist.foldl (fun (acc : List Json × Global) r =>
    let (o, g) := convert sig acc.2 r
    let jo := match o with
      | .ok l => Json.mkObj [("ok", Json.arr (l.map Json.str).toArray)]
      | .error e => Json.mkObj [("err", Json.str e)]
    (acc.1 ++ [jo], g)) ([], (⟨plugins, [], []⟩ : Global))
  return Json.arr outs.toArray

def doRefresh (j : Json) : Except String Json := do
  let annL ← (← j.getObjVal? "ann").getArr?
  let annL ← annL.toList.mapM (fun x => do
    let a ← x.getArr?
    pure ((← a[0]!.getNat?), (← natList a[1]!)))
  let nodes ← (← j.getObjVal? "nodes").getArr?
  let nodes ← nodes.toList.mapM (fun x => do
    let a ← x.getArr?
    pure (⟨(← a[0]!.getNat?), (← a[1]!.getNat?), (← natList a[2]!)⟩ : Node))
  let query ← natList (← j.getObjVal? "query")
  let ann := refreshAll nodes (annOf annL)
  return Json.arr (query.map (fun v =>
    match ann v with
    | none => Json.null
    | some s => Json.arr (s.map (fun (d : Nat) => Json.num (JsonNumber.fromNat d))).toArray)).toArray

partial def parseProg (x : Json) : Except String J2O.C14Ctx.Prog := do
  let a ← x.getArr?
  let tag ← a[0]!.getStr?
  match tag with
  | "step" => pure (.step (← a[1]!.getNat?))
  | "read" => pure .read
  | "seq" => pure (.seq (← parseProg a[1]!) (← parseProg a[2]!))
  | "token" => pure (.withToken (← a[1]!.getStr?) (← parseProg a[2]!))
  | "saved" => pure (.withSaved (← a[1]!.getStr?) (← parseProg a[2]!))
  | "nofinally" => pure (.noFinally (← a[1]!.getStr?) (← parseProg a[2]!))
  | "handle" => pure (.handle (← parseProg a[1]!) (← parseProg a[2]!))
  | "assign" => pure (.assign (← a[1]!.getStr?))
  | t => throw s!"unknown prog {t}"

def doCtx (j : Json) : Except String Json := do
  let p ← parseProg (← j.getObjVal? "prog")
  let rs ← natList (← j.getObjVal? "raise")
  let init ← (← j.getObjVal? "init").getArr?
  let init ← init.toList.mapM (fun x => x.getStr?)
  let r := J2O.C14Ctx.exec (fun k => rs.contains k) p init
  let strs (l : List String) : Json := Json.arr (l.map Json.str).toArray
  return Json.mkObj [("raised", Json.bool r.raised), ("val", strs r.val),
                     ("trace", Json.arr (r.trace.map strs).toArray)]

def answer (line : String) : String :=
  match Json.parse line with
  | .error e => (Json.mkObj [("bad", Json.str e)]).compress
  | .ok j =>
    let r : Except String Json := do
      let op ← (← j.getObjVal? "op").getStr?
      match op with
      | "names" => doNames j
      | "friendly" => doFriendly j
      | "memo" => doMemo j
      | "convert" => doConvert j
      | "refresh" => doRefresh j
      | "ctx" => doCtx j
      | o => throw s!"unknown op {o}"
    (orErr r id).compress

partial def loop (h : IO.FS.Stream) : IO Unit := do
  let line ← h.getLine
  if line.isEmpty then return ()
  IO.println (answer line)
  loop h

def main : IO Unit := do loop (← IO.getStdin)
