/-
`#audit_module M` prints, for every theorem declared in module `M`, the axioms its proof
depends on, one line per theorem:  `AUDIT <name> [<axioms>]`.  The harness parses these
lines; the number of lines is the number of proof obligations discharged for `M`.
-/
import Lean
open Lean Elab Command

elab "#audit_module " id:ident : command => do
  let env ← getEnv
  let modName := id.getId
  let some idx := env.getModuleIdx? modName
    | throwError "module {modName} not found"
  let names := env.header.moduleData[idx.toNat]!.constNames
  for n in names do
    if n.isInternal then continue
    match env.find? n with
    | some (.thmInfo _) =>
      let axs ← Lean.collectAxioms n
      logInfo m!"AUDIT {n} {axs.toList}"
    | _ => pure ()
