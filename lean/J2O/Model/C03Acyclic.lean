/-
C03 (round 2) — no recursion among the model-local functions (core Lean only).

`callDepthOK funcs k f`: every call in the body of `f` (any depth) that resolves to a model-local function `g`
satisfies `callDepthOK funcs (k-1) g`; `acyclic m` asks it of every function with `k` = number of functions.
(An ONNX function may not call itself, directly or through other functions: the model could not be inlined.)
-/
import J2O.Model.C03

namespace J2O.C03
open J2O.MT

def callDepthOK (funcs : List Func) : Nat → Func → Bool
  | 0, _ => false
  | fuel + 1, f =>
    allNodes (fun n => funcs.all (fun g => !defines g n.domain n.op || callDepthOK funcs fuel g)) f.asGraph

def acyclic (m : Model) : Bool := m.funcs.all (callDepthOK m.funcs m.funcs.length)

end J2O.C03
