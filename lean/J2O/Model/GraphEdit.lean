/-
C02 — the two graph EDITS every rewrite of `ir_optimizations.py` is made of, on an SSA graph model
(core Lean only): `onnx_ir.convenience.replace_all_uses_with(old, new, replace_graph_outputs=True)` and
`graph.remove(nodes)`.  A graph is a topologically ordered list of single-output nodes over value ids;
values captured by a nested body count as extra inputs of the node that owns the body (as in
`termify.py`).  Executable, so the harness can compare the model's edits with onnx_ir's on the same
graphs (`drivers/C02G.lean`, requests `"g":"edit"`).
-/
namespace J2O.GraphEdit

structure Node where
  /-- operator identity incl. attributes (an index into the interpretation) -/
  f : Nat
  ins : List Nat
  out : Nat
  deriving DecidableEq, Repr, Inhabited

structure Graph where
  nodes : List Node
  outs : List Nat
  deriving DecidableEq, Repr, Inhabited

def subst (old new : Nat) (v : Nat) : Nat := if v = old then new else v

def Node.replaceUses (old new : Nat) (n : Node) : Node := { n with ins := n.ins.map (subst old new) }

/-- `replace_all_uses_with(old, new, replace_graph_outputs=True)` -/
def Graph.replaceUses (old new : Nat) (g : Graph) : Graph :=
  { nodes := g.nodes.map (Node.replaceUses old new), outs := g.outs.map (subst old new) }

/-- `graph.remove(nodes)` by output id (nodes are identified by the value they define) -/
def Graph.remove (dead : List Nat) (g : Graph) : Graph :=
  { g with nodes := g.nodes.filter (fun n => !dead.contains n.out) }

/-- does anything still read `v`: a node input (captures included) or a graph output -/
def Graph.observed (g : Graph) (v : Nat) : Bool :=
  g.nodes.any (fun n => n.ins.contains v) || g.outs.contains v

/-! ### Semantics: operators are arbitrary partial functions of their operands -/

abbrev Env (V : Type) := Nat → Option V

def step {V : Type} (sem : Nat → List (Option V) → Option V) (env : Env V) (n : Node) : Env V :=
  fun v => if v = n.out then sem n.f (n.ins.map env) else env v

def run {V : Type} (sem : Nat → List (Option V) → Option V) (env : Env V) (ns : List Node) : Env V :=
  ns.foldl (step sem) env

def Graph.eval {V : Type} (sem : Nat → List (Option V) → Option V) (env0 : Env V) (g : Graph) :
    List (Option V) :=
  g.outs.map (run sem env0 g.nodes)

end J2O.GraphEdit
