/-
C14 — export is deterministic and independent of history: executable model (core Lean only).

The model has four parts, each mirroring one mechanism of /repo that could make the bytes of
an export depend on something other than the request:

1. **Set iteration** (`ir_optimizations.py`): a `for x in <set>` loop is a left fold `visit`
   over *some* list enumerating the set; Python fixes no order, so a property of the export
   must hold for every permutation of that list.  The concrete edits performed inside such
   loops are modelled on a small graph (`removeNode`, `substUses`, `collectStep`,
   `permLoop`, `assocInsert`, `refresh`).
2. **Memo caches** (`lowering_dispatch._LOWER_SIGNATURE_CACHE`): `memoCall`.
3. **Name counters and the function registry** (`IRBuilder.fresh_name`,
   `IRContext.fresh_name`, `FunctionPlugin._allocate_friendly_name`, `FunctionRegistry`):
   `freshBuilder`, `freshCtx`, `friendly`, and function keys that reach the registry only through
   an encoding `enc` (the real key contains `hash(arr.tobytes())` and `id(callee)`).
4. **A conversion** = a run of request operations from a *fresh* per-conversion context `Ctx`,
   threading the process-wide state `Global` (plugin registry, memo cache, instance map).

The driver `drivers/C14.lean` exposes `freshBuilder/freshCtx/friendly/memoCall/convert/refresh`
to the harness, which drives the real functions with the same histories.
-/
namespace J2O.C14

/-! ## 1. Iterating a set = folding over an enumeration of it -/

/-- `for a in l: s = step a s`. -/
def visit {α σ : Type} (step : α → σ → σ) (s : σ) (l : List α) : σ :=
  l.foldl (fun s a => step a s) s

/-- A graph node of the small vocabulary: identity, output value id, input value ids. -/
structure Node where
  id : Nat
  out : Nat
  ins : List Nat
  deriving DecidableEq, Repr

/-- A graph: nodes in their (topological) list order. -/
abbrev Graph := List Node

/-- `graph.remove(n)`: delete the node with this identity, keep the relative order of the rest. -/
def removeNode (n : Nat) (g : Graph) : Graph := g.filter (fun m => m.id != n)

/-- `graph.remove(list(S))` as one filter. -/
def removeAll (del : List Nat) (g : Graph) : Graph := g.filter (fun m => !del.contains m.id)

/-- All use slots of a graph (node inputs and graph outputs) flattened; `replace_all_uses_with`
    acts on every slot independently. -/
abbrev Uses := List Nat

def subst (old new : Nat) (v : Nat) : Nat := if v = old then new else v

/-- `ir.convenience.replace_all_uses_with(old, new, replace_graph_outputs=True)`. -/
def substUses (p : Nat × Nat) (u : Uses) : Uses := u.map (subst p.1 p.2)

/-- `for x in S: acc.add(y) for y in f x` — accumulate into a set (membership is what is
    observed of a set). -/
def collectStep {α β : Type} (f : α → List β) (a : α) (acc : List β) : List β := f a ++ acc

/-- The permutation check of the multi-transpose fold
    (`for t_node in transpose_nodes: perm = …; if perm is None: ok=False; break;
      if perm1 is None: perm1 = perm elif perm1 != perm: ok=False; break`).
    Result `none` = `ok` became False, `some acc` = loop finished with `perm1 = acc`. -/
def permLoop {β : Type} [DecidableEq β] : List (Option β) → Option β → Option (Option β)
  | [], acc => some acc
  | none :: _, _ => none
  | some p :: rest, none => permLoop rest (some p)
  | some p :: rest, some q => if p = q then permLoop rest (some q) else none

/-- Building a dict in a loop (`trans_in_map[t_out] = t_src`); only looked up afterwards. -/
def assocInsert {κ ν : Type} (kv : κ × ν) (m : List (κ × ν)) : List (κ × ν) := kv :: m

/-- Visiting the members of a set in *graph order* (`for node in nodes: if node in S`). -/
def inGraphOrder (g : Graph) (s : List Nat) : Graph := g.filter (fun n => s.contains n.id)

/-- `for n in S: n.replace_input_with(…)`: every member edits only its own slot of the state. -/
def ownSlot {β : Type} (kv : Nat × β) (s : Nat → β) : Nat → β := fun w => if w = kv.1 then kv.2 else s w

/-- `for x in S: out.append(f x)` — the loop of `_lower_and_call` that appends one function
    input per call parameter in `call_param_names` (a `set[str]`). -/
def appendStep {α β : Type} (f : α → β) (a : α) (acc : List β) : List β := acc ++ [f a]

/-- Visiting the members of a set in the order of a reference sequence
    (`for k in ordered: if k in S`). -/
def inRefOrder {α : Type} [BEq α] (ref : List α) (s : List α) : List α := ref.filter (fun a => s.contains a)

/-! ### The shape refresh inside the multi-transpose fold -/

abbrev Shape := List Nat

/-- Shape annotation of every value id (`none` = unknown). -/
abbrev Ann := Nat → Option Shape

def upd (ann : Ann) (v : Nat) (s : Option Shape) : Ann := fun w => if w = v then s else ann w

def padTo (r : Nat) (s : Shape) : Shape := List.replicate (r - s.length) 1 ++ s

/-- One step of the per-axis merge of `_broadcast_shape_dims` on concrete dims
    (`none` = the function returned `None`). -/
def mergeDim : Option Nat → Nat → Option Nat
  | none, _ => none
  | some r, d => if d = 1 then some r else if r = 1 then some d else if r = d then some r else none

def maxRank (shapes : List Shape) : Nat := shapes.foldl (fun m s => max m s.length) 0

/-- `_broadcast_shape_dims` restricted to concrete dimensions. -/
def broadcast (shapes : List Shape) : Option Shape :=
  if shapes.isEmpty then none
  else
    let r := maxRank shapes
    let padded := shapes.map (padTo r)
    (List.range r).mapM (fun ax => padded.foldl (fun acc s => mergeDim acc (s.getD ax 1)) (some 1))

/-- `_refresh_elementwise_output_shape(node)` for a node of the default domain whose inputs
    `n.ins` are its non-scalar-constant inputs: copy the shape of the first input, then, if the
    broadcast merge of all *currently annotated* input shapes succeeds, stamp the merge.
    (A failed merge leaves the copied shape.) -/
def refresh (n : Node) (ann : Ann) : Ann :=
  match n.ins with
  | [] => ann
  | src :: _ =>
    let ann1 := match ann src with
      | some s => upd ann n.out (some s)
      | none => ann
    match broadcast (n.ins.filterMap ann) with
    | none => ann1
    | some m => upd ann1 n.out (some m)

/-- The rewrite of the multi-transpose fold on annotations: the transposed inputs are replaced
    by their sources (so every external input now carries the un-transposed shape) and every
    elementwise node is refreshed, in the order `order`. -/
def refreshAll (order : List Node) (ann : Ann) : Ann := visit refresh ann order

/-- Annotation from an association list (driver / witnesses). -/
def annOf (l : List (Nat × Shape)) : Ann := fun v => l.lookup v

/-! ## 2. Memo cache -/

/-- `_lower_accepts_params`: return the cached answer if present, else compute and store. -/
def memoCall {κ ν : Type} [BEq κ] (f : κ → ν) (cache : List (κ × ν)) (k : κ) : ν × List (κ × ν) :=
  match cache.lookup k with
  | some v => (v, cache)
  | none => (f k, (k, f k) :: cache)

/-- A whole request history through the memoised function, starting from `cache`. -/
def memoRun {κ ν : Type} [BEq κ] (f : κ → ν) : List (κ × ν) → List κ → List ν × List (κ × ν)
  | cache, [] => ([], cache)
  | cache, k :: ks =>
    let (v, c1) := memoCall f cache k
    let (vs, c2) := memoRun f c1 ks
    (v :: vs, c2)

/-! ## 3. Name counters -/

abbrev Counters (κ : Type) := List (κ × Nat)

def ctrGet {κ : Type} [BEq κ] (c : Counters κ) (k : κ) : Nat := (c.lookup k).getD 0
def ctrBump {κ : Type} [BEq κ] (c : Counters κ) (k : κ) : Counters κ := (k, ctrGet c k + 1) :: c

/-- `IRBuilder.fresh_name`. -/
def freshBuilder (c : Counters String) (base : String) : String × Counters String :=
  (s!"{base}_{ctrGet c base}", ctrBump c base)

/-- `IRContext.fresh_name`. -/
def freshCtx (c : Counters String) (base : String) : String × Counters String :=
  let sep := if base.endsWith "_" || base.endsWith "/" then "" else "_"
  (s!"{base}{sep}{ctrGet c base}", ctrBump c base)

/-- `FunctionPlugin._allocate_friendly_name`: (op_type, domain). -/
def friendly (c : Counters (String × String × Bool)) (ns base : String) (unique : Bool) :
    (String × String) × Counters (String × String × Bool) :=
  let key := (ns, base, unique)
  let idx := ctrGet c key + 1
  let c' := (key, idx) :: c
  let domain :=
    if unique then (if idx = 1 then s!"{ns}.{base}.unique" else s!"{ns}.{base}.unique.{idx}")
    else s!"{ns}.{base}.{idx}"
  ((base, domain), c')

/-! ## 4. Conversions -/

/-- Operations a request performs, in order (what tracing + lowering of one `to_onnx` call do
    to the naming/registry state).  `κ` is the type under which function keys reach the
    registry (the real `FunctionKey` contains `hash(bytes)` and `id(callee)`). -/
inductive Op (κ : Type) where
  | fresh (base : String)                                  -- `ctx.fresh_name(base)`
  | bfresh (base : String)                                 -- `builder.fresh_name(base)`
  | call (key : κ) (ns base : String) (unique : Bool)      -- an `@onnx_function` call site
  | lower (prim : Nat)                                     -- dispatch of a primitive to its plugin
  | bind (k v : Nat)                                       -- `INSTANCE_MAP2[id(inst)] = inst`
  | resolve (k : Nat)                                      -- `INSTANCE_MAP2.get(key)`
  | fail                                                   -- the conversion raises here
  deriving Repr

def Op.mapKey {κ κ' : Type} (f : κ → κ') : Op κ → Op κ'
  | .fresh b => .fresh b
  | .bfresh b => .bfresh b
  | .call k ns b u => .call (f k) ns b u
  | .lower p => .lower p
  | .bind k v => .bind k v
  | .resolve k => .resolve k
  | .fail => .fail

abbrev Request (κ : Type) := List (Op κ)

/-- Process-wide state that survives conversions. `plugins`: primitive ↦ lowering function
    object (`PLUGIN_REGISTRY`, dict in import order); `memo`: `_LOWER_SIGNATURE_CACHE`;
    `instances`: `INSTANCE_MAP2`. -/
structure Global where
  plugins : List (Nat × Nat)
  memo : List (Nat × Bool)
  instances : List (Nat × Nat)
  deriving Repr

/-- Per-conversion state, created by `_create_ir_context`. -/
structure Ctx (κ : Type) where
  names : Counters String
  bnames : Counters String
  fnames : Counters (String × String × Bool)
  freg : List (κ × (String × String))

def Ctx.fresh {κ : Type} : Ctx κ := ⟨[], [], [], []⟩

/-- One operation. Returns what it emits into the model (or the error) and the new states;
    the global state is returned also on failure. `sig` is the pure function memoised by
    `_LOWER_SIGNATURE_CACHE` (`"params" in inspect.signature(lower).parameters`). -/
def step {κ : Type} [BEq κ] (sig : Nat → Bool) (g : Global) (c : Ctx κ) :
    Op κ → Except String (List String × Ctx κ) × Global
  | .fresh b =>
    let (n, names) := freshCtx c.names b
    (.ok ([n], { c with names := names }), g)
  | .bfresh b =>
    let (n, bnames) := freshBuilder c.bnames b
    (.ok ([n], { c with bnames := bnames }), g)
  | .call k ns b u =>
    match c.freg.lookup k with
    | some d =>
      let (n, bnames) := freshBuilder c.bnames d.1
      (.ok ([s!"call {d.1} {d.2} {n}"], { c with bnames := bnames }), g)
    | none =>
      let (d, fnames) := friendly c.fnames ns b u
      let (n, bnames) := freshBuilder c.bnames d.1
      (.ok ([s!"def {d.1} {d.2}", s!"call {d.1} {d.2} {n}"],
            { c with fnames := fnames, bnames := bnames, freg := (k, d) :: c.freg }), g)
  | .lower p =>
    match g.plugins.lookup p with
    | none => (.error s!"no plugin for {p}", g)
    | some fn =>
      let (acc, memo) := memoCall sig g.memo fn
      (.ok ([s!"lower {p} {acc}"], c), { g with memo := memo })
  | .bind k v => (.ok ([], c), { g with instances := (k, v) :: g.instances })
  | .resolve k =>
    match g.instances.lookup k with
    | none => (.error "cannot resolve callee", g)
    | some v => (.ok ([s!"callee {v}"], c), g)
  | .fail => (.error "raised", g)

def runOps {κ : Type} [BEq κ] (sig : Nat → Bool) :
    Global → Ctx κ → List (Op κ) → Except String (List String) × Global
  | g, _, [] => (.ok [], g)
  | g, c, op :: ops =>
    match step sig g c op with
    | (.error e, g1) => (.error e, g1)
    | (.ok (out, c1), g1) =>
      match runOps sig g1 c1 ops with
      | (.error e, g2) => (.error e, g2)
      | (.ok outs, g2) => (.ok (out ++ outs), g2)

/-- One `to_onnx` call: a fresh context, the process-wide state threaded through. -/
def convert {κ : Type} [BEq κ] (sig : Nat → Bool) (g : Global) (r : Request κ) :
    Except String (List String) × Global :=
  runOps sig g Ctx.fresh r

/-- The process-wide state after a history of earlier conversions (successful or failed). -/
def after {κ : Type} [BEq κ] (sig : Nat → Bool) (g : Global) (hist : List (Request κ)) : Global :=
  hist.foldl (fun g r => (convert sig g r).2) g

/-- Requests never read an instance-map entry they did not write themselves
    (`wrapped` stores `INSTANCE_MAP2[id(instance)]` while tracing, `_lower_and_call` reads it
    while lowering the same conversion). `w` = keys written so far. -/
def wellScoped {κ : Type} : List Nat → List (Op κ) → Bool
  | _, [] => true
  | w, .bind k _ :: ops => wellScoped (k :: w) ops
  | w, .resolve k :: ops => w.contains k && wellScoped w ops
  | w, _ :: ops => wellScoped w ops

/-! ## 5. The function-build flag (`_IN_FUNCTION_BUILD`) -/

/-- `active = flag; flag = active ∪ {name}; try: body finally: flag = active` — the body is any
    computation on the flag (nested builds included) that may fail at any point. -/
def bracketed {ε α : Type} (name : String) (body : List String → Except ε α × List String)
    (flag : List String) : Except ε α × List String :=
  ((body (name :: flag)).1, flag)

/-- The same with the restore after a bare `yield` (no try/finally): skipped when the body raises. -/
def unbracketed {ε α : Type} (name : String) (body : List String → Except ε α × List String)
    (flag : List String) : Except ε α × List String :=
  match body (name :: flag) with
  | (.ok a, _) => (.ok a, flag)
  | (.error e, f') => (.error e, f')

/-- A conversion whose program calls the decorated function `name` once; `failsInBody`: the
    re-trace of the body at lowering time raises. -/
structure BuildReq where
  name : String
  failsInBody : Bool
  deriving DecidableEq, Repr

inductive BuildOut where
  | function   -- an ONNX function was emitted for the call
  | inlined    -- the patched wrapper called through: no function in the model
  | failed
  deriving DecidableEq, Repr

/-- The wrapper (`if self.name in _IN_FUNCTION_BUILD.get(): return original_call(…)`) followed by
    the body build; `bracket` selects try/finally (the code) or the bare restore. -/
def buildConv (bracket : Bool) (r : BuildReq) (flag : List String) : BuildOut × List String :=
  if flag.contains r.name then (.inlined, flag)
  else
    let body : List String → Except String Unit × List String :=
      fun f => (if r.failsInBody then .error "raised" else .ok (), f)
    let res := if bracket then bracketed r.name body flag else unbracketed r.name body flag
    (match res.1 with | .ok _ => .function | .error _ => .failed, res.2)

/-- The flag after a history of conversions. -/
def flagAfter (bracket : Bool) (hist : List BuildReq) (flag : List String) : List String :=
  hist.foldl (fun f r => (buildConv bracket r f).2) flag

end J2O.C14
