/-
C13 (REGRESSION ONLY) — the patch machine as it was BEFORE fix 21b5229: `apply_patches` and
`apply_monkey_patches` restore the value `getattr` RESOLVED (not what the target itself held) and the
entry loop of `apply_monkey_patches` runs before its `try`.  Used only by the regression examples
in Props/C13.lean (`old_capture_leaks`, `old_entry_fault_leaks`).  The current model is Model/C13.lean.

Original header:
C13 — conversion leaves the host process as it found it: executable model of the patch
machine (core Lean only).

World.  `own t a` is the own-attribute table (`vars(t)[a]`) of target `t` (a module or a
class); the hierarchy `H` gives for every target its MRO (the target itself first) and says
whether it is a class (descriptors are only invoked on classes).  `lookup` is Python's
`getattr(t, a, _MISSING)`: first own entry along the MRO, then the descriptor protocol
(`staticmethod(f)` → `f`, `classmethod(f)` → `f` bound to `t`).

`apply_patches` (jax2onnx/plugins/_patching.py):

    applied = []
    try:
        for s in specs:
            tgt  = _resolve(s.target)                       -- fault `resolve`
            orig = getattr(tgt, s.attr, _MISSING)
            new  = s.value | s.make_value(orig or None)     -- fault `make`
            setattr(tgt, s.attr, new)                       -- fault `set`
            applied.append((tgt, s.attr, orig))
        yield                                               -- body (may raise)
    finally:
        for tgt, attr, orig in reversed(applied):
            if orig is _MISSING: try delattr(tgt, attr) except: pass
            else: setattr(tgt, attr, orig)

`apply_monkey_patches` (jax2onnx/plugins/plugin_system.py) with the refcounted `_PATCH_STATE`:

    touched = []
    for (patch_fn, tgt, attr) in registry:                  -- ENTRY LOOP, *before* the try
        st = _PATCH_STATE.get((tgt, attr))
        if st is None:
            orig = getattr(tgt, attr)                       -- AttributeError if missing
            new  = patch_fn(orig)                           -- fault `make`
            setattr(tgt, attr, new)                         -- fault `set`
            _PATCH_STATE[key] = {orig, count: 1}
        else: st.count += 1
        touched.append(key)
    try: yield
    finally:
        for key in reversed(touched):
            st = _PATCH_STATE.get(key)
            if not st: continue
            st.count -= 1
            if st.count == 0: setattr(tgt, attr, st.orig); _PATCH_STATE.pop(key)

Programs (`Prog`) nest these contexts arbitrarily (`_activate_plugin_worlds` = monkey, then one
`patches` per leaf plugin; function bodies re-activate the same stack during lowering), with
`raise` as an exception in user code / tracing / lowering and `catch` for the
`try … except Exception` around nested plugin bindings.

The run carries two *monitors* that do not influence it:
  `good`    — every patch was applied to a key that, at that moment, had an own plain
              (non-descriptor) value, or (apply_patches only) was missing on the whole MRO;
              every `_PATCH_STATE` entry met has count ≥ 1
  `entryOk` — no exception was raised inside the entry loop of `apply_monkey_patches`
They are the hypotheses of the restoration theorem (Props/C13.lean).
Unwinding steps themselves are assumed not to raise (`setattr` of a value that was there before).
-/
namespace J2O.C13Old

abbrev Tgt := Nat
abbrev Attr := Nat

inductive Val where
  | tok (n : Nat)                       -- an ordinary object
  | wrap (k : Nat) (orig : Val)         -- result of make_value / patch_fn number k on `orig`
  | wrapNone (k : Nat)                  -- make_value number k on a missing original (`None`)
  | static (n : Nat)                    -- staticmethod(tok n)
  | classm (n : Nat)                    -- classmethod(fn n)
  | bound (n : Nat) (t : Tgt)           -- bound method of fn n on class t
  deriving DecidableEq, Repr

def mkWrap (k : Nat) : Option Val → Val
  | some v => .wrap k v
  | none => .wrapNone k

/-- static structure of the targets -/
structure Hier where
  mro : Tgt → List Tgt
  isClass : Tgt → Bool

/-- every MRO starts with the target itself -/
def Hier.SelfFirst (H : Hier) : Prop := ∀ t, ∃ rest, H.mro t = t :: rest

abbrev Own := Tgt → Attr → Option Val
abbrev PS := Tgt → Attr → Option (Val × Nat)

def setOwn (o : Own) (t : Tgt) (a : Attr) (v : Option Val) : Own :=
  fun t' a' => if t' = t ∧ a' = a then v else o t' a'

def setPS (p : PS) (t : Tgt) (a : Attr) (v : Option (Val × Nat)) : PS :=
  fun t' a' => if t' = t ∧ a' = a then v else p t' a'

/-- first own entry along a list of targets -/
def firstOwn (o : Own) (a : Attr) : List Tgt → Option Val
  | [] => none
  | t :: ts => match o t a with
    | some v => some v
    | none => firstOwn o a ts

/-- the descriptor protocol when the attribute is fetched from class `t` -/
def descGet (H : Hier) (t : Tgt) (v : Val) : Val :=
  if H.isClass t then
    match v with
    | .static n => .tok n
    | .classm n => .bound n t
    | v => v
  else v

/-- `getattr(t, a, _MISSING)` -/
def lookup (H : Hier) (o : Own) (t : Tgt) (a : Attr) : Option Val :=
  (firstOwn o a (H.mro t)).map (descGet H t)

inductive Fault where
  | none | resolve | make | set
  deriving DecidableEq, Repr

inductive SpecKind where
  | assign (v : Val)        -- AssignSpec(value = v)
  | monkey (k : Nat)        -- MonkeyPatchSpec(make_value = fun orig => wrap k orig)
  deriving DecidableEq, Repr

structure Spec where
  tgt : Tgt
  attr : Attr
  kind : SpecKind
  fault : Fault
  deriving DecidableEq, Repr

/-- a function-plugin patch site of the registry: `patch_fn = fun orig => wrap k orig` -/
structure Site where
  tgt : Tgt
  attr : Attr
  k : Nat
  deriving DecidableEq, Repr

structure St where
  own : Own
  ps : PS

/-- the key has an own plain value, or is missing on the whole MRO -/
def goodKey (H : Hier) (o : Own) (t : Tgt) (a : Attr) (allowMissing : Bool) : Bool :=
  match o t a with
  | some v => decide (descGet H t v = v)
  | none => allowMissing && (firstOwn o a (H.mro t)).isNone

def SpecKind.plain (H : Hier) (t : Tgt) : SpecKind → Bool
  | .assign v => decide (descGet H t v = v)
  | .monkey _ => true

/-! ### apply_patches -/

structure EnterRes where
  own : Own
  applied : List (Tgt × Attr × Option Val)   -- stack: head = last applied
  raised : Bool
  good : Bool

/-- is an exception injected while this spec is applied (before anything is mutated)?
    `make` only exists for MonkeyPatchSpec. -/
def Spec.faults (s : Spec) : Bool :=
  match s.fault, s.kind with
  | .none, _ => false
  | .make, .assign _ => false
  | _, _ => true

def Spec.newVal (s : Spec) (orig : Option Val) : Val :=
  match s.kind with
  | .assign v => v
  | .monkey k => mkWrap k orig

/-- the entry loop; `acc` = what was applied so far (head = most recent) -/
def enter (H : Hier) (o : Own) : List Spec → List (Tgt × Attr × Option Val) → Bool → EnterRes
  | [], acc, g => ⟨o, acc, false, g⟩
  | s :: rest, acc, g =>
    if s.faults then ⟨o, acc, true, g⟩
    else
      enter H (setOwn o s.tgt s.attr (some (s.newVal (lookup H o s.tgt s.attr)))) rest
        ((s.tgt, s.attr, lookup H o s.tgt s.attr) :: acc)
        (g && goodKey H o s.tgt s.attr true && s.kind.plain H s.tgt)

/-- the `finally` block: restore in reverse order of application -/
def unwind (o : Own) : List (Tgt × Attr × Option Val) → Own
  | [] => o
  | (t, a, orig) :: rest => unwind (setOwn o t a orig) rest

/-! ### apply_monkey_patches -/

structure MEnterRes where
  st : St
  touched : List (Tgt × Attr)               -- stack: head = last touched
  raised : Bool
  good : Bool

/-- the entry loop (runs before the `try`); `faults` are aligned with the registry -/
def menter (H : Hier) (st : St) : List Site → List Fault → List (Tgt × Attr) → Bool → MEnterRes
  | [], _, acc, g => ⟨st, acc, false, g⟩
  | s :: rest, fs, acc, g =>
    let f := fs.headD .none
    match st.ps s.tgt s.attr with
    | some (orig, c) =>
      menter H ⟨st.own, setPS st.ps s.tgt s.attr (some (orig, c + 1))⟩ rest fs.tail
        ((s.tgt, s.attr) :: acc) (g && decide (1 ≤ c))
    | none =>
      match lookup H st.own s.tgt s.attr with
      | none => ⟨st, acc, true, g⟩                          -- getattr raises AttributeError
      | some orig =>
        if f = .none then
          menter H ⟨setOwn st.own s.tgt s.attr (some (.wrap s.k orig)),
                    setPS st.ps s.tgt s.attr (some (orig, 1))⟩ rest fs.tail
            ((s.tgt, s.attr) :: acc) (g && goodKey H st.own s.tgt s.attr false)
        else ⟨st, acc, true, g⟩                             -- patch_fn / setattr raises

/-- the `finally` block -/
def mexit (st : St) : List (Tgt × Attr) → St
  | [] => st
  | (t, a) :: rest =>
    match st.ps t a with
    | none => mexit st rest
    | some (orig, c) =>
      if c - 1 = 0 then mexit ⟨setOwn st.own t a (some orig), setPS st.ps t a none⟩ rest
      else mexit ⟨st.own, setPS st.ps t a (some (orig, c - 1))⟩ rest

/-! ### programs -/

inductive Prog where
  | skip
  | raise
  | seq (a b : Prog)
  | patches (specs : List Spec) (body : Prog)
  | monkey (faults : List Fault) (body : Prog)
  | catch (body : Prog)
  deriving Repr

structure Res where
  st : St
  raised : Bool
  good : Bool       -- monitor: all patched keys were good (see header)
  entryOk : Bool    -- monitor: no exception inside an entry loop of apply_monkey_patches

def run (H : Hier) (reg : List Site) : Prog → St → Res
  | .skip, st => ⟨st, false, true, true⟩
  | .raise, st => ⟨st, true, true, true⟩
  | .seq a b, st =>
    let r := run H reg a st
    if r.raised then r
    else
      let r2 := run H reg b r.st
      ⟨r2.st, r2.raised, r.good && r2.good, r.entryOk && r2.entryOk⟩
  | .patches specs body, st =>
    let e := enter H st.own specs [] true
    if e.raised then ⟨⟨unwind e.own e.applied, st.ps⟩, true, e.good, true⟩
    else
      let r := run H reg body ⟨e.own, st.ps⟩
      ⟨⟨unwind r.st.own e.applied, r.st.ps⟩, r.raised, e.good && r.good, r.entryOk⟩
  | .monkey faults body, st =>
    let e := menter H st reg faults [] true
    if e.raised then ⟨e.st, true, e.good, false⟩           -- NO unwinding: the loop is outside the try
    else
      let r := run H reg body e.st
      ⟨mexit r.st e.touched, r.raised, e.good && r.good, r.entryOk⟩
  | .catch body, st =>
    let r := run H reg body st
    ⟨r.st, false, r.good, r.entryOk⟩

end J2O.C13Old
