/-
C06 — control flow: executable model (core Lean only).

* JAX side: `iter`, `WhileRes` (the while loop ends after exactly `k` iterations in state `y`),
  `whileFuel` (executable), `foriJ`, `scanJ`, `switchJ`.
* ONNX side: `loopO M cond0 body s0` — the `Loop` operator (run `body iter cond state` while
  `iter < M` and `cond`; the body returns the next condition, the next carried state and one
  scan output, which `Loop` stacks), `ifO`.
* The converter's lowering schemes as functions (`whileScheme`, `whileBatchedScheme`, `foriScheme`,
  `scanScheme`, `condScheme`) and as *wiring* records (`LoopWiring`, `IfWiring`, `prescribe*`) that
  the harness compares with the wiring extracted from real exports.
* `Variant`, `accepts`: which control-flow variants the plugins lower and which they reject.

State, carry, sequence element and output types are arbitrary types: captured constants and
tracers are parameters of the body/cond functions, nested control flow is a body that is itself
one of these functions.
-/
namespace J2O.C06

universe u v w

/-! ### JAX semantics -/

/-- `b` applied `n` times. -/
def iter {σ : Type u} (b : σ → σ) : Nat → σ → σ
  | 0, s => s
  | n + 1, s => iter b n (b s)

/-- `lax.while_loop(c, b, s)` ends after exactly `k` iterations with value `y`
    (least fixpoint: the condition holds for the first `k` states and fails at the `k`-th). -/
def WhileRes {σ : Type u} (c : σ → Bool) (b : σ → σ) (s : σ) (k : Nat) (y : σ) : Prop :=
  (∀ i, i < k → c (iter b i s) = true) ∧ c (iter b k s) = false ∧ y = iter b k s

/-- executable while with fuel (driver / examples) -/
def whileFuel {σ : Type u} (c : σ → Bool) (b : σ → σ) : Nat → σ → Option σ
  | 0, s => if c s then none else some s
  | n + 1, s => if c s then whileFuel c b n (b s) else some s

/-- `lax.fori_loop(lo, lo + n, b, s)`: `b lo`, `b (lo+1)`, … (`n` = `max 0 (hi - lo)`). -/
def foriJ {σ : Type u} (b : Int → σ → σ) : Int → Nat → σ → σ
  | _, 0, s => s
  | lo, n + 1, s => foriJ b (lo + 1) n (b lo s)

/-- `lax.scan(f, c, xs)`: final carry and the list of per-step outputs. -/
def scanJ {κ : Type u} {χ : Type v} {υ : Type w} (f : κ → χ → κ × υ) : κ → List χ → κ × List υ
  | c, [] => (c, [])
  | c, x :: xs =>
    let o := f c x
    let r := scanJ f o.1 xs
    (r.1, o.2 :: r.2)

/-- `lax.switch(idx, branches, x)`: the index is clamped into range. -/
def clampIdx (n : Nat) (idx : Int) : Nat :=
  if idx < 0 then 0 else if idx.toNat ≥ n then n - 1 else idx.toNat

/-! ### ONNX semantics -/

/-- `Loop`: `rem` iterations left, current iteration number `i`, current condition, state and the
    scan outputs stacked so far. -/
def loopGo {σ : Type u} {υ : Type v} (body : Nat → Bool → σ → Bool × σ × υ) :
    Nat → Nat → Bool → σ → List υ → σ × List υ
  | 0, _, _, s, acc => (s, acc)
  | r + 1, i, cond, s, acc =>
    if cond then
      let o := body i cond s
      loopGo body r (i + 1) o.1 o.2.1 (acc ++ [o.2.2])
    else (s, acc)

/-- ONNX `Loop(M, cond0, state)` with the given body: final carried state and stacked scan output. -/
def loopO {σ : Type u} {υ : Type v} (M : Nat) (cond0 : Bool) (body : Nat → Bool → σ → Bool × σ × υ)
    (s0 : σ) : σ × List υ :=
  loopGo body M 0 cond0 s0 []

/-- ONNX `If`. -/
def ifO {α : Type u} {β : Type v} (p : Bool) (thenB elseB : α → β) (x : α) : β :=
  if p then thenB x else elseB x

/-- the trip count the while plugin passes: `np.iinfo(np.int64).max` -/
def maxTrip : Nat := 9223372036854775807

/-! ### The lowering schemes -/

/-- while ↦ `Loop(M, cond0 = c s0, body = λ s. (c (b s), b s))` — the condition is evaluated on the
    NEW state, after the body. -/
def whileScheme {σ : Type u} (M : Nat) (c : σ → Bool) (b : σ → σ) (s0 : σ) : σ :=
  (loopO M (c s0) (fun _ _ s => (c (b s), b s, ())) s0).1

/-- vmapped while (batched predicate): every lane keeps its own predicate; the loop runs while ANY
    lane is active; a lane whose predicate (computed on the state at the start of the iteration) is
    false keeps its state. Carried: (predicates, lane states). -/
def whileBatchedScheme {τ : Type u} (M : Nat) (c : τ → Bool) (b : τ → τ) (s0 : List τ) : List τ :=
  (loopO M ((s0.map c).any id)
    (fun _ _ (st : List Bool × List τ) =>
      let new := (st.1.zip st.2).map fun ps => if ps.1 then b ps.2 else ps.2
      let pred := new.map c
      (pred.any id, (pred, new), ()))
    (s0.map c, s0)).1.2

/-- fori ↦ `Loop(M = n, cond = true, body = λ iter s. (cond_in, b (lo + iter) s))`. -/
def foriScheme {σ : Type u} (b : Int → σ → σ) (lo : Int) (n : Nat) (s0 : σ) : σ :=
  (loopO n true (fun i cin s => (cin, b (lo + i) s, ())) s0).1

/-- scan ↦ `Loop(M = length, cond = true)`; the scanned inputs are carried unchanged and read with
    `Gather(xs, iter, axis = 0)`; the per-step outputs are the Loop's scan outputs. -/
def scanScheme {κ : Type u} {χ : Type v} {υ : Type w} [Inhabited χ] (f : κ → χ → κ × υ) (c0 : κ)
    (xs : List χ) : κ × List υ :=
  let r := loopO xs.length true
    (fun i cin (st : κ × List χ) =>
      let o := f st.1 (st.2.getD i default)
      (cin, (o.1, st.2), o.2))
    (c0, xs)
  (r.1.1, r.2)

/-- cond ↦ `If(Cast(index → bool), then = branches[1], else = branches[0])`. -/
def condScheme {α : Type u} {β : Type v} (idx : Nat) (br0 br1 : α → β) (x : α) : β :=
  ifO (idx != 0) br1 br0 x

/-! ### Wiring records (what the harness extracts from a real export) -/

inductive Trip where
  | maxInt64                 -- initializer `np.iinfo(np.int64).max`
  | static (n : Nat)         -- int64 constant
  | dimOfCarried (k : Nat)   -- `Shape(carried k)[0]` (symbolic scan length)
  deriving DecidableEq, Repr

inductive CondInit where
  | constTrue | computed
  deriving DecidableEq, Repr

inductive CondOut where
  | passCondIn               -- `Identity(cond_in)`
  | ofNewState               -- computed from carried OUTPUTS (after the body; for the vmapped while:
                             -- the per-lane predicate reads the MASKED next state, not the raw body results)
  | ofOldState               -- computed from carried inputs only (would be wrong)
  | other
  deriving DecidableEq, Repr

inductive Slot where
  | predicate | bodyConst | condConst | state | const | carry | xs
  deriving DecidableEq, Repr

inductive OutSrc where
  | passthrough              -- `Identity` of the same carried input
  | computed
  deriving DecidableEq, Repr

structure LoopWiring where
  trip : Trip
  cond0 : CondInit
  condOut : CondOut
  slots : List Slot          -- carried slots in Loop-input order
  outs : List OutSrc         -- per carried slot: how the body produces its output
  nScanOut : Nat             -- number of stacked outputs
  gathered : List Nat        -- carried slots read with Gather(·, iter, axis=0)
  iterOffset : Int           -- constant added to the iteration number
  results : List Nat         -- Loop outputs bound to the equation's results, in order
  deriving DecidableEq, Repr

def rep {α : Type} (n : Nat) (a : α) : List α := List.replicate n a

/-- `WhileLoopPlugin.lower` -/
def prescribeWhile (nCondConst nBodyConst nState : Nat) (batched : Bool) : LoopWiring :=
  let pre := if batched then 1 else 0
  { trip := .maxInt64, cond0 := .computed, condOut := .ofNewState,
    slots := (if batched then [Slot.predicate] else []) ++ rep nBodyConst .bodyConst
              ++ rep nCondConst .condConst ++ rep nState .state,
    outs := (if batched then [OutSrc.computed] else []) ++ rep nBodyConst .passthrough
              ++ rep nCondConst .passthrough ++ rep nState .computed,
    nScanOut := 0, gathered := [], iterOffset := 0,
    results := (List.range nState).map (· + pre + nBodyConst + nCondConst) }

/-- `ForiLoopPlugin.lower` -/
def prescribeFori (lo : Int) (trip nState : Nat) : LoopWiring :=
  { trip := .static trip, cond0 := .constTrue, condOut := .passCondIn,
    slots := rep nState .state, outs := rep nState .computed, nScanOut := 0, gathered := [],
    iterOffset := lo, results := List.range nState }

/-- `ScanPlugin._lower_with_scan_inputs` / `_lower_without_scan_inputs`;
    `length = none`: symbolic, read from the first scanned input. -/
def prescribeScan (nConst nCarry nXs nYs : Nat) (length : Option Nat) : LoopWiring :=
  { trip := match length with
            | some n => .static n
            | none => .dimOfCarried (nConst + nCarry),
    cond0 := .constTrue, condOut := .passCondIn,
    slots := rep nConst .const ++ rep nCarry .carry ++ rep nXs .xs,
    outs := rep nConst .passthrough ++ rep nCarry .computed ++ rep nXs .passthrough,
    nScanOut := nYs,
    gathered := (List.range nXs).map (· + nConst + nCarry),
    iterOffset := 0,
    results := (List.range nCarry).map (· + nConst)
                ++ (List.range nYs).map (· + nConst + nCarry + nXs) }

structure IfWiring where
  castToBool : Bool          -- the int32 index is cast to bool
  thenBranch : Nat           -- index into `branches`
  elseBranch : Nat
  deriving DecidableEq, Repr

/-- `CondPlugin.lower`: `false_closed, true_closed = params["branches"]`. -/
def prescribeCond : IfWiring := { castToBool := true, thenBranch := 1, elseBranch := 0 }

/-! ### Accepted and rejected variants -/

inductive Construct where
  | whileLoop | foriLoop | scan | cond
  deriving DecidableEq, Repr

structure Variant where
  construct : Construct
  reverse : Bool := false          -- scan(reverse=True)
  nXs : Nat := 1                   -- scanned inputs
  staticLength : Bool := true      -- scan: `length` is a Python int
  nState : Nat := 1                -- while: loop state leaves
  dynamicBounds : Bool := false    -- fori: lower/upper are traced values
  capturesTracer : Bool := false   -- fori: the body closes over a traced value
  nBranches : Nat := 2             -- cond/switch
  deriving DecidableEq, Repr

/-- variants whose lowering scheme is proved in `J2O.Props.C06` -/
def supported (v : Variant) : Bool :=
  match v.construct with
  | .whileLoop => decide (0 < v.nState)
  | .foriLoop => !v.dynamicBounds && !v.capturesTracer
  | .scan => !v.reverse && (decide (0 < v.nXs) || v.staticLength)
  | .cond => decide (v.nBranches = 2)

/-- mirror of the guards in the plugins: `NotImplementedError("Reverse scan…")`,
    `"Scan without xs requires a static length"`, `"while_loop lowering requires at least one state
    variable"`, the concretisation of `upper - lower` in `_fori_loop_binding`, `np.asarray(const)` on the
    closed-over values of a fori body (`_build_body_graph`), the two-element unpacking of
    `params["branches"]`. -/
def accepts (v : Variant) : Bool :=
  match v.construct with
  | .whileLoop => if v.nState = 0 then false else true
  | .foriLoop => if v.dynamicBounds then false else if v.capturesTracer then false else true
  | .scan => if v.reverse then false else if v.nXs = 0 && !v.staticLength then false else true
  | .cond => if v.nBranches = 2 then true else false

end J2O.C06
