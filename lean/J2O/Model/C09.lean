/-
C09 — precision flag honoured end to end: executable reference model (core Lean only).

Four parts, each tied to /repo by the harness (`harness/props/c09.py`):

1. `refPolicy` / `Policy` — the numpy-dtype → ONNX element type map with the float policy
   (`ir_utils.numpy_dtype_to_ir_with_float_policy`).  The live function is tabulated on every
   run into `J2O.Gen.C09.policyTable`; `J2O.GenProps.C09` shows that the table *is* a `Policy`
   satisfying `Policy.ok`, the only facts the theorems below use.
2. The constant-binding decision paths (`bindConst`, `bindLiteral`, `initScalar`,
   `closedConst`, `allocValue`, `inputValue`, `postPromote`): which dtype a constant passes
   through and which element type its value is declared with, as a function of the flag, the
   function/loop-body mode and the `_keep_function_float32` switch.
3. `Tree` / `noCodes` / `firstBad` — the recursive model scanner (`noDouble`).
4. The x64 flag machine (`Prog`, `run`): `_temporary_x64` and `_force_jax_x64` over JAX's
   configuration state = process-wide value + optional thread-local override.
-/
namespace J2O.C09

/-! ## 1. Element type codes and the dtype policy -/

/-- ONNX `TensorProto.DataType` codes used below. -/
def FLOAT : Nat := 1
def FLOAT16 : Nat := 10
def DOUBLE : Nat := 11
def COMPLEX128 : Nat := 15
def BFLOAT16 : Nat := 16

/-- "Double precision" element types: DOUBLE and COMPLEX128 (two float64 components). -/
def isDouble (c : Nat) : Bool := c == 11 || c == 15

/-- Element types narrower than double that hold floating values: FLOAT, FLOAT16, BFLOAT16,
    COMPLEX64 (used by the flag-on structural search, not by the property). -/
def isNarrowFloat (c : Nat) : Bool := c == 1 || c == 10 || c == 16 || c == 14

/-- The three IEEE float dtypes JAX hands to the converter. -/
inductive FK where
  | f16 | f32 | f64
  deriving Repr, DecidableEq

/-- Precision order `f16 < f32 < f64` (every value of the smaller format is a value of the
    larger one; that inclusion itself is C17's `fitsFF_sound`). -/
def FK.rank : FK → Nat
  | .f16 => 0 | .f32 => 1 | .f64 => 2

def FK.le (a b : FK) : Bool := a.rank ≤ b.rank

/-- The element type code onnx_ir gives a tensor of that numpy dtype. -/
def FK.code : FK → Nat
  | .f16 => 10 | .f32 => 1 | .f64 => 11

/-- What can be passed as `dtype` to the policy function. -/
inductive DKind where
  | unspecified            -- `None`
  | flt (k : FK)           -- float16 / float32 / float64
  | wide                   -- any other `np.floating` (longdouble)
  | fixed (code : Nat)     -- a non-floating dtype with a fixed ONNX code
  | invalid                -- not a dtype / no ONNX counterpart → `TypeError`
  deriving Repr, DecidableEq

/-- Hand-written reference of `numpy_dtype_to_ir_with_float_policy` (`none` = `TypeError`). -/
def refPolicy : DKind → Bool → Option Nat
  | .unspecified, flag => some (if flag then 11 else 1)
  | .flt .f16, _ => some 10
  | .flt .f32, flag => some (if flag then 11 else 1)
  | .flt .f64, _ => some 11
  | .wide, flag => some (if flag then 11 else 1)
  | .fixed c, _ => some c
  | .invalid, _ => none

/-- numpy dtype name (`np.dtype(x).name`, `"None"` for `None`) → kind.  The non-floating codes
    are hand-written from the ONNX specification. -/
def classify : String → DKind
  | "None" => .unspecified
  | "float16" => .flt .f16
  | "float32" => .flt .f32
  | "float64" => .flt .f64
  | "float128" => .wide
  | "float96" => .wide
  | "bool" => .fixed 9
  | "int8" => .fixed 3
  | "int16" => .fixed 5
  | "int32" => .fixed 6
  | "int64" => .fixed 7
  | "uint8" => .fixed 2
  | "uint16" => .fixed 4
  | "uint32" => .fixed 12
  | "uint64" => .fixed 13
  | "complex64" => .fixed 14
  | "complex128" => .fixed 15
  | "str" => .fixed 8
  | "object" => .fixed 8
  | "bfloat16" => .fixed 16
  | "float8_e4m3fn" => .fixed 17
  | "float8_e4m3fnuz" => .fixed 18
  | "float8_e5m2" => .fixed 19
  | "float8_e5m2fnuz" => .fixed 20
  | "uint4" => .fixed 21
  | "int4" => .fixed 22
  | "float4_e2m1fn" => .fixed 23
  | "float8_e8m0fnu" => .fixed 24
  | "uint2" => .fixed 25
  | "int2" => .fixed 26
  | _ => .invalid

/-- A policy restricted to what the converter's own paths ask for: `None` or one of the three
    float dtypes, under a flag. Total (the live function never raises on these; checked). -/
structure Policy where
  ty : Option FK → Bool → Nat

/-- The facts about a policy that the theorems need (all one-sided except `dbl`/`sgl`). -/
structure Policy.ok (P : Policy) : Prop where
  /-- flag off: a double-precision type comes out only for a float64 input -/
  single : ∀ k, isDouble (P.ty k false) = true → k = some .f64
  /-- flag on: unspecified, float32 and float64 all become DOUBLE -/
  dbl_none : P.ty none true = 11
  dbl_f32 : P.ty (some .f32) true = 11
  dbl_f64 : P.ty (some .f64) true = 11
  /-- flag off: unspecified and float32 are FLOAT -/
  sgl_none : P.ty none false = 1
  sgl_f32 : P.ty (some .f32) false = 1

/-- The reference as a `Policy`. -/
def refP : Policy where
  ty k flag :=
    match k with
    | none => (refPolicy .unspecified flag).getD 0
    | some f => (refPolicy (.flt f) flag).getD 0

/-! ## 2. Constant-binding decision paths -/

/-- Lowering context: the precision flag, function/loop-body mode (`_function_mode`), and the
    `_keep_function_float32` switch. -/
structure Ctx where
  flag : Bool
  fm : Bool
  keep : Bool
  deriving Repr, DecidableEq

/-- `IRContext._promote_float_array` / `conversion_api._maybe_promote_float_array` on a float
    array: everything becomes float64 under the flag. -/
def promote (flag : Bool) (a : FK) : FK := if flag then .f64 else a

/-- `ir_postprocess._maybe_promote_value_to_double` / `_promote_constant_attributes`: only
    float32 payloads are promoted, and only under the flag. -/
def postPromote (flag : Bool) (a : FK) : FK := if flag && a == .f32 then .f64 else a

def defaultFloat (flag : Bool) : FK := if flag then .f64 else .f32

/-- A bound constant: the dtypes its value passes through (source first, stored dtype last),
    the element type its `ir.Value` is declared with, and whether it is a `Constant` node. -/
structure Bound where
  path : List FK
  code : Nat
  asNode : Bool
  deriving Repr, DecidableEq

def narrowAval (aval : Option FK) : Option FK :=
  match aval with
  | some .f16 => some .f16
  | some .f32 => some .f32
  | _ => none

/-- `IRContext.bind_const_for_var(var, array)` for a float array of dtype `arr`; `aval` is the
    dtype of `var.aval` when there is one. -/
def bindConst (P : Policy) (c : Ctx) (aval : Option FK) (arr : FK) : Bound :=
  match (if c.fm && c.keep then narrowAval aval else none) with
  | some a => { path := [arr, a], code := P.ty (some a) false, asNode := c.fm }
  | none =>
    let a := promote c.flag arr
    { path := [arr, a], code := P.ty (some a) c.flag, asNode := c.fm }

/-- `IRContext._bind_literal_value_for_var`: `src` is the dtype of `np.asarray(literal.val)`
    (float64 for a Python float), `aval` the literal's aval dtype, `prefer` the optional
    `prefer_np_dtype`. -/
def bindLiteral (P : Policy) (c : Ctx) (aval prefer : Option FK) (src : FK) : Bound :=
  let lit : FK := match prefer with
    | some p => p
    | none => aval.getD src
  let b := bindConst P c aval lit
  { b with path := src :: b.path }

/-- `IRBuilder.add_initializer_from_scalar(name, value)` for a float value of dtype `src`. -/
def initScalar (P : Policy) (c : Ctx) (src : FK) : Bound :=
  let a := if c.flag then src else .f32
  { path := [src, a], code := if c.fm then P.ty (some a) c.flag else a.code, asNode := c.fm }

/-- `conversion_api._bind_closed_jaxpr_constants` for one float constant of dtype `src` whose
    constvar has aval dtype `aval`, followed by `bind_const_for_var` in the top context. -/
def closedConst (P : Policy) (flag : Bool) (aval : Option FK) (src : FK) : Bound :=
  let desired : Option FK :=
    match aval with
    | some t => if t = src then none else some t
    | none => some (defaultFloat flag)
  let desired : Option FK :=
    match desired with
    | some d => if !flag && d != .f32 && src != .f64 then some .f32 else some d
    | none => none
  let a1 := desired.getD src
  let a2 := promote flag a1
  let b := bindConst P { flag := flag, fm := false, keep := false } aval a2
  { b with path := src :: a1 :: b.path }

/-- `IRContext.allocate_value_for_var`: declared element type of a fresh intermediate value. -/
def allocValue (P : Policy) (c : Ctx) (aval : FK) : Nat :=
  let a := if !c.flag && aval != .f32 then .f32 else aval
  let pf := if c.fm && c.keep && c.flag && a != .f64 then false else c.flag
  P.ty (some a) pf

/-- `IRContext.add_input_for_invar`: declared element type of a graph / body input. -/
def inputValue (P : Policy) (c : Ctx) (aval : FK) : Nat :=
  let pf := if c.fm && c.keep && aval != .f64 then false else c.flag
  P.ty (some aval) pf

/-- Stored dtype of a bound constant after post-processing. -/
def Bound.final (b : Bound) (flag : Bool) : FK := postPromote flag (b.path.getLastD .f32)

/-- Every step of a dtype path goes to an equal or wider format. -/
def widening : List FK → Bool
  | a :: b :: rest => a.le b && widening (b :: rest)
  | _ => true

/-- The entry points through which a float dtype reaches the model. -/
inductive Entry where
  | viaBindConst (aval : Option FK) (arr : FK)
  | viaLiteral (aval prefer : Option FK) (src : FK)
  | viaInitScalar (src : FK)
  | viaClosedConst (aval : Option FK) (src : FK)
  | viaAlloc (aval : FK)
  | viaInput (aval : FK)
  deriving Repr, DecidableEq

def optNoF64 : Option FK → Bool
  | some .f64 => false
  | _ => true

def fkNoF64 : FK → Bool
  | .f64 => false
  | _ => true

/-- "No float64 enters": none of the dtypes handed to the entry point is float64. This is what
    JAX guarantees while `jax_enable_x64` is off. -/
def Entry.noF64 : Entry → Bool
  | .viaBindConst aval arr => optNoF64 aval && fkNoF64 arr
  | .viaLiteral aval prefer src =>
    -- a Python float literal is float64 at the numpy level; what JAX controls is its aval
    optNoF64 aval && optNoF64 prefer && (aval.isSome || prefer.isSome || fkNoF64 src)
  | .viaInitScalar src => fkNoF64 src
  | .viaClosedConst aval src => optNoF64 aval && fkNoF64 src
  | .viaAlloc aval => fkNoF64 aval
  | .viaInput aval => fkNoF64 aval

/-- The bound constant, for the entry points that bind one (`closedConst` always runs in the
    top-level context). -/
def Entry.bound (P : Policy) (c : Ctx) : Entry → Option Bound
  | .viaBindConst aval arr => some (bindConst P c aval arr)
  | .viaLiteral aval prefer src => some (bindLiteral P c aval prefer src)
  | .viaInitScalar src => some (initScalar P c src)
  | .viaClosedConst aval src => some (closedConst P c.flag aval src)
  | .viaAlloc _ => none
  | .viaInput _ => none

/-- Declared element type. -/
def Entry.code (P : Policy) (c : Ctx) : Entry → Nat
  | .viaAlloc aval => allocValue P c aval
  | .viaInput aval => inputValue P c aval
  | e => match e.bound P c with
    | some b => b.code
    | none => 0

/-- Stored dtype of the constant in the final model (after post-processing), if any. -/
def Entry.stored (P : Policy) (c : Ctx) (e : Entry) : Option FK :=
  (e.bound P c).map (fun b => b.final c.flag)

def optF64orNone : Option FK → Bool
  | none => true
  | some .f64 => true
  | _ => false

/-- "All-float64 context": every aval / preferred dtype handed to the entry point is float64 or
    absent — what holds at every constant of a callable whose JAX evaluation under x64 involves
    only float64 floating values. -/
def Entry.f64ctx : Entry → Bool
  | .viaBindConst aval _ => optF64orNone aval
  | .viaLiteral aval prefer _ => optF64orNone aval && optF64orNone prefer
  | .viaInitScalar _ => true
  | .viaClosedConst aval _ => optF64orNone aval
  | .viaAlloc aval => aval == .f64
  | .viaInput aval => aval == .f64

/-- The whole dtype path of a bound constant including the post-processing step. -/
def Bound.fullPath (b : Bound) (flag : Bool) : List FK := b.path ++ [b.final flag]

/-! ## 3. The model scanner -/

/-- One place in a model where an element type is written down. -/
structure Occ where
  kind : String      -- "init", "sparse_init", "value", "attr_tensor", "cast_to", "dtype_attr", …
  code : Nat
  deriving Repr, DecidableEq

/-- A model as a rose tree of element type occurrences: model → graphs / functions → nodes →
    subgraphs …, with no bound on depth or width. -/
inductive Tree where
  | node (label : String) (occs : List Occ) (kids : List Tree)
  deriving Repr

mutual
/-- No occurrence anywhere in the tree has a forbidden code. -/
def noCodes (bad : Nat → Bool) : Tree → Bool
  | .node _ occs kids => occs.all (fun o => !bad o.code) && noCodesL bad kids
def noCodesL (bad : Nat → Bool) : List Tree → Bool
  | [] => true
  | t :: ts => noCodes bad t && noCodesL bad ts
end

/-- The scanner of the property: no DOUBLE / COMPLEX128 anywhere. -/
def noDouble (t : Tree) : Bool := noCodes isDouble t

def findOcc (bad : Nat → Bool) : List Occ → Option Occ
  | [] => none
  | o :: os => if bad o.code then some o else findOcc bad os

mutual
/-- Path (labels from the root) and occurrence of the first forbidden code, if any. -/
def firstBad (bad : Nat → Bool) : Tree → Option (List String × Occ)
  | .node l occs kids =>
    match findOcc bad occs with
    | some o => some ([l], o)
    | none =>
      match firstBadL bad kids with
      | some (p, o) => some (l :: p, o)
      | none => none
def firstBadL (bad : Nat → Bool) : List Tree → Option (List String × Occ)
  | [] => none
  | t :: ts =>
    match firstBad bad t with
    | some r => some r
    | none => firstBadL bad ts
end

/-- Specification side: `Occurs o t` — the occurrence `o` is written somewhere in `t`
    (at the root or in any descendant). Defined independently of the scanner. -/
inductive Occurs (o : Occ) : Tree → Prop where
  | atRoot {l occs kids} : o ∈ occs → Occurs o (.node l occs kids)
  | inKid {l occs kids k} : k ∈ kids → Occurs o k → Occurs o (.node l occs kids)

/-! ## 4. The x64 flag machine -/

/-- JAX's configuration state for `jax_enable_x64`: the process-wide value and the optional
    thread-local override installed by `with jax.enable_x64(v):`.  `jax.config.update` writes
    `glob`; reads (`jax.config.jax_enable_x64`, `jax.config.read`) see the override first. -/
structure Cfg where
  glob : Bool
  loc : Option Bool
  deriving Repr, DecidableEq

def Cfg.read (s : Cfg) : Bool := s.loc.getD s.glob
def Cfg.update (s : Cfg) (v : Bool) : Cfg := { s with glob := v }

/-- The two context managers of /repo. -/
inductive Cm where
  | temp (enabled : Bool)     -- user_interface._temporary_x64
  | force (target : Bool)     -- conversion_api._force_jax_x64
  deriving Repr, DecidableEq

/-- Code running under the context managers. `raise` may stand anywhere, so every exception
    point is a program. `set` is user code calling `jax.config.update` in the traced function. -/
inductive Prog where
  | skip
  | raise
  | set (v : Bool)
  | seq (a b : Prog)
  | withCm (c : Cm) (body : Prog)
  deriving Repr

/-- Result: final configuration, did an exception escape, and the values `read` returned at
    each `skip` (what the body saw), in order. -/
structure Res where
  cfg : Cfg
  raised : Bool
  seen : List Bool
  deriving Repr, DecidableEq

def run : Prog → Cfg → Res
  | .skip, s => { cfg := s, raised := false, seen := [s.read] }
  | .raise, s => { cfg := s, raised := true, seen := [] }
  | .set v, s => { cfg := s.update v, raised := false, seen := [] }
  | .seq a b, s =>
    let r := run a s
    if r.raised then r
    else
      let r2 := run b r.cfg
      { cfg := r2.cfg, raised := r2.raised, seen := r.seen ++ r2.seen }
  | .withCm (.temp e) body, s =>
    -- prev = read; try: if enabled != prev: update(enabled); yield
    -- finally: if read != prev: update(prev)
    let prev := s.read
    let s1 := if e != prev then s.update e else s
    let r := run body s1
    let s2 := if r.cfg.read != prev then r.cfg.update prev else r.cfg
    { cfg := s2, raised := r.raised, seen := r.seen }
  | .withCm (.force t) body, s =>
    -- previous = read; if previous != target: update(target)
    -- try: yield  finally: if previous != target: update(previous)
    let prev := s.read
    let s1 := if prev != t then s.update t else s
    let r := run body s1
    let s2 := if prev != t then r.cfg.update prev else r.cfg
    { cfg := s2, raised := r.raised, seen := r.seen }

/-- The body never calls `jax.config.update` itself. -/
def Prog.noSet : Prog → Bool
  | .skip => true
  | .raise => true
  | .set _ => false
  | .seq a b => a.noSet && b.noSet
  | .withCm _ body => body.noSet

/-- Straight-line code: no `jax.config.update`, no further context manager. -/
def Prog.plain : Prog → Bool
  | .skip => true
  | .raise => true
  | .set _ => false
  | .seq a b => a.plain && b.plain
  | .withCm _ _ => false

/-- The public entry point: `with _temporary_x64(flag): (with _force_jax_x64(flag): body);
    post` — `body` is tracing + lowering + optimisation, `post` is `postprocess_ir_model`. -/
def publicToOnnx (flag : Bool) (body post : Prog) : Prog :=
  .withCm (.temp flag) (.seq (.withCm (.force flag) body) post)

end J2O.C09
