/-
C04 — symbolic dimension arithmetic: executable model (core Lean only).

* `Factor / Term / Terms / Expr` mirror JAX's `_DimFactor / _DimTerm / _DimExpr` exactly as
  `jax2onnx/converter/lower_dimexpr.py` walks them: an expression is a tuple of
  `(term, coefficient)`, a term a tuple of `(factor, power)`, a factor a variable or one of the
  binary operations `floordiv / mod / max / min` on two expressions.  Every node additionally
  carries the *text keys* under which `LowerDimExpr` memoises it (`str(expr)`,
  `f"term*coeff:{(term, coeff)}"`, `str(term)`, `f"factor^power:{(factor, power)}"`,
  `f"{op}#{operands}"`, the variable
  name).  The keys are data: the harness fills them from the live objects, so the model never has
  to re-implement `__str__`.
* `evalWith` evaluates an expression for a given meaning of the four operations;
  `evalJax` (Python floor semantics) and `evalO` (the meaning of the nodes the lowerer emits,
  ONNX int64 semantics) are its two instances.  Since /repo 31efd88 a floordiv is emitted as
  `Div(Sub(a, Mod(a, b)), b)`; `OpKind.onnxOld` keeps the meaning of the earlier single `Div`.
* `IntProg` is the unfolded tree of the `dimexpr_*` node chain; `IntProg.eval` its ONNX meaning.
* `lowerExpr` is `LowerDimExpr._lower_expr` without the memo; `lowerExprC` is the same walk with
  the memo (`compute_cache`) threaded through, in the order the Python code reads and writes it.
* `OTable` with `record`, `recordDims`, `scopeBegin` mirrors `IRContext._sym_origin_str`.
-/
namespace J2O.C04

inductive OpKind where
  | floordiv | mod | max | min
  deriving DecidableEq, Repr

/-- Key of `LowerDimExpr.compute_cache`: Python `int` (scalars) or `str` (everything else). -/
inductive Key where
  | num (k : Int)
  | txt (s : String)
  deriving DecidableEq, Repr

mutual
  /-- `_DimFactor`: a dimension variable or `operation(operands)`; `key = f"{operation}#{operands}"`. -/
  inductive Factor where
    | var (name : String)
    | op (key : String) (o : OpKind) (a b : Expr)
  /-- `_DimTerm._factors`: `(factor, power)` pairs in stored order; `kFP = f"factor^power:{(factor, power)}"`
      (before /repo 31efd88: `str((factor, power))`). -/
  inductive Term where
    | one
    | mul (kFP : String) (f : Factor) (p : Nat) (rest : Term)
  /-- `_DimExpr._sorted_terms`: `(term, coeff)` pairs in stored order;
      `kTC = f"term*coeff:{(term, coeff)}"` (before 31efd88: `str((term, coeff))`), `kT = str(term)`. -/
  inductive Terms where
    | nil
    | cons (kTC kT : String) (t : Term) (c : Int) (rest : Terms)
  /-- `_DimExpr`; `kE = str(expr)`. -/
  inductive Expr where
    | mk (kE : String) (ts : Terms)
end

/-- Python / JAX meaning of the operations (`divmod` floors; `%` follows the divisor). -/
def OpKind.jax : OpKind → Int → Int → Int
  | .floordiv, a, b => Int.fdiv a b
  | .mod, a, b => Int.fmod a b
  | .max, a, b => if a ≤ b then b else a
  | .min, a, b => if a ≤ b then a else b

/-- ONNX int64 meaning of the nodes `LowerDimExpr._convert_op` emits for the operation.
    Relied upon (and compared with ONNX Runtime on a box every run):
    * `Div` on integers truncates toward zero            (`Int.tdiv`),
    * `Mod` with `fmod = 0` (the default the builder emits) on integers has the sign of the
      DIVISOR, like Python's `%`                          (`Int.fmod`),
    * `Sub`, `Max`, `Min` are the integer operations.
    floordiv ↦ `Div(Sub(a, Mod(a, b)), b)`. -/
def OpKind.onnx : OpKind → Int → Int → Int
  | .floordiv, a, b => Int.tdiv (a - Int.fmod a b) b
  | .mod, a, b => Int.fmod a b
  | .max, a, b => if a ≤ b then b else a
  | .min, a, b => if a ≤ b then a else b

/-- REGRESSION ONLY: the lowering before /repo 31efd88 emitted a single truncating `Div`. -/
def OpKind.onnxOld : OpKind → Int → Int → Int
  | .floordiv, a, b => Int.tdiv a b
  | o, a, b => OpKind.onnx o a b

mutual
  def Factor.evalWith (sem : OpKind → Int → Int → Int) (σ : String → Int) : Factor → Int
    | .var n => σ n
    | .op _ o a b => sem o (a.evalWith sem σ) (b.evalWith sem σ)
  def Term.evalWith (sem : OpKind → Int → Int → Int) (σ : String → Int) : Term → Int
    | .one => 1
    | .mul _ f p rest => f.evalWith sem σ ^ p * rest.evalWith sem σ
  def Terms.evalWith (sem : OpKind → Int → Int → Int) (σ : String → Int) : Terms → Int
    | .nil => 0
    | .cons _ _ t c rest => t.evalWith sem σ * c + rest.evalWith sem σ
  def Expr.evalWith (sem : OpKind → Int → Int → Int) (σ : String → Int) : Expr → Int
    | .mk _ ts => ts.evalWith sem σ
end

/-- What JAX computes for the dimension expression under the binding `σ`. -/
abbrev Expr.evalJax (σ : String → Int) (e : Expr) : Int := e.evalWith OpKind.jax σ
/-- The same expression read with ONNX operator semantics. -/
abbrev Expr.evalO (σ : String → Int) (e : Expr) : Int := e.evalWith OpKind.onnx σ

/-- Unfolded `dimexpr_*` chain. `shape v axis` is `Shape(v, start=axis, end=axis+1)`. -/
inductive IntProg where
  | const (k : Int)
  | shape (v : String) (axis : Nat)
  | add (a b : IntProg)
  | sub (a b : IntProg)
  | mul (a b : IntProg)
  | pow (a b : IntProg)
  | div (a b : IntProg)
  | mod (a b : IntProg)
  | max (a b : IntProg)
  | min (a b : IntProg)
  deriving DecidableEq, Repr

/-- ONNX meaning of a chain, given the run-time shapes of the tensors it reads. -/
def IntProg.eval (shapes : String → Nat → Int) : IntProg → Int
  | .const k => k
  | .shape v ax => shapes v ax
  | .add a b => a.eval shapes + b.eval shapes
  | .sub a b => a.eval shapes - b.eval shapes
  | .mul a b => a.eval shapes * b.eval shapes
  | .pow a b => a.eval shapes ^ (b.eval shapes).toNat
  | .div a b => Int.tdiv (a.eval shapes) (b.eval shapes)
  | .mod a b => OpKind.onnx .mod (a.eval shapes) (b.eval shapes)
  | .max a b => OpKind.onnx .max (a.eval shapes) (b.eval shapes)
  | .min a b => OpKind.onnx .min (a.eval shapes) (b.eval shapes)

/-- `_convert_op`: which nodes an operation becomes (floordiv: `Mod`, `Sub`, `Div`; the first operand
    value is used twice — in the unfolded tree it appears twice). -/
def OpKind.node : OpKind → IntProg → IntProg → IntProg
  | .floordiv => fun a b => .div (.sub a (.mod a b)) b
  | .mod => .mod
  | .max => .max
  | .min => .min

/-- `if factor[1] != 1: Pow(result, scalar(power))`. -/
def withPow (x : IntProg) (p : Nat) : IntProg := if p = 1 then x else .pow x (.const p)
/-- `if term[1] != 1: Mul(result, scalar(coeff))`. -/
def withCoeff (x : IntProg) (c : Int) : IntProg := if c = 1 then x else .mul x (.const c)

/-- Where a symbol is read from: `(tensor value, axis)`. -/
abbrev Org := String → String × Nat

/-! ### Lowering without the memo

Every function recurses structurally on its syntax argument (no fuel, no well-founded
recursion), so the kernel can evaluate the model in `decide` proofs. -/
mutual
  /-- `_lower_factor` (cache miss path): variable -> Shape of the origin, operation -> node. -/
  def lowerFactor (org : Org) : Factor → IntProg
    | .var n => .shape (org n).1 (org n).2
    | .op _ o a b => o.node (lowerExpr org a) (lowerExpr org b)
  /-- the `for factor in term._factors[1:]` loop of `_lower_term` -/
  def lowerTermAcc (org : Org) (acc : IntProg) : Term → IntProg
    | .one => acc
    | .mul _ f p rest => lowerTermAcc org (.mul acc (withPow (lowerFactor org f) p)) rest
  /-- `_lower_term_with_mult` (with `_lower_term` inlined) -/
  def lowerTC (org : Org) (c : Int) : Term → IntProg
    | .one => .const c
    | .mul _ f p rest => withCoeff (lowerTermAcc org (withPow (lowerFactor org f) p) rest) c
  /-- the `for term in terms[1:]` loop of `_lower_expr` -/
  def lowerTermsAcc (org : Org) (acc : IntProg) : Terms → IntProg
    | .nil => acc
    | .cons _ _ t c rest => lowerTermsAcc org (.add acc (lowerTC org c t)) rest
  /-- `_lower_expr` (JAX never builds an empty term tuple; the model returns 0 there). -/
  def lowerExpr (org : Org) : Expr → IntProg
    | .mk _ .nil => .const 0
    | .mk _ (.cons _ _ t c rest) => lowerTermsAcc org (lowerTC org c t) rest
end

/-- `_lower_term` -/
def lowerTerm (org : Org) : Term → IntProg
  | .one => .const 1
  | .mul _ f p rest => lowerTermAcc org (withPow (lowerFactor org f) p) rest

/-! ### Lowering with the memo (`compute_cache`) -/

abbrev Cache := List (Key × IntProg)

def Cache.get? (c : Cache) (k : Key) : Option IntProg :=
  match c with
  | [] => none
  | (k', v) :: r => if k' = k then some v else Cache.get? r k

def Cache.put (c : Cache) (k : Key) (v : IntProg) : Cache := (k, v) :: c

/-- `if key in cache: return cache[key]`, else run `body` and store its result under `key`. -/
@[inline] def memo (k : Key) (c : Cache) (body : Cache → IntProg × Cache) : IntProg × Cache :=
  match c.get? k with
  | some v => (v, c)
  | none => let r := body c; (r.1, r.2.put k r.1)

/-- `_get_scalar` -/
def getScalar (k : Int) (c : Cache) : IntProg × Cache :=
  memo (.num k) c fun c => (.const k, c)

/-- `_get_dim_value` -/
def getDim (org : Org) (name : String) (c : Cache) : IntProg × Cache :=
  memo (.txt name) c fun c => (.shape (org name).1 (org name).2, c)

/-- `if factor[1] != 1: Pow(result, _get_scalar(power))` -/
def powC (p : Nat) (r : IntProg × Cache) : IntProg × Cache :=
  if p = 1 then r else
    let s := getScalar p r.2
    (.pow r.1 s.1, s.2)

/-- `if term[1] != 1: Mul(result, _get_scalar(coeff))` -/
def coeffC (k : Int) (r : IntProg × Cache) : IntProg × Cache :=
  if k = 1 then r else
    let s := getScalar k r.2
    (.mul r.1 s.1, s.2)

mutual
  /-- `_lower_factor` (with `_get_dim_value` / `_lower_op` on the miss path) -/
  def lowerFactorC (org : Org) (kFP : String) (p : Nat) : Factor → Cache → IntProg × Cache
    | .var n, c => memo (.txt kFP) c fun c => powC p (getDim org n c)
    | .op key o a b, c =>
      memo (.txt kFP) c fun c => powC p <|
        memo (.txt key) c fun c =>                        -- `_lower_op`
          let ra := lowerExprC org a c
          let rb := lowerExprC org b ra.2
          (o.node ra.1 rb.1, rb.2)
  /-- the `for factor in term._factors[1:]` loop -/
  def lowerTermAccC (org : Org) (acc : IntProg) : Term → Cache → IntProg × Cache
    | .one, c => (acc, c)
    | .mul kFP f p rest, c =>
      let r := lowerFactorC org kFP p f c
      lowerTermAccC org (.mul acc r.1) rest r.2
  /-- `_lower_term_with_mult` (with `_lower_term` inlined on the miss path) -/
  def lowerTCC (org : Org) (kTC kT : String) (k : Int) : Term → Cache → IntProg × Cache
    | .one, c => memo (.txt kTC) c fun c => getScalar k c
    | .mul kFP f p rest, c =>
      memo (.txt kTC) c fun c => coeffC k <|
        memo (.txt kT) c fun c =>                         -- `_lower_term`
          let r0 := lowerFactorC org kFP p f c
          lowerTermAccC org r0.1 rest r0.2
  /-- the `for term in terms[1:]` loop -/
  def lowerTermsAccC (org : Org) (acc : IntProg) : Terms → Cache → IntProg × Cache
    | .nil, c => (acc, c)
    | .cons kTC kT t k rest, c =>
      let r := lowerTCC org kTC kT k t c
      lowerTermsAccC org (.add acc r.1) rest r.2
  /-- `_lower_expr` -/
  def lowerExprC (org : Org) : Expr → Cache → IntProg × Cache
    | .mk kE .nil, c => memo (.txt kE) c fun c => (.const 0, c)
    | .mk kE (.cons kTC kT t k rest), c =>
      memo (.txt kE) c fun c =>
        let r0 := lowerTCC org kTC kT k t c
        lowerTermsAccC org r0.1 rest r0.2
end

/-- `_lower_term` -/
def lowerTermC (org : Org) (kT : String) : Term → Cache → IntProg × Cache
  | .one, c => memo (.txt kT) c fun c => getScalar 1 c
  | .mul kFP f p rest, c =>
    memo (.txt kT) c fun c =>
      let r0 := lowerFactorC org kFP p f c
      lowerTermAccC org r0.1 rest r0.2

/-- `LowerDimExpr.__call__` on a list of expressions, repeatedly, with one cache. -/
def lowerCallC (org : Org) : List Expr → Cache → List IntProg × Cache
  | [], c => ([], c)
  | e :: es, c =>
    let r := lowerExprC org e c
    let rs := lowerCallC org es r.2
    (r.1 :: rs.1, rs.2)

/-! ### Origin table (`IRContext._sym_origin_str`) -/

structure Origin where
  v : String
  axis : Nat
  deriving DecidableEq, Repr

/-- newest entry first; lookup returns the first match (= Python dict overwrite). -/
abbrev OTable := List (String × Origin)

def OTable.lookup (t : OTable) (k : String) : Option Origin :=
  match t with
  | [] => none
  | (k', o) :: r => if k' = k then some o else OTable.lookup r k

/-- `record_symbolic_dim_origin`: integer dims (`none`) are skipped. -/
def OTable.record (t : OTable) (dim : Option String) (v : String) (axis : Nat) : OTable :=
  match dim with
  | none => t
  | some k => (k, ⟨v, axis⟩) :: t

/-- `record_symbolic_dim_origins(dims, value, axes)` -/
def OTable.recordDims (t : OTable) (v : String) : List (Option String × Nat) → OTable
  | [] => t
  | (d, ax) :: r => OTable.recordDims (t.record d v ax) v r

def enumFrom (i : Nat) : List α → List (α × Nat)
  | [] => []
  | x :: r => (x, i) :: enumFrom (i + 1) r

/-- `FunctionScope.begin`, one input: a dim of the call argument that has an origin in the parent
    is re-bound to the same axis of the function input. -/
def OTable.scopeInput (parent child : OTable) (fin : String) : List (Option String × Nat) → OTable
  | [] => child
  | (none, _) :: r => OTable.scopeInput parent child fin r
  | (some k, ax) :: r =>
    match parent.lookup k with
    | none => OTable.scopeInput parent child fin r
    | some _ => OTable.scopeInput parent ((k, ⟨fin, ax⟩) :: child) fin r

inductive OOp where
  /-- `record_symbolic_dim_origins(dims, value, axes)` (bind of a variable, graph input, NCHW input) -/
  | bind (v : String) (dims : List (Option String × Nat))
  /-- `FunctionScope.begin` for one input, seen from the child context -/
  | scope (parent : OTable) (fin : String) (dims : List (Option String × Nat))

def OTable.apply (t : OTable) : OOp → OTable
  | .bind v dims => t.recordDims v dims
  | .scope parent fin dims => OTable.scopeInput parent t fin dims

def OTable.applyAll (t : OTable) : List OOp → OTable
  | [] => t
  | o :: r => OTable.applyAll (t.apply o) r

/-- The origin function the lowerer sees (missing symbol: the Python code raises `ValueError`;
    `hasOrigins` is checked separately). -/
def OTable.org (t : OTable) : Org := fun n =>
  match t.lookup n with
  | some o => (o.v, o.axis)
  | none => ("?", 0)

/-! ### Key consistency checker

Every memoised item (`Den`) is brought to a common shape (`nf`: a tuple of `(term, coeff)`); two
items may share a key only if their normal forms are the same up to the key annotations
(`Terms.same`).  `keysConsistent` checks this for all items of a list of expressions against the
FIRST item carrying each key.  `J2O.Props.C04.cache_transparent` proves that the check implies
transparency of the memo for every binding; the harness runs it on the keys of every real export. -/

mutual
  def Factor.same : Factor → Factor → Bool
    | .var a, .var b => a == b
    | .op _ o a b, .op _ o' a' b' => o == o' && a.same a' && b.same b'
    | _, _ => false
  def Term.same : Term → Term → Bool
    | .one, .one => true
    | .mul _ f p r, .mul _ f' p' r' => f.same f' && p == p' && r.same r'
    | _, _ => false
  def Terms.same : Terms → Terms → Bool
    | .nil, .nil => true
    | .cons _ _ t c r, .cons _ _ t' c' r' => t.same t' && c == c' && r.same r'
    | _, _ => false
  def Expr.same : Expr → Expr → Bool
    | .mk _ a, .mk _ b => a.same b
end

/-- what a cache entry stands for -/
inductive Den where
  | fac (f : Factor)                 -- variable name key, `op#operands` key
  | fp (f : Factor) (p : Nat)        -- factor^power key
  | term (t : Term)                  -- str(term) key
  | tc (t : Term) (c : Int)          -- term*coeff key
  | expr (e : Expr)                  -- str(expr) key

def Den.eval (sem : OpKind → Int → Int → Int) (σ : String → Int) : Den → Int
  | .fac f => f.evalWith sem σ
  | .fp f p => f.evalWith sem σ ^ p
  | .term t => t.evalWith sem σ
  | .tc t c => t.evalWith sem σ * c
  | .expr e => e.evalWith sem σ

def Den.nf : Den → Terms
  | .fac f => .cons "" "" (.mul "" f 1 .one) 1 .nil
  | .fp f p => .cons "" "" (.mul "" f p .one) 1 .nil
  | .term t => .cons "" "" t 1 .nil
  | .tc t c => .cons "" "" t c .nil
  | .expr (.mk _ ts) => ts

mutual
  def Factor.items : Factor → List (String × Den)
    | .var n => [(n, .fac (.var n))]
    | .op key o a b => (key, .fac (.op key o a b)) :: (a.items ++ b.items)
  def Term.items : Term → List (String × Den)
    | .one => []
    | .mul kFP f p rest => (kFP, .fp f p) :: (f.items ++ rest.items)
  def Terms.items : Terms → List (String × Den)
    | .nil => []
    | .cons kTC kT t c rest => (kTC, .tc t c) :: (kT, .term t) :: (t.items ++ rest.items)
  def Expr.items : Expr → List (String × Den)
    | .mk kE ts => (kE, .expr (.mk kE ts)) :: ts.items
end

def allItems : List Expr → List (String × Den)
  | [] => []
  | e :: es => e.items ++ allItems es

def firstWith (items : List (String × Den)) (k : String) : Option Den :=
  match items with
  | [] => none
  | (k', d) :: r => if k' = k then some d else firstWith r k

def itemsConsistent (items : List (String × Den)) : Bool :=
  items.all fun it =>
    match firstWith items it.1 with
    | some d => d.nf.same it.2.nf
    | none => false

/-- all expressions lowered through one memo carry consistent keys -/
def keysConsistent (es : List Expr) : Bool := itemsConsistent (allItems es)

/-! ### Canonical text of a chain (used by the driver) -/
def IntProg.render : IntProg → String
  | .const k => s!"{k}"
  | .shape v ax => s!"S({v},{ax})"
  | .add a b => s!"Add({a.render},{b.render})"
  | .sub a b => s!"Sub({a.render},{b.render})"
  | .mul a b => s!"Mul({a.render},{b.render})"
  | .pow a b => s!"Pow({a.render},{b.render})"
  | .div a b => s!"Div({a.render},{b.render})"
  | .mod a b => s!"Mod({a.render},{b.render})"
  | .max a b => s!"Max({a.render},{b.render})"
  | .min a b => s!"Min({a.render},{b.render})"

mutual
  def Factor.vars : Factor → List String
    | .var n => [n]
    | .op _ _ a b => a.vars ++ b.vars
  def Term.vars : Term → List String
    | .one => []
    | .mul _ f _ rest => f.vars ++ rest.vars
  def Terms.vars : Terms → List String
    | .nil => []
    | .cons _ _ t _ rest => t.vars ++ rest.vars
  def Expr.vars : Expr → List String
    | .mk _ ts => ts.vars
end

end J2O.C04
