/-
C02 — the optimizer's *guard kernels* as executable Lean functions (core Lean only).

The custom passes of `jax2onnx/converter/ir_optimizations.py` decide whether a rewrite is applied with
a handful of small pure predicates.  They are modelled here one-to-one (tied to the live functions by
the correspondence in `harness/props/c02.py::check_guard_kernels`) so that `Props/C02.lean` can prove
that *what the code's guard accepts implies the semantic precondition of the rewrite*:

* `shapesCompatible`  — `_shapes_compatible(a, b)`      (reshape-pair fold)
* `matchExact` / `identityReshapeGuard` — `_shapes_match_exact` + the `-1/0` test of
  `remove_identity_reshapes_ir`
* `isInversePerm` (in `Model/Tensor.lean`) — `_is_inverse_perm`
* `chainSideOk`       — `_chain_side_inputs_ok(node, chain_value)`
* `isScalarConst`     — `_is_scalar_const_value`
-/
import J2O.Model.C02

namespace J2O.C02.Guards
open J2O J2O.C02

/-- the loop of `_shapes_compatible`: `u` = number of positions that could not be compared so far,
    `z` = some extent seen so far may be zero (a literal 0, or an equal *symbol* on both sides). -/
def scGo : List Dim → List Dim → Nat → Bool → Bool
  | [], [], u, z => u == 0 || (u == 1 && !z)
  | a :: as, b :: bs, u, z =>
    match a, b with
    | .known m, .known n => m == n && scGo as bs u (z || m == 0)
    | .sym s, .sym t => if s == t then scGo as bs u true else scGo as bs (u + 1) z
    | _, _ => scGo as bs (u + 1) z
  | _, _, _, _ => false

/-- `_shapes_compatible(a, b)` on the shape annotations of the two values (`none`: no value / no shape). -/
def shapesCompatible (a b : Option (List Dim)) : Bool :=
  match a, b with
  | some da, some db => scGo da db 0 false
  | _, _ => false

/-- `_shapes_match_exact(src_dims, target_dims)`: every source extent is a literal equal to the target. -/
def matchExact : Option (List Dim) → List Int → Bool
  | some [], [] => true
  | some (.known n :: ds), t :: ts => (n : Int) == t && matchExact (some ds) ts
  | _, _ => false

/-- the decision of `remove_identity_reshapes_ir` for `Reshape(data, const target)` with output
    annotation `dst` (absent: no constraint): non-empty target without `-1`/`0`, source and (if
    present) destination annotations literally equal to the target. -/
def identityReshapeGuard (src dst : Option (List Dim)) (tgt : List Int) : Bool :=
  !tgt.isEmpty && tgt.all (fun d => d != -1 && d != 0) && matchExact src tgt &&
    (match dst with | none => true | some _ => matchExact dst tgt)

/-- what `_chain_side_inputs_ok` can see of one operand of a node on a folded chain -/
inductive Operand where
  | chain        -- the value flowing along the chain (`iv is chain_value`)
  | absent       -- `None`
  | scalarConst  -- `_is_scalar_const_value(iv)` holds
  | other        -- anything else
  deriving DecidableEq, Repr, Inhabited

/-- `_chain_side_inputs_ok(node, chain_value)` -/
def chainSideOk (isCastLike : Bool) (ins : List Operand) : Bool :=
  if isCastLike then
    match ins with
    | .chain :: _ => true
    | _ => false
  else ins.all (fun o => o != .other)

/-- `_is_scalar_const_value` on what it inspects: the constant payload's element count if a payload
    can be read, else (for an initializer) whether every annotated extent is the literal 1. -/
def isScalarConst (payloadSize : Option Nat) (isInitializer : Bool) (shape : Option (List Dim)) : Bool :=
  match payloadSize with
  | some n => n == 1
  | none => isInitializer &&
      (match shape with
       | some ds => ds.all (fun d => d == .known 1)
       | none => false)

end J2O.C02.Guards
