/-
C01 (round 2) — tensor-level recipes as *dataflow graphs* over integer tensors (core Lean only).

`Tn`        a tensor: shape + row-major data over ℤ (booleans are 0/1; integer-valued floats are
            their integers — the float entries of this part only compare and negate)
`GOp`       the ONNX operators that the structural / indexing / reduction / sorting lowerings of
            /repo emit (Shape, Gather, Slice, Pad, Range, Concat, Reshape, Expand, Squeeze,
            Unsqueeze, Reduce*, TopK, MaxPool, CumSum, elementwise arithmetic with scalar
            broadcasting, Where, Cast …); anything else is `unknown` and evaluates to `none`
`GRecipe`   node list in SSA order (value list = graph inputs, then one value per node output),
            translated from the graph the live `to_onnx` emits on every run
            (harness/c01_catalogue.py::translate_graph → Gen/C01Tensor.lean)
`Jax.*`     JAX-side semantics of the one-call programs over lists
Integer arithmetic is ideal (ℤ, no-overflow reading, as for `TRecipe.evalCum`); `Cast` between
integer widths is the identity, `Cast` to bool normalises to 0/1.
Every operator model is compared with ONNX Runtime on every intermediate value of the real
exported models on every run (harness/props/c01.py::validate_graphs).
-/
import J2O.Model.C01
namespace J2O.C01

structure Tn where
  shape : List Nat
  data : List Int
  deriving DecidableEq, Repr

def Tn.vec (l : List Int) : Tn := ⟨[l.length], l⟩
def Tn.scalar (x : Int) : Tn := ⟨[], [x]⟩
def prodNat : List Nat → Nat
  | [] => 1
  | d :: ds => d * prodNat ds
def Tn.wf (t : Tn) : Bool := t.data.length == prodNat t.shape

inductive BinOp where
  | add | sub | mul | div | max | min | less | greater | equal | and | or
  deriving DecidableEq, Repr

def BinOp.app : BinOp → Int → Int → Int
  | .add => fun x y => x + y
  | .sub => fun x y => x - y
  | .mul => fun x y => x * y
  | .div => fun x y => Int.tdiv x y
  | .max => fun x y => if x ≥ y then x else y
  | .min => fun x y => if x ≤ y then x else y
  | .less => fun x y => if x < y then 1 else 0
  | .greater => fun x y => if x > y then 1 else 0
  | .equal => fun x y => if x = y then 1 else 0
  | .and => fun x y => if x ≠ 0 ∧ y ≠ 0 then 1 else 0
  | .or => fun x y => if x ≠ 0 ∨ y ≠ 0 then 1 else 0

inductive RedKind where
  | max | min | sum | prod
  deriving DecidableEq, Repr

inductive GOp where
  | const (t : Tn)
  | identity
  | cast (toBool : Bool)
  | neg | not
  | bin (f : BinOp)
  | where_
  | shape | squeeze | unsqueeze | reshape | expand
  | concat (axis : Int)
  | slice | pad | range
  | gather (axis : Int)
  | gatherElements (axis : Int)
  | reduce (k : RedKind) (keepdims : Bool)
  | topk (indices : Bool) (axis : Int) (largest sorted : Bool)
  | maxPool (kernel strides pads : List Int)
  | cumsum (exclusive reverse : Bool)
  | unknown (name : String)
  deriving DecidableEq, Repr

/-! ### operator semantics on lists -/
namespace Onnx

/-- numpy-style broadcasting restricted to what the recipes need: equal shapes, or one operand
    with a single element (and no more axes than the other). -/
def bcast2 (f : Int → Int → Int) (a b : Tn) : Option Tn :=
  if a.shape = b.shape then some ⟨a.shape, List.zipWith f a.data b.data⟩
  else match a.data, b.data with
    | [x], _ => if a.shape.length ≤ b.shape.length then some ⟨b.shape, b.data.map (f x)⟩
                else match b.data with
                  | [y] => some ⟨a.shape, [f x y]⟩
                  | _ => none
    | _, [y] => if b.shape.length ≤ a.shape.length then some ⟨a.shape, a.data.map (fun x => f x y)⟩ else none
    | _, _ => none

/-- broadcast one operand to a target shape (same shape, or single element). -/
def bcastTo (shape : List Nat) (a : Tn) : Option (List Int) :=
  if a.shape = shape then some a.data
  else match a.data with
    | [x] => if a.shape.length ≤ shape.length then some (List.replicate (prodNat shape) x) else none
    | _ => none

def where3 (c x y : Tn) : Option Tn :=
  let shape := if c.data.length ≥ x.data.length ∧ c.data.length ≥ y.data.length ∧ c.shape.length ≥ x.shape.length
      ∧ c.shape.length ≥ y.shape.length then c.shape
    else if x.data.length ≥ y.data.length ∧ x.shape.length ≥ y.shape.length then x.shape else y.shape
  match bcastTo shape c, bcastTo shape x, bcastTo shape y with
  | some cs, some xs, some ys =>
    some ⟨shape, List.zipWith (fun (p : Int × Int) (z : Int) => if p.1 ≠ 0 then p.2 else z) (cs.zip xs) ys⟩
  | _, _, _ => none

def normAxis (rank : Nat) (a : Int) : Option Nat :=
  let b := if a < 0 then a + rank else a
  if 0 ≤ b ∧ b < rank then some b.toNat else none

/-- remove the listed axes (each must have extent 1). -/
def squeezeShape (shape : List Nat) (axes : List Int) : Option (List Nat) :=
  match axes.mapM (normAxis shape.length) with
  | none => none
  | some ax =>
    if ax.all (fun i => shape.getD i 0 == 1) then
      some (((List.range shape.length).filter (fun i => !ax.contains i)).map (fun i => shape.getD i 0))
    else none

def insertAt (l : List Nat) (i : Nat) (v : Nat) : List Nat := l.take i ++ v :: l.drop i

/-- insert an extent-1 axis (a single axis is all the recipes use). -/
def unsqueezeShape (shape : List Nat) (axes : List Int) : Option (List Nat) :=
  match axes with
  | [a] => match normAxis (shape.length + 1) a with
    | some i => some (insertAt shape i 1)
    | none => none
  | _ => none

def clampI (x lo hi : Int) : Int := if x < lo then lo else if x > hi then hi else x

/-- ONNX `Slice` on a rank-1 tensor with step 1: negative `start`/`end` count from the end, then
    both are clamped into `[0, n]`. -/
def slice1 (l : List Int) (start stop : Int) : List Int :=
  let n : Int := l.length
  let s := clampI (if start < 0 then start + n else start) 0 n
  let e := clampI (if stop < 0 then stop + n else stop) 0 n
  (l.drop s.toNat).take (e - s).toNat

/-- ONNX `Pad` (mode constant) on a rank-1 tensor: `lo`/`hi` may be negative (cropping);
    output position `i` reads input position `i - lo` when that exists, else the pad value. -/
def pad1 (l : List Int) (lo hi v : Int) : Option (List Int) :=
  let n : Int := l.length
  if n + lo + hi < 0 then none
  else some ((List.range (n + lo + hi).toNat).map fun (i : Nat) =>
    let j : Int := i - lo
    if 0 ≤ j ∧ j < n then l.getD j.toNat 0 else v)

/-- ONNX `Range(start, limit, delta)`: `max(ceil((limit - start) / delta), 0)` elements. -/
def range (start limit delta : Int) : Option (List Int) :=
  if delta = 0 then none
  else
    let cnt : Int := -(Int.fdiv (-(limit - start)) delta)     -- ceil of the quotient
    some ((List.range (if cnt < 0 then 0 else cnt.toNat)).map fun (i : Nat) => start + i * delta)

/-- ONNX `Gather(axis=0)` from a rank-1 tensor: indices in `[-n, n-1]`, negative ones count from
    the end; anything else is a run-time error. -/
def gather1 (l : List Int) : List Int → Option (List Int)
  | [] => some []
  | i :: is =>
    if -(l.length : Int) ≤ i ∧ i < (l.length : Int) then
      match gather1 l is with
      | some r => some (l.getD (if i < 0 then i + (l.length : Int) else i).toNat 0 :: r)
      | none => none
    else none

def foldMax : Int → List Int → Int
  | a, [] => a
  | a, x :: xs => foldMax (if x > a then x else a) xs
def foldMin : Int → List Int → Int
  | a, [] => a
  | a, x :: xs => foldMin (if x < a then x else a) xs
def prodList : List Int → Int
  | [] => 1
  | x :: xs => x * prodList xs

/-- ONNX `Reduce*` over all elements; the empty reduction yields the identity of the operation
    (for Max/Min: the lowest/highest value of the output dtype). -/
def reduceAll (k : RedKind) (t : DT) (l : List Int) : Int :=
  match k with
  | .sum => sumList l
  | .prod => prodList l
  | .max => match l with
    | [] => t.lo
    | x :: xs => foldMax x xs
  | .min => match l with
    | [] => t.hi
    | x :: xs => foldMin x xs

/-- insertion of `(value, index)` in front of the first element that it must precede. -/
def insertBy (before : Int × Nat → Int × Nat → Bool) (p : Int × Nat) : List (Int × Nat) → List (Int × Nat)
  | [] => [p]
  | q :: qs => if before p q then p :: q :: qs else q :: insertBy before p qs
def sortBy (before : Int × Nat → Int × Nat → Bool) : List (Int × Nat) → List (Int × Nat)
  | [] => []
  | p :: ps => insertBy before p (sortBy before ps)

def enumFrom (i : Nat) : List Int → List (Int × Nat)
  | [] => []
  | x :: xs => (x, i) :: enumFrom (i + 1) xs

/-- ONNX `TopK` (sorted=1) by its specification: elements ordered by value (descending when
    `largest`), "given two equivalent values, the one with the lower index appears first". -/
def topkBefore (largest : Bool) (p q : Int × Nat) : Bool :=
  (if largest then decide (p.1 > q.1) else decide (p.1 < q.1)) || (p.1 == q.1 && decide (p.2 ≤ q.2))
def topk (largest : Bool) (k : Nat) (l : List Int) : List (Int × Nat) :=
  (sortBy (topkBefore largest) (enumFrom 0 l)).take k

/-- ONNX `MaxPool` on `[1,1,n]`, stride 1, floor mode: output `i` is the maximum of the input
    positions `i - padL … i - padL + kernel - 1` that exist (padding never wins). -/
def maxPool1 (kernel padL padR : Nat) (l : List Int) : Option (List Int) :=
  let n := l.length
  if kernel = 0 ∨ padL ≥ kernel ∨ padR ≥ kernel ∨ n = 0 ∨ n + padL + padR < kernel then none
  else some ((List.range (n + padL + padR - kernel + 1)).map fun i =>
    -- window = positions [i - padL, i - padL + kernel) ∩ [0, n); never empty under the guard
    match (l.take (i + kernel - padL)).drop (i - padL) with
    | [] => 0
    | x :: xs => foldMax x xs)

end Onnx

def Tn.scalar? (t : Tn) : Option Int :=
  match t.data with
  | [x] => some x
  | _ => none

/-- Semantics of one operator application; `t` = dtype of the output, `argTy` = dtype of the first
    input (ONNX Runtime implements `MaxPool` only for float / 8-bit tensors). -/
def GOp.eval (t argTy : DT) (op : GOp) (args : List Tn) : Option Tn :=
  match op, args with
  | .const v, [] => some v
  | .identity, [a] => some a
  | .cast toBool, [a] => some (if toBool then ⟨a.shape, a.data.map fun x => if x ≠ 0 then 1 else 0⟩ else a)
  | .neg, [a] => some ⟨a.shape, a.data.map fun x => -x⟩
  | .not, [a] => some ⟨a.shape, a.data.map fun x => if x ≠ 0 then 0 else 1⟩
  | .bin f, [a, b] => Onnx.bcast2 f.app a b
  | .where_, [c, x, y] => Onnx.where3 c x y
  | .shape, [a] => some ⟨[a.shape.length], a.shape.map fun (d : Nat) => (d : Int)⟩
  | .squeeze, [a, ax] => (Onnx.squeezeShape a.shape ax.data).map fun s => ⟨s, a.data⟩
  | .unsqueeze, [a, ax] => (Onnx.unsqueezeShape a.shape ax.data).map fun s => ⟨s, a.data⟩
  | .reshape, [a, s] =>
    if s.data.all (fun d => decide (d > 0)) ∧ prodNat (s.data.map Int.toNat) = a.data.length then
      some ⟨s.data.map Int.toNat, a.data⟩
    else none
  | .expand, [a, s] =>
    if s.data.all (fun d => decide (d > 0)) then
      (Onnx.bcastTo (s.data.map Int.toNat) a).map fun d => ⟨s.data.map Int.toNat, d⟩
    else none
  | .concat axis, [a] => if Onnx.normAxis a.shape.length axis |>.isSome then some a else none
  | .concat axis, a :: rest =>
    if axis = 0 ∧ (a :: rest).all (fun x => x.shape.length == 1) then
      some (Tn.vec ((a :: rest).foldr (fun x acc => x.data ++ acc) []))
    else none
  | .slice, a :: s :: e :: more =>
    let axesOk := match more with
      | [] => true
      | [ax] => ax.data == [0]
      | [ax, st] => ax.data == [0] && st.data == [1]
      | _ => false
    match a.shape, s.data, e.data with
    | [_], [s], [e] => if axesOk then some (Tn.vec (Onnx.slice1 a.data s e)) else none
    | _, _, _ => none
  | .pad, [a, p, v] =>
    match a.shape, p.data, v.data with
    | [_], [lo, hi], [v] => (Onnx.pad1 a.data lo hi v).map Tn.vec
    | _, _, _ => none
  | .range, [s, l, d] =>
    match s.data, l.data, d.data with
    | [s], [l], [d] => (Onnx.range s l d).map Tn.vec
    | _, _, _ => none
  | .gather axis, [a, i] =>
    match a.shape with
    | [_] => if axis = 0 then (Onnx.gather1 a.data i.data).map fun d => ⟨i.shape, d⟩ else none
    | _ => none
  | .gatherElements axis, [a, i] =>
    match a.shape, i.shape with
    | [_], [_] => if axis = 0 then (Onnx.gather1 a.data i.data).map fun d => ⟨i.shape, d⟩ else none
    | _, _ => none
  | .reduce k keep, a :: more =>
    let axesOk := match more with
      | [] => true
      | [ax] => ax.data == [0] || ax.data == [-1]
      | _ => false
    match a.shape with
    | [_] => if axesOk then some ⟨if keep then [1] else [], [Onnx.reduceAll k t a.data]⟩ else none
    | _ => none
  | .topk idx axis largest sorted, [a, k] =>
    match a.shape, k.data with
    | [n], [k] =>
      if (axis = 0 ∨ axis = -1) ∧ sorted ∧ 0 ≤ k ∧ k.toNat ≤ n then
        let r := Onnx.topk largest k.toNat a.data
        some (Tn.vec (if idx then r.map (fun p => (p.2 : Int)) else r.map (·.1)))
      else none
    | _, _ => none
  | .maxPool kernel strides pads, [a] =>
    match a.shape, kernel, strides, pads with
    | [1, 1, _], [k], [1], [pl, pr] =>
      if (argTy.isFloat ∨ argTy = .i8 ∨ argTy = .u8) ∧ 0 ≤ k ∧ 0 ≤ pl ∧ 0 ≤ pr then
        (Onnx.maxPool1 k.toNat pl.toNat pr.toNat a.data).map fun d => ⟨[1, 1, d.length], d⟩
      else none
    | _, _, _, _ => none
  | .cumsum ex rev, [a, ax] =>
    match a.shape with
    | [_] => if ax.data == [0] || ax.data == [-1] then some ⟨a.shape, Onnx.cumSum ex rev a.data⟩ else none
    | _ => none
  | _, _ => none

structure GNodeT where
  op : GOp
  ty : DT
  argTy : DT
  args : List Nat
  deriving Repr, DecidableEq

def getAll (env : List Tn) : List Nat → Option (List Tn)
  | [] => some []
  | i :: is =>
    match env[i]?, getAll env is with
    | some v, some vs => some (v :: vs)
    | _, _ => none

def evalGNode (env : List Tn) (n : GNodeT) : Option Tn :=
  match getAll env n.args with
  | some as => n.op.eval n.ty n.argTy as
  | none => none

/-- all values of the graph, in SSA order; `none` as soon as one node fails. -/
def evalGNodes : List Tn → List GNodeT → Option (List Tn)
  | env, [] => some env
  | env, n :: ns =>
    match evalGNode env n with
    | some v => evalGNodes (env ++ [v]) ns
    | none => none

structure GRecipe where
  nodes : List GNodeT
  outs : List Nat
  deriving Repr, DecidableEq

def GRecipe.eval (r : GRecipe) (ins : List Tn) : Option (List Tn) :=
  match evalGNodes ins r.nodes with
  | some env => getAll env r.outs
  | none => none

/-- index of the first failing node (for the driver). -/
def evalGTrace : List Tn → List GNodeT → List Tn × Bool
  | env, [] => (env, true)
  | env, n :: ns =>
    match evalGNode env n with
    | some v => evalGTrace (env ++ [v]) ns
    | none => (env, false)

/-! ### JAX side of the tensor-level programs -/
namespace Jax

def rev (l : List Int) : List Int := l.reverse
/-- `jnp.roll(x, k)`: element `i` moves to `(i + k) mod n`. -/
def roll (k : Int) (l : List Int) : List Int :=
  let n := l.length
  if n = 0 then l else
  let s := (k % (n : Int)).toNat
  l.drop (n - s) ++ l.take (n - s)
/-- `lax.pad(x, v, [(lo, hi, 0)])`: non-negative amounts add copies of `v`, negative ones crop. -/
def padEdge (l : List Int) (amount : Int) (v : Int) (front : Bool) : List Int :=
  if amount ≥ 0 then (if front then List.replicate amount.toNat v ++ l else l ++ List.replicate amount.toNat v)
  else (if front then l.drop (-amount).toNat else l.take (l.length - (-amount).toNat))
def pad (lo hi v : Int) (l : List Int) : List Int := padEdge (padEdge l lo v true) hi v false
def iota (n : Nat) : List Int := (List.range n).map fun (i : Nat) => (i : Int)
/-- `jnp.arange(start, stop, step)` for a positive step. -/
def arangeAux : Nat → Int → Int → Int → List Int
  | 0, _, _, _ => []
  | fuel + 1, cur, stop, step => if cur < stop then cur :: arangeAux fuel (cur + step) stop step else []
def arange (start stop step : Int) : List Int := arangeAux (stop - start).toNat start stop step

def maxList : List Int → Option Int
  | [] => none
  | x :: xs => match maxList xs with
    | none => some x
    | some m => some (if x < m then m else x)
def minList : List Int → Option Int
  | [] => none
  | x :: xs => match minList xs with
    | none => some x
    | some m => some (if m < x then m else x)
def sum : List Int → Int
  | [] => 0
  | x :: xs => x + sum xs
def prod : List Int → Int
  | [] => 1
  | x :: xs => x * prod xs
def all : List Int → Bool
  | [] => true
  | x :: xs => (x != 0) && all xs
def any : List Int → Bool
  | [] => false
  | x :: xs => (x != 0) || any xs

def scanl1 (f : Int → Int → Int) : Int → List Int → List Int
  | _, [] => []
  | acc, x :: xs => f acc x :: scanl1 f (f acc x) xs
/-- `lax.cummax / cummin(x, reverse)`: running extremum from the left (right when reversed). -/
def scan1 (f : Int → Int → Int) : List Int → List Int
  | [] => []
  | x :: xs => x :: scanl1 f x xs
def cumExt (f : Int → Int → Int) (reverse : Bool) (l : List Int) : List Int :=
  if reverse then (scan1 f l.reverse).reverse else scan1 f l
def cummax := cumExt (fun a x => if x > a then x else a)
def cummin := cumExt (fun a x => if x < a then x else a)

/-- `lax.dynamic_slice(x, (i,), (size,))` as the one-call program evaluates it: a negative start
    counts from the end, then the start is clamped so that the slice fits. -/
def dynamicSlice (size : Nat) (l : List Int) (i : Int) : List Int :=
  let n : Int := l.length
  let j := if i < 0 then i + n else i
  let s := if j < 0 then 0 else if j > n - size then n - size else j
  (l.drop s.toNat).take size
/-- `jnp.take(x, idx, mode="clip")`. -/
def takeClip (l : List Int) (idx : List Int) : List Int :=
  idx.map fun i => l.getD (if i < 0 then 0 else if i > (l.length : Int) - 1 then (l.length : Int) - 1 else i).toNat 0
/-- `jnp.take(x, idx, mode="wrap")`. -/
def takeWrap (l : List Int) (idx : List Int) : List Int :=
  idx.map fun i => l.getD (i % (l.length : Int)).toNat 0
/-- `x[idx]`: negative indices count from the end, then out-of-bounds indices are clamped. -/
def index (l : List Int) (idx : List Int) : List Int :=
  idx.map fun i =>
    let n : Int := l.length
    let j := if i < 0 then i + n else i
    l.getD (if j < 0 then 0 else if j > n - 1 then n - 1 else j).toNat 0

/-- stable insertion sort on the values (ascending; `desc`: descending), carrying the positions:
    an element is inserted in front of the first one that is strictly after it. -/
def stableBefore (desc : Bool) (p q : Int × Nat) : Bool :=
  if desc then decide (p.1 ≥ q.1) else decide (p.1 ≤ q.1)
def sortPairs (desc : Bool) (l : List Int) : List (Int × Nat) :=
  Onnx.sortBy (stableBefore desc) (Onnx.enumFrom 0 l)
def insertVal (x : Int) : List Int → List Int
  | [] => [x]
  | y :: ys => if x ≤ y then x :: y :: ys else y :: insertVal x ys
/-- `lax.sort(x)`. -/
def sort : List Int → List Int
  | [] => []
  | x :: xs => insertVal x (sort xs)
/-- `jnp.argsort(x)` (stable). -/
def argsort (l : List Int) : List Nat := (sortPairs false l).map (·.2)
/-- `lax.top_k(x, k)`: the k largest, descending, equal values in index order. -/
def topK (k : Nat) (l : List Int) : List (Int × Nat) := (sortPairs true l).take k

/-- `lax.cumprod(x, reverse)`. -/
def cumprod (reverse : Bool) (l : List Int) : List Int :=
  cumExt (fun a x => a * x) reverse l

end Jax

/-- The JAX side of every tensor-level catalogue entry by semantic key (+ static parameters);
    validated against eager JAX on every run through the driver. -/
def jaxSemT (key : String) (ps : List Int) (ins : List Tn) : Option (List Tn) :=
  match key, ps, ins with
  | "rev", [], [a] => some [Tn.vec (Jax.rev a.data)]
  | "roll", [k], [a] => some [Tn.vec (Jax.roll k a.data)]
  | "pad", [lo, hi, v], [a] => some [Tn.vec (Jax.pad lo hi v a.data)]
  | "addiota", [], [a] => some [Tn.vec (List.zipWith (· + ·) a.data (Jax.iota a.data.length))]
  | "addarange", [s, e, d], [a] => some [Tn.vec (List.zipWith (· + ·) a.data (Jax.arange s e d))]
  | "max", [], [a] => (Jax.maxList a.data).map fun m => [Tn.scalar m]
  | "min", [], [a] => (Jax.minList a.data).map fun m => [Tn.scalar m]
  | "sum", [], [a] => some [Tn.scalar (Jax.sum a.data)]
  | "prod", [], [a] => some [Tn.scalar (Jax.prod a.data)]
  | "all", [], [a] => some [Tn.scalar (if Jax.all a.data then 1 else 0)]
  | "any", [], [a] => some [Tn.scalar (if Jax.any a.data then 1 else 0)]
  | "cummax", [r], [a] => some [Tn.vec (Jax.cummax (r != 0) a.data)]
  | "cummin", [r], [a] => some [Tn.vec (Jax.cummin (r != 0) a.data)]
  | "cumprod", [r], [a] => some [Tn.vec (Jax.cumprod (r != 0) a.data)]
  | "dslice", [size], [a, i] =>
    match i.data with
    | [i] => some [Tn.vec (Jax.dynamicSlice size.toNat a.data i)]
    | _ => none
  | "takeclip", [], [a, i] => some [Tn.vec (Jax.takeClip a.data i.data)]
  | "takewrap", [], [a, i] => some [Tn.vec (Jax.takeWrap a.data i.data)]
  | "index", [], [a, i] => some [Tn.vec (Jax.index a.data i.data)]
  | "sort", [], [a] => some [Tn.vec (Jax.sort a.data)]
  | "argsort", [], [a] => some [Tn.vec ((Jax.argsort a.data).map fun (n : Nat) => (n : Int))]
  | "topk", [k], [a] =>
    let r := Jax.topK k.toNat a.data
    some [Tn.vec (r.map (·.1)), Tn.vec (r.map fun p => (p.2 : Int))]
  | _, _, _ => none

end J2O.C01
