/-
C03 — every export is a well-formed, loadable ONNX model: executable scope checker and the model
of the two `fresh_name` schemes (core Lean only; the driver imports this file).

Part 1.  `checkScopes : Model → Bool` walks the model tree once with an accumulator of visible
names.  The *specification* it is proved sound for (`WellScoped`, in `Props/C03.lean`) is stated
without any accumulator: for every scope reachable by a path, positional facts about that scope.

Part 2.  `renderB` / `renderC` are the name formats of `IRBuilder.fresh_name` (`f"{base}_{i}"`) and
`IRContext.fresh_name` (separator omitted when the base ends in `_` or `/`); `Counters` is the
per-context counter dictionary; `childBase` is what `make_subgraph_context` feeds to the child's
own `fresh_name` (`f"{prefix}/{base}"`).  Names are lists of characters.
-/
import J2O.Model.ModelTree

namespace J2O.C03
open J2O.MT

/-! ## Part 1: the scope checker -/

/-- no duplicates (executable) -/
def nodupB : List String → Bool
  | [] => true
  | x :: xs => !xs.contains x && nodupB xs

def disjointB (xs ys : List String) : Bool := xs.all (fun x => !ys.contains x)

mutual
/-- `outer` = names visible from enclosing scopes. -/
def checkGraph (outer : List String) : Graph → Bool
  | .mk inputs inits nodes outputs _ =>
    nodupB (inputs ++ inits) && disjointB (inputs ++ inits) outer
      && checkNodes (outer ++ (inputs ++ inits)) nodes
      && outputs.all (fun o => (inputs ++ inits ++ definedBy nodes).contains o)
/-- `vis` = everything visible before the first node of the list. -/
def checkNodes (vis : List String) : List Node → Bool
  | [] => true
  | n :: rest => checkNode vis n && checkNodes (vis ++ n.outs) rest
def checkNode (vis : List String) : Node → Bool
  | .mk _ _ ins outs _ bodies =>
    ins.all (fun x => x == "" || vis.contains x)
      && nodupB (outs.filter (· ≠ "")) && disjointB (outs.filter (· ≠ "")) vis
      && checkBodies vis bodies
def checkBodies (vis : List String) : List Graph → Bool
  | [] => true
  | b :: bs => checkGraph vis b && checkBodies vis bs
end

/-- Does `f` define the operator `(domain, op)`? -/
def defines (f : Func) (dom op : String) : Bool := f.domain == dom && f.name == op

/-- Per-node call discipline: the node's domain is imported in the enclosing scope list; a node
    outside the default domain must be a call of a defined function; whenever a definition with
    the node's (domain, op_type) exists, the arities agree. -/
def callOK (imports : List String) (funcs : List Func) (n : Node) : Bool :=
  imports.contains n.domain
    && (n.domain == "" || funcs.any (fun f => defines f n.domain n.op))
    && funcs.all (fun f => !defines f n.domain n.op
          || (f.inputs.length == n.ins.length && f.outputs.length == n.outsRaw.length))

def funcKeys (fs : List Func) : List (String × String) := fs.map (fun f => (f.domain, f.name))

def nodupKeys : List (String × String) → Bool
  | [] => true
  | k :: ks => !ks.contains k && nodupKeys ks

def importDomains (imps : List (String × Nat)) : List String := imps.map (·.1)

def checkFunc (m : Model) (f : Func) : Bool :=
  f.inits.isEmpty && (importDomains m.imports).contains f.domain
    && checkGraph [] f.asGraph
    && allNodes (callOK (importDomains f.imports) m.funcs) f.asGraph

/-- The executable checker. -/
def checkScopes (m : Model) : Bool :=
  checkGraph [] m.graph
    && allNodes (callOK (importDomains m.imports) m.funcs) m.graph
    && nodupKeys (funcKeys m.funcs)
    && m.funcs.all (checkFunc m)

/-- Diagnostic only (not used by any theorem): which conjunct fails first. -/
def explain (m : Model) : String :=
  if !checkGraph [] m.graph then "main-graph-scopes"
  else if !allNodes (callOK (importDomains m.imports) m.funcs) m.graph then "main-graph-calls"
  else if !nodupKeys (funcKeys m.funcs) then "duplicate-function-key"
  else match m.funcs.find? (fun f => !checkFunc m f) with
    | none => "ok"
    | some f =>
      if !f.inits.isEmpty then "function-owns-initializers " ++ f.name
      else if !(importDomains m.imports).contains f.domain then "function-domain-not-imported " ++ f.name
      else if !checkGraph [] f.asGraph then "function-scopes " ++ f.name
      else "function-calls " ++ f.name

/-! ## Part 2: the two `fresh_name` schemes -/

abbrev Str := List Char

def isDigit (c : Char) : Bool := '0' ≤ c && c ≤ '9'

def digitChar (d : Nat) : Char := Char.ofNat (48 + d)

/-- decimal digits, most significant first, by repeated division (fuel = the number itself) -/
def digitsAux : Nat → Nat → Str → Str
  | 0, _, acc => acc
  | fuel + 1, n, acc =>
    if n < 10 then digitChar n :: acc
    else digitsAux fuel (n / 10) (digitChar (n % 10) :: acc)

/-- Python's `str(i)` for a natural number -/
def digits (n : Nat) : Str := digitsAux (n + 1) n []

/-- `IRBuilder.fresh_name`: `f"{base}_{i}"` -/
def renderB (base : Str) (i : Nat) : Str := base ++ '_' :: digits i

def endsSep (base : Str) : Bool :=
  match base.getLast? with
  | some c => c == '_' || c == '/'
  | none => false

/-- `IRContext.fresh_name`: separator omitted when the base ends in `_` or `/` -/
def renderC (base : Str) (i : Nat) : Str :=
  if endsSep base then base ++ digits i else base ++ '_' :: digits i

/-- counter dictionary of one context (association list; missing = 0) -/
abbrev Counters := List (Str × Nat)

def Counters.get (c : Counters) (b : Str) : Nat :=
  match c with
  | [] => 0
  | (k, v) :: rest => if k = b then v else Counters.get rest b

def Counters.bump (c : Counters) (b : Str) : Counters :=
  match c with
  | [] => [(b, 1)]
  | (k, v) :: rest => if k = b then (k, v + 1) :: rest else (k, v) :: Counters.bump rest b

/-- one call of `fresh_name(base)` with format `render`: the minted name and the new counters -/
def fresh (render : Str → Nat → Str) (c : Counters) (b : Str) : Str × Counters :=
  (render b (c.get b), c.bump b)

/-- a whole call sequence on one counter dictionary: the minted names in call order -/
def mintAll (render : Str → Nat → Str) : Counters → List Str → List Str
  | _, [] => []
  | c, b :: bs => (fresh render c b).1 :: mintAll render (fresh render c b).2 bs

/-- what `make_subgraph_context` hands to the child's own `fresh_name`: `f"{prefix}/{base}"` -/
def childBase (pref base : Str) : Str := pref ++ '/' :: base

end J2O.C03
