/-
C18 — `allclose` is a sound oracle: executable model of the decision sequence of
`jax2onnx.user_interface._run_allclose` (core Lean only; `Rat` is core since 4.2x).

Values are exact: a scalar is a rational, NaN, +inf or -inf; an element is a pair
(re, im) (im = 0 for every non-complex dtype); a dtype is a *kind* (bool / integer with
signedness and width / binary float format / complex of a float format).

`decideAll` mirrors, step by step, what the code does NOW (after fix 61b87cb) with the list of
expected (JAX) outputs and the list of outputs ONNX Runtime returned:

  1. count check
  per output i (in order, first failure wins):
  2. NCHW→NHWC back-transpose of `got` when i ∈ outputs_as_nchw and rank 4
  3. complex repack: expected complex, got float, got.shape = expected.shape ++ [2]
       → a complex array assembled component-wise (`packed.real = got[...,0]; packed.imag = got[...,1]`),
         dtype result_type(got, complex64); NO cast to the expected dtype
  4. shape check
  5. `_comparison_operands(expected, got)`:
        same dtype                          → (expected, got)
        np.can_cast(got → expected, "safe") → (expected, got.astype(expected.dtype))
        otherwise                           → both .astype(np.result_type(expected, got))
     then, if expected or got is floating/complex: np.allclose(lhs, rhs, rtol, atol, equal_nan=True)
     else np.array_equal(lhs, rhs)

Before the fix, step 3 computed `got[...,0] + 1j*got[...,1]` (a non-finite imaginary part makes the
real part NaN) and cast to the expected dtype, and step 5 compared `got.astype(expected.dtype)`:
`decideAllOld`, kept for the regression theorems in Props/C18.lean.

`canCastSafe` / `resultKind` are numpy's `can_cast(…, "safe")` / `result_type` on kinds (validated
against numpy on the whole 14×14 dtype table on every run).  numpy calls int64/uint64 → float64
"safe" although it rounds above 2⁵³, and promotes int64 with uint64 or with any float to float64:
that residual is what `NoLossyCast` (Lemmas/C18.lean) still has to exclude.

`castEl` is numpy's `astype` on exact values (wrap for integer narrowing, truncation
float→int, `≠ 0` to bool, round-to-nearest-even / overflow to ±inf for float narrowing,
imaginary part dropped complex→real).  float→int of NaN/±inf/out-of-range values is
undefined behaviour in C (numpy returns platform specific numbers): the model answers
`unspecified` there and the harness does not compare verdicts for such cases.

`closeEl` is `np.isclose(x, y, rtol, atol, equal_nan=True)` on exact values:
  finite x, y :  |x − y| ≤ atol + rtol·|y|      (complex: modulus, written without √)
  otherwise   :  x == y (no NaN)  or  isnan x ∧ isnan y  (complex: NaN in either part)

`agreesB` is the executable form of the *specification* `Agrees` (Props/C18.lean): the same
comparison on the exact values ORT produced, **without any cast**.

The x64 part: `XP` programs / `xrun` model `_temporary_x64` (user_interface) and
`_force_jax_x64` (conversion_api) as a stack discipline over the one global flag.
-/
namespace J2O.C18

/-! ### values, kinds, tensors -/

inductive Sc where
  | fin (q : Rat)
  | nan
  | pinf
  | ninf
  deriving DecidableEq, Repr

structure El where
  re : Sc
  im : Sc
  deriving DecidableEq, Repr

/-- binary float format: precision incl. hidden bit, exponent of the smallest subnormal,
    exponent of the largest binade (f32 = ⟨24,-149,127⟩). -/
structure Fmt where
  p : Int
  emin : Int
  emax : Int
  deriving DecidableEq, Repr

inductive Kind where
  | bool
  | int (signed : Bool) (bits : Nat)
  | flt (f : Fmt)
  | cplx (f : Fmt)
  deriving DecidableEq, Repr

def f16 : Fmt := ⟨11, -24, 15⟩
def f32 : Fmt := ⟨24, -149, 127⟩
def f64 : Fmt := ⟨53, -1074, 1023⟩

structure Tn where
  kind : Kind
  shape : List Nat
  vals : List El
  deriving DecidableEq, Repr

def Kind.isFloating : Kind → Bool
  | .flt _ => true
  | .cplx _ => true
  | _ => false

def Kind.isComplex : Kind → Bool
  | .cplx _ => true
  | _ => false

def Kind.isRealFloat : Kind → Bool
  | .flt _ => true
  | _ => false

def Sc.isFin : Sc → Bool
  | .fin _ => true
  | _ => false

def Sc.isNan : Sc → Bool
  | .nan => true
  | _ => false

def El.isNan (x : El) : Bool := x.re.isNan || x.im.isNan

def zero : Sc := .fin 0
def El.ofRat (q : Rat) : El := ⟨.fin q, zero⟩

/-! ### numpy `astype` on exact values -/

def pow2 (k : Int) : Rat :=
  if 0 ≤ k then ((2 ^ k.toNat : Nat) : Rat) else mkRat 1 (2 ^ (-k).toNat)

/-- ⌊log₂ a⌋ for a > 0. -/
def ilog2 (a : Rat) : Int :=
  let e0 : Int := (Nat.log2 a.num.natAbs : Int) - (Nat.log2 a.den : Int)
  if pow2 e0 ≤ a then (if pow2 (e0 + 1) ≤ a then e0 + 1 else e0) else e0 - 1

/-- round half to even, x ≥ 0. -/
def roundHalfEven (x : Rat) : Int :=
  let f := x.floor
  let r := x - (f : Rat)
  if r < 1/2 then f else if 1/2 < r then f + 1 else if f % 2 = 0 then f else f + 1

/-- IEEE round-to-nearest-even of a rational into format `f` (overflow → ±inf;
    signed zeros are not distinguished). -/
def roundFmt (f : Fmt) (q : Rat) : Sc :=
  if q = 0 then .fin 0
  else
    let a := q.abs
    let e := ilog2 a
    let qe := max (e - f.p + 1) f.emin
    let m : Rat := (roundHalfEven (a / pow2 qe) : Rat) * pow2 qe
    if pow2 (f.emax + 1) ≤ m then (if q < 0 then .ninf else .pinf)
    else .fin (if q < 0 then -m else m)

def roundSc (f : Fmt) : Sc → Sc
  | .fin q => roundFmt f q
  | s => s

/-- two's complement wrap of an integer into `bits` bits. -/
def wrapInt (signed : Bool) (bits : Nat) (z : Int) : Int :=
  let m : Int := 2 ^ bits
  let r := z % m
  if signed && decide (2 ^ (bits - 1) ≤ r) then r - m else r

def inRange (signed : Bool) (bits : Nat) (z : Int) : Bool :=
  if signed then decide (-(2 ^ (bits - 1) : Int) ≤ z) && decide (z < 2 ^ (bits - 1))
  else decide (0 ≤ z) && decide (z < 2 ^ bits)

/-- truncation toward zero. -/
def truncQ (q : Rat) : Int := if 0 ≤ q then q.floor else q.ceil

def Sc.nonzero (s : Sc) : Bool := decide (s ≠ .fin 0)

/-- `value.astype(dst)` for a value of dtype `src`; `none` = C undefined behaviour. -/
def castEl (src dst : Kind) (v : El) : Option El :=
  if src = dst then some v
  else
    match dst with
    | .bool => some ⟨.fin (if v.re.nonzero || v.im.nonzero then 1 else 0), zero⟩
    | .int s b =>
      match v.re with
      | .fin q =>
        if src.isFloating then
          let t := truncQ q
          if inRange s b t then some ⟨.fin (t : Rat), zero⟩ else none
        else some ⟨.fin (wrapInt s b q.floor : Rat), zero⟩
      | _ => none
    | .flt f => some ⟨roundSc f v.re, zero⟩
    | .cplx f => some ⟨roundSc f v.re, roundSc f v.im⟩

def castList (src dst : Kind) : List El → Option (List El)
  | [] => some []
  | v :: vs =>
    match castEl src dst v, castList src dst vs with
    | some a, some as => some (a :: as)
    | _, _ => none

/-! ### numpy `isclose(x, y, rtol, atol, equal_nan=True)` on exact values -/

def sq (a : Rat) : Rat := a * a

/-- finite real parts: |x − y| ≤ atol + rtol·|y| -/
def closeReal (rtol atol x y : Rat) : Bool := decide ((x - y).abs ≤ atol + rtol * y.abs)

/-- finite complex: |x − y| ≤ atol + rtol·|y| with the complex modulus; with
    d² = |x−y|², n² = |y|², L = d² − atol² − rtol²·n², R = 2·atol·rtol (tolerances ≥ 0) this is
    L ≤ 0 ∨ L² ≤ R²·n². -/
def closeCplx (rtol atol xr xi yr yi : Rat) : Bool :=
  let d2 := sq (xr - yr) + sq (xi - yi)
  let n2 := sq yr + sq yi
  let l := d2 - sq atol - sq rtol * n2
  let r := 2 * atol * rtol
  decide (l ≤ 0) || decide (sq l ≤ sq r * n2)

def closeEl (rtol atol : Rat) (x y : El) : Bool :=
  match x.re, x.im, y.re, y.im with
  | .fin xr, .fin xi, .fin yr, .fin yi =>
    if xi = 0 ∧ yi = 0 then closeReal rtol atol xr yr else closeCplx rtol atol xr xi yr yi
  | _, _, _, _ => (x.isNan && y.isNan) || (!x.isNan && !y.isNan && decide (x = y))

def all2 (p : El → El → Bool) : List El → List El → Bool
  | [], [] => true
  | x :: xs, y :: ys => p x y && all2 p xs ys
  | _, _ => false

/-- `np.array_equal` on same-shape arrays: elementwise `==` (NaN ≠ NaN; never occurs for
    the integer/bool dtypes of this branch). -/
def eqEl (x y : El) : Bool := !x.isNan && !y.isNan && decide (x = y)

/-! ### layout and complex repack -/

/-- `np.transpose(got, [0,2,3,1])` on a row-major value list of shape [n,c,h,w]. -/
def nchwToNhwc (t : Tn) : Tn :=
  match t.shape with
  | [n, c, h, w] =>
    let arr := t.vals.toArray
    let idx : List Nat :=
      (List.range n).flatMap fun ni => (List.range h).flatMap fun hi =>
        (List.range w).flatMap fun wi => (List.range c).map fun ci =>
          ((ni * c + ci) * h + hi) * w + wi
    { t with shape := [n, h, w, c], vals := idx.map fun i => arr.getD i (El.ofRat 0) }
  | _ => t

/-- exact (re, im) pairing of the trailing axis of size 2 -/
def pairs : List El → List El
  | a :: b :: rest => ⟨a.re, b.re⟩ :: pairs rest
  | _ => []

/-- what `got[...,0] + 1j*got[...,1]` evaluates to in IEEE arithmetic: `1j*b` has real part
    `0*b`, which is NaN for b = ±inf or NaN, so a non-finite imaginary part turns the real part
    into NaN. -/
def repackPair (a b : Sc) : El := ⟨if b.isFin then a else .nan, b⟩

def pairsModel : List El → List El
  | a :: b :: rest => repackPair a.re b.re :: pairsModel rest
  | _ => []

/-- dtype of the repacked array: result_type(got, complex64) -/
def Kind.toCplx : Kind → Kind
  | .flt f => .cplx (if f.p ≤ 24 then f32 else f64)
  | k => k

structure Cfg where
  rtol : Rat
  atol : Rat
  outNchw : List Nat
  deriving Repr

def layout (cfg : Cfg) (i : Nat) (g : Tn) : Tn :=
  if cfg.outNchw.contains i && g.shape.length == 4 then nchwToNhwc g else g

def repackCond (e g : Tn) : Bool :=
  e.kind.isComplex && g.kind.isRealFloat && decide (g.shape = e.shape ++ [2])

/-- what ORT produced for output `i`, as the exact values the comparison is *about*:
    layout handling and (exact) complex repack, no cast. -/
def normExact (cfg : Cfg) (i : Nat) (e g : Tn) : Tn :=
  let g1 := layout cfg i g
  if repackCond e g1 then { kind := g1.kind.toCplx, shape := e.shape, vals := pairs g1.vals }
  else g1

/-- the array the code compares (before the cast): layout handling and the complex repack as
    the code computes it. Same kind and shape as `normExact`. -/
def normModel (cfg : Cfg) (i : Nat) (e g : Tn) : Tn :=
  let g1 := layout cfg i g
  if repackCond e g1 then { kind := g1.kind.toCplx, shape := e.shape, vals := pairsModel g1.vals }
  else g1

inductive Verdict where
  | isMatch
  | count
  | shape (i : Nat)
  | value (i : Nat)
  | nonfloat (i : Nat)
  | unspecified (i : Nat)
  deriving DecidableEq, Repr

/-! ### numpy's promotion rules on kinds -/

/-- the precision of the smallest float numpy considers able to hold an integer of that width -/
def intFloatP (bits : Nat) : Int := if bits ≤ 8 then 11 else if bits ≤ 16 then 24 else 53

def fmtOfP (p : Int) : Fmt := if p ≤ 11 then f16 else if p ≤ 24 then f32 else f64
def maxFmt (a b : Fmt) : Fmt := if a.p ≤ b.p then b else a

/-- `np.can_cast(src, dst, casting="safe")` -/
def canCastSafe : Kind → Kind → Bool
  | .bool, _ => true
  | .int ss sb, .int ds db =>
    if ss then ds && decide (sb ≤ db) else if ds then decide (sb < db) else decide (sb ≤ db)
  | .int _ sb, .flt f => decide (intFloatP sb ≤ f.p)
  | .int _ sb, .cplx f => decide (intFloatP sb ≤ f.p)
  | .flt s, .flt d => decide (s.p ≤ d.p)
  | .flt s, .cplx d => decide (s.p ≤ d.p)
  | .cplx s, .cplx d => decide (s.p ≤ d.p)
  | _, _ => false

/-- `np.result_type(a, b)` -/
def resultKind : Kind → Kind → Kind
  | .bool, k => k
  | k, .bool => k
  | .int s1 b1, .int s2 b2 =>
    if s1 = s2 then .int s1 (max b1 b2)
    else
      let sb := if s1 then b1 else b2      -- width of the signed one
      let ub := if s1 then b2 else b1      -- width of the unsigned one
      if ub < sb then .int true sb else if 2 * ub ≤ 64 then .int true (2 * ub) else .flt f64
  | .int _ b, .flt f => .flt (maxFmt (fmtOfP (intFloatP b)) f)
  | .flt f, .int _ b => .flt (maxFmt (fmtOfP (intFloatP b)) f)
  | .int _ b, .cplx f => .cplx (maxFmt (fmtOfP (intFloatP b)) f)
  | .cplx f, .int _ b => .cplx (maxFmt (fmtOfP (intFloatP b)) f)
  | .flt a, .flt b => .flt (maxFmt a b)
  | .flt a, .cplx b => .cplx (maxFmt a b)
  | .cplx a, .flt b => .cplx (maxFmt a b)
  | .cplx a, .cplx b => .cplx (maxFmt a b)

/-- `_comparison_operands(expected, got)`: (lhs, rhs) values; `none` = C-undefined cast (cannot
    happen for the promotions numpy chooses, kept for totality) -/
def operands (ek : Kind) (evals : List El) (gk : Kind) (gvals : List El) : Option (List El × List El) :=
  if gk = ek then some (evals, gvals)
  else if canCastSafe gk ek then (castList gk ek gvals).map fun r => (evals, r)
  else
    let c := resultKind ek gk
    match castList ek c evals, castList gk c gvals with
    | some l, some r => some (l, r)
    | _, _ => none

/-- the per-output decision of `_run_allclose` (steps 2–5). `none` = this output passes. -/
def decideOne (cfg : Cfg) (i : Nat) (e g : Tn) : Option Verdict :=
  let g2 := normExact cfg i e g
  if e.shape ≠ g2.shape then some (.shape i)
  else
    match operands e.kind e.vals g2.kind g2.vals with
    | none => some (.unspecified i)
    | some lr =>
      if e.kind.isFloating || g2.kind.isFloating then
        if all2 (closeEl cfg.rtol cfg.atol) lr.1 lr.2 then none else some (.value i)
      else
        if all2 eqEl lr.1 lr.2 then none else some (.nonfloat i)

def decideFrom (cfg : Cfg) : Nat → List Tn → List Tn → Verdict
  | _, [], _ => .isMatch
  | _, _, [] => .isMatch
  | i, e :: es, g :: gs =>
    match decideOne cfg i e g with
    | some v => v
    | none => decideFrom cfg (i + 1) es gs

def decideAll (cfg : Cfg) (es gs : List Tn) : Verdict :=
  if es.length ≠ gs.length then .count else decideFrom cfg 0 es gs

/-- REGRESSION ONLY: the per-output decision BEFORE fix 61b87cb (repack via `re + 1j*im`, then
    `got.astype(expected.dtype)` before the comparison) -/
def decideOneOld (cfg : Cfg) (i : Nat) (e g : Tn) : Option Verdict :=
  let g2 := normModel cfg i e g
  -- the repack branch casts to the expected dtype right away (`astype(expected.dtype)`),
  -- the comparison casts again (a no-op then); both are one `castList` here
  if e.shape ≠ g2.shape then some (.shape i)
  else
    match castList g2.kind e.kind g2.vals with
    | none => some (.unspecified i)
    | some gc =>
      if e.kind.isFloating || g2.kind.isFloating then
        if all2 (closeEl cfg.rtol cfg.atol) e.vals gc then none else some (.value i)
      else
        if all2 eqEl e.vals gc then none else some (.nonfloat i)

def decideFromOld (cfg : Cfg) : Nat → List Tn → List Tn → Verdict
  | _, [], _ => .isMatch
  | _, _, [] => .isMatch
  | i, e :: es, g :: gs =>
    match decideOneOld cfg i e g with
    | some v => v
    | none => decideFromOld cfg (i + 1) es gs

def decideAllOld (cfg : Cfg) (es gs : List Tn) : Verdict :=
  if es.length ≠ gs.length then .count else decideFromOld cfg 0 es gs

/-! ### executable specification (no cast) -/

def agreesOne (cfg : Cfg) (i : Nat) (e g : Tn) : Bool :=
  let g' := normExact cfg i e g
  decide (e.shape = g'.shape) && all2 (closeEl cfg.rtol cfg.atol) e.vals g'.vals

def agreesFrom (cfg : Cfg) : Nat → List Tn → List Tn → Bool
  | _, [], [] => true
  | i, e :: es, g :: gs => agreesOne cfg i e g && agreesFrom cfg (i + 1) es gs
  | _, _, _ => false

def agreesB (cfg : Cfg) (es gs : List Tn) : Bool := agreesFrom cfg 0 es gs

/-- the promotion of the two operands to one dtype changes no value of output `i`, on either side -/
def noLossyOne (cfg : Cfg) (i : Nat) (e g : Tn) : Bool :=
  let g' := normExact cfg i e g
  decide (operands e.kind e.vals g'.kind g'.vals = some (e.vals, g'.vals))

/-- REGRESSION ONLY: the hypothesis the pre-fix soundness theorem needed -/
def noLossyOneOld (cfg : Cfg) (i : Nat) (e g : Tn) : Bool :=
  let m := normModel cfg i e g
  decide (castList m.kind e.kind m.vals = some (normExact cfg i e g).vals)

def noLossyFrom (cfg : Cfg) : Nat → List Tn → List Tn → Bool
  | i, e :: es, g :: gs => noLossyOne cfg i e g && noLossyFrom cfg (i + 1) es gs
  | _, _, _ => true

def noLossyB (cfg : Cfg) (es gs : List Tn) : Bool := noLossyFrom cfg 0 es gs

/-! ### the x64 flag: `_temporary_x64` / `_force_jax_x64` as programs over one global flag -/

/-- how a piece of code is left: normally, by an `Exception`, or by a `BaseException` that is NOT an
    `Exception` (KeyboardInterrupt, SystemExit, GeneratorExit, pytest's outcome exceptions …) -/
inductive Exit where
  | normal
  | exc
  | base
  deriving DecidableEq, Repr

/-- A program over the global flag: `set b` = any code that calls
    `jax.config.update("jax_enable_x64", b)`, `raise` = any `Exception`, `raiseBase` = any
    `BaseException` outside `Exception`, `tmp en body` = `with _temporary_x64(en): body`,
    `force en body` = `with _force_jax_x64(en): body`, `catch body` = `try: body except Exception: …`
    (what `_run_allclose` puts around `fn(*args)`; it does NOT stop a `raiseBase`). -/
inductive XP where
  | skip
  | set (b : Bool)
  | raise
  | raiseBase
  | seq (a b : XP)
  | tmp (en : Bool) (body : XP)
  | force (en : Bool) (body : XP)
  | catch (body : XP)            -- try: body except Exception: pass
  deriving Repr

/-- (flag, exit) after running the program from `flag`. -/
def xrun : XP → Bool → Bool × Exit
  | .skip, f => (f, .normal)
  | .set b, _ => (b, .normal)
  | .raise, f => (f, .exc)
  | .raiseBase, f => (f, .base)
  | .seq a b, f =>
    let r := xrun a f
    if r.2 = .normal then xrun b r.1 else r
  | .tmp en body, f =>
    -- prev = flag; try: if en != prev: update(en); yield; finally: if flag != prev: update(prev)
    -- (`finally` runs for EVERY exit of the block)
    let prev := f
    let f1 := if en != prev then en else f
    let r := xrun body f1
    ((if r.1 != prev then prev else r.1), r.2)
  | .force en body, f =>
    -- previous = flag; if previous != target: update(target); try: yield;
    -- finally: if previous != target: update(previous)
    let prev := f
    let f1 := if prev != en then en else f
    let r := xrun body f1
    ((if prev != en then prev else r.1), r.2)
  | .catch body, f =>
    let r := xrun body f
    (r.1, if r.2 = .exc then .normal else r.2)

/-- COUNTER-MODEL (not the code): a `_temporary_x64` that restores on the normal path and in an
    `except Exception:` clause only.  Props/C18.lean proves it is not restoring. -/
def tmpExcOnly (en : Bool) (body : XP) (f : Bool) : Bool × Exit :=
  let f1 := if en != f then en else f
  let r := xrun body f1
  if r.2 = .base then r else ((if r.1 != f then f else r.1), r.2)

/-- replace the `n`-th atomic step (pre-order: skip / set / raise / raiseBase) of a program by
    `inj; step` (an interrupt arriving right before that step); `none` = already injected -/
def injectAt (inj : XP) : XP → Option Nat → XP × Option Nat
  | .seq a b, n =>
    let ra := injectAt inj a n
    let rb := injectAt inj b ra.2
    (.seq ra.1 rb.1, rb.2)
  | .tmp en b, n => let r := injectAt inj b n; (.tmp en r.1, r.2)
  | .force en b, n => let r := injectAt inj b n; (.force en r.1, r.2)
  | .catch b, n => let r := injectAt inj b n; (.catch r.1, r.2)
  | p, some 0 => (.seq inj p, none)
  | p, some (n + 1) => (p, some n)
  | p, none => (p, none)

/-! ### feed construction: `_build_ort_inputs` / `_to_numpy_input` -/

/-- one graph input as ONNX Runtime reports it: name and the numpy dtype `_to_numpy_input` maps
    the declared tensor type to (`none` = a type outside its table: value passed through as is) -/
structure InMeta where
  name : String
  kind : Option Kind
  deriving Repr

inductive FeedErr where
  | tooFew (name : String)      -- ValueError "Not enough positional inputs"
  | tooMany                      -- ValueError "Too many positional inputs"
  | undefinedCast (name : String)  -- C-undefined float→int cast: outside the model
  | complexPack (name : String)    -- complex value for a real input: (re, im) packing, outside the model
  deriving DecidableEq, Repr

/-- `_to_numpy_input(value, meta)`: `value.astype(declared dtype)` when the dtypes differ -/
def coerce (name : String) (k : Option Kind) (t : Tn) : Except FeedErr Tn :=
  match k with
  | none => .ok t
  | some k =>
    if t.kind = k then .ok t
    else if t.kind.isComplex && k.isRealFloat then .error (.complexPack name)
    else
      match castList t.kind k t.vals with
      | some v => .ok { t with kind := k, vals := v }
      | none => .error (.undefinedCast name)

def lookup (params : List (String × Tn)) (n : String) : Option Tn :=
  match params with
  | [] => none
  | (k, v) :: rest => if k = n then some v else lookup rest n

/-- `_build_ort_inputs(session, xs, params)`: walk the graph inputs in order; an input whose name is
    a key of `params` takes that value, any other input takes the NEXT positional value; too few /
    left-over positional values raise. -/
def bindFeeds : List InMeta → List Tn → List (String × Tn) → Except FeedErr (List (String × Tn))
  | [], [], _ => .ok []
  | [], _ :: _, _ => .error .tooMany
  | m :: ms, xs, params =>
    match lookup params m.name with
    | some v =>
      match coerce m.name m.kind v, bindFeeds ms xs params with
      | .ok c, .ok rest => .ok ((m.name, c) :: rest)
      | .error e, _ => .error e
      | _, .error e => .error e
    | none =>
      match xs with
      | [] => .error (.tooFew m.name)
      | x :: xs' =>
        match coerce m.name m.kind x, bindFeeds ms xs' params with
        | .ok c, .ok rest => .ok ((m.name, c) :: rest)
        | .error e, _ => .error e
        | _, .error e => .error e

/-- what `fn(*xs, **params)` receives, listed in graph-input order: the value `fn` gets for graph
    input `m` is `params[m.name]` when that keyword is given, else the next positional argument
    (this is the binding `to_onnx` established when it exported `fn`).  `none` when the counts differ. -/
def fnArgs : List InMeta → List Tn → List (String × Tn) → Option (List (String × Tn))
  | [], [], _ => some []
  | [], _ :: _, _ => none
  | m :: ms, xs, params =>
    match lookup params m.name with
    | some v => (fnArgs ms xs params).map fun r => (m.name, v) :: r
    | none =>
      match xs with
      | [] => none
      | x :: xs' => (fnArgs ms xs' params).map fun r => (m.name, x) :: r

end J2O.C18
