/-
C01 — exported model computes the same function as the JAX callable: executable models
(core Lean only; the drivers import this file).

Part (a)  jaxpr SSA evaluation, ONNX node-list evaluation, the dispatcher's contract
          (`EqnLowered`, `Lowered`) and the returned-value binding rule
          (`bindReturned`, mirror of `output_binding.bind_returned_lowering_values`).
Part (b)  the scalar operator vocabulary of ONNX used by the catalogue recipes (`Op`, `Node`,
          `Recipe`, `Recipe.eval`) with exact semantics over ℤ / Bool / ℚ, in two modes:
          `ideal` (mathematical integers, no wrap) and `fixed` (two's-complement wrap to the
          node's dtype = what ONNX Runtime computes), and the JAX-side semantics (`Jax.*`).
          Tensor-level operators (ArgMax/ArgMin, CumSum, OneHot) over lists.
The recipes themselves are regenerated from /repo on every run into `J2O.Gen.C01`.
-/
namespace J2O.C01

/-! ## (a) jaxpr evaluation -/

/-- An equation input: a variable or a literal. -/
inductive Atom (V : Type) where
  | var (x : Nat)
  | lit (c : V)

/-- One jaxpr equation.  `prim` carries the primitive *with its parameters* (nested closed
    jaxprs included — their meaning is part of `sem prim`, i.e. bodies may be abstract).
    `outs`: `none` is a `DropVar`. -/
structure Eqn (P V : Type) where
  prim : P
  ins : List (Atom V)
  outs : List (Option Nat)

/-- Environments are partial maps from variable / value names to values. -/
def Env (V : Type) := Nat → Option V

def Env.empty {V : Type} : Env V := fun _ => none

def Env.set {V : Type} (e : Env V) (x : Nat) (v : V) : Env V :=
  fun y => if y = x then some v else e y

def evalAtom {V : Type} (env : Env V) : Atom V → Option V
  | .var x => env x
  | .lit c => some c

def evalAtoms {V : Type} (env : Env V) : List (Atom V) → Option (List V)
  | [] => some []
  | a :: as =>
    match evalAtom env a, evalAtoms env as with
    | some v, some vs => some (v :: vs)
    | _, _ => none

/-- Bind the outputs of an equation; drop-vars consume a value without binding it. -/
def bindOuts {V : Type} (env : Env V) : List (Option Nat) → List V → Env V
  | some x :: os, v :: vs => bindOuts (env.set x v) os vs
  | none :: os, _ :: vs => bindOuts env os vs
  | _, _ => env

def evalEqn {P V : Type} (sem : P → List V → List V) (env : Env V) (e : Eqn P V) :
    Option (Env V) :=
  match evalAtoms env e.ins with
  | none => none
  | some vals =>
    let r := sem e.prim vals
    if r.length = e.outs.length then some (bindOuts env e.outs r) else none

def evalEqns {P V : Type} (sem : P → List V → List V) (env : Env V) :
    List (Eqn P V) → Option (Env V)
  | [] => some env
  | e :: es =>
    match evalEqn sem env e with
    | none => none
    | some env' => evalEqns sem env' es

structure Jaxpr (P V : Type) where
  constvars : List Nat
  invars : List Nat
  eqns : List (Eqn P V)
  outs : List (Atom V)

def bindVars {V : Type} (env : Env V) : List Nat → List V → Env V
  | x :: xs, v :: vs => bindVars (env.set x v) xs vs
  | _, _ => env

def evalJaxpr {P V : Type} (sem : P → List V → List V) (j : Jaxpr P V) (consts args : List V) :
    Option (List V) :=
  match evalEqns sem (bindVars (bindVars Env.empty j.constvars consts) j.invars args) j.eqns with
  | none => none
  | some env => evalAtoms env j.outs

/-! ### ONNX node lists -/

/-- An ONNX node: operator (with attributes), input value names, output value names.
    Initializers / `Constant` are nodes without inputs. -/
structure GNode (O : Type) where
  op : O
  ins : List Nat
  outs : List Nat

def lookupAll {V : Type} (g : Env V) : List Nat → Option (List V)
  | [] => some []
  | n :: ns =>
    match g n, lookupAll g ns with
    | some v, some vs => some (v :: vs)
    | _, _ => none

def runNode {O V : Type} (osem : O → List V → List V) (g : Env V) (n : GNode O) : Option (Env V) :=
  match lookupAll g n.ins with
  | none => none
  | some vals =>
    let r := osem n.op vals
    if r.length = n.outs.length then some (bindVars g n.outs r) else none

def runNodes {O V : Type} (osem : O → List V → List V) (g : Env V) : List (GNode O) → Option (Env V)
  | [] => some g
  | n :: ns =>
    match runNode osem g n with
    | none => none
    | some g' => runNodes osem g' ns

/-! ### The dispatcher's contract -/

/-- Every jaxpr variable with a value is bound (`var2val`) to a graph value holding that value. -/
def Agree {V : Type} (jenv g : Env V) (m : Nat → Option Nat) : Prop :=
  ∀ x a, jenv x = some a → ∃ n, m x = some n ∧ g n = some a

/-- `g'` keeps every value of `g` (SSA: emitted nodes only define fresh names). -/
def Extends {V : Type} (g g' : Env V) : Prop := ∀ n a, g n = some a → g' n = some a

/-- The input atoms of an equation, as seen by the plugin: a variable is read through
    `var2val` from the graph, a literal is its own value. -/
def AtomsBound {V : Type} (g : Env V) (m : Nat → Option Nat) : List (Atom V) → List V → Prop
  | [], [] => True
  | .var x :: as, v :: vs => (∃ n, m x = some n ∧ g n = some v) ∧ AtomsBound g m as vs
  | .lit c :: as, v :: vs => c = v ∧ AtomsBound g m as vs
  | _, _ => False

/-- All value names defined by a node list. -/
def outNames {O : Type} : List (GNode O) → List Nat
  | [] => []
  | n :: ns => n.outs ++ outNames ns

/-- ONNX graphs are in SSA form: the names a node list defines are pairwise distinct and not
    yet defined in the environment it is run from. -/
def FreshFor {O V : Type} (g : Env V) (nodes : List (GNode O)) : Prop :=
  (outNames nodes).Nodup ∧ ∀ n ∈ outNames nodes, g n = none

/-- **Per-equation hypothesis** of `dispatch_compositional`: the sub-graph `new` emitted by the
    plugin for equation `e` (bindings `m` before, `m'` after), run from any environment in which
    the equation's inputs are bound and `new`'s own names are still free, computes the primitive
    and binds every non-drop outvar to a value holding the corresponding result; the bindings of
    all other variables are left alone. -/
structure EqnLowered {P O V : Type} (sem : P → List V → List V) (osem : O → List V → List V)
    (e : Eqn P V) (m : Nat → Option Nat) (new : List (GNode O)) (m' : Nat → Option Nat) : Prop where
  computes : ∀ (g : Env V) (vals : List V), AtomsBound g m e.ins vals →
    (∀ n ∈ outNames new, g n = none) →
    ∃ g', runNodes osem g new = some g' ∧
      ∀ x a, bindOuts Env.empty e.outs (sem e.prim vals) x = some a →
        ∃ n, m' x = some n ∧ g' n = some a
  keeps : ∀ x, some x ∉ e.outs → m' x = m x

/-- What `lower_jaxpr_with_plugins` does: equations in order, each plugin appends its nodes to
    the one builder and updates `var2val`. -/
inductive Lowered {P O V : Type} (sem : P → List V → List V) (osem : O → List V → List V) :
    (Nat → Option Nat) → List (Eqn P V) → List (GNode O) → (Nat → Option Nat) → Prop where
  | nil (m) : Lowered sem osem m [] [] m
  | cons {m m1 m' e es new rest} :
      EqnLowered sem osem e m new m1 → Lowered sem osem m1 es rest m' →
      Lowered sem osem m (e :: es) (new ++ rest) m'

/-! ### `bind_returned_lowering_values` -/

/-- What the binding rule sees of one outvar. -/
structure OutVar where
  drop : Bool            -- `is_drop_var`
  needs : Bool           -- `_outvar_needs_binding`: unbound or bound to a disconnected value
  deriving Repr, DecidableEq

inductive BindResult (N : Type) where
  | unchanged                      -- nothing to do / nothing returned
  | bound (bs : List (Nat × N))    -- (outvar index, value) pairs passed to `bind_value_for_var`
  | error                          -- RuntimeError: arity mismatch
  deriving Repr, DecidableEq

def nonDropIdx (outs : List OutVar) : List Nat :=
  (List.range outs.length).filter fun i => !(outs.getD i ⟨true, false⟩).drop

def unboundIdx (outs : List OutVar) : List Nat :=
  (nonDropIdx outs).filter fun i => (outs.getD i ⟨true, false⟩).needs

/-- Mirror of `bind_returned_lowering_values` (`returned = none`: the plugin returned `None`). -/
def bindReturned {N : Type} (outs : List OutVar) (returned : Option (List N)) : BindResult N :=
  let nd := nonDropIdx outs
  let ub := unboundIdx outs
  if ub.isEmpty then .unchanged
  else match returned with
    | none => .unchanged
    | some vals =>
      if vals.length = nd.length then
        .bound ((nd.zip vals).filter fun p => (outs.getD p.1 ⟨true, false⟩).needs)
      else if vals.length = ub.length then .bound (ub.zip vals)
      else .error

/-! ## (b) scalar operator vocabulary -/

inductive DT where
  | bool | i8 | i16 | i32 | i64 | u8 | u16 | u32 | u64 | f32 | f64
  deriving DecidableEq, Repr

def DT.bits : DT → Nat
  | .bool => 1 | .i8 => 8 | .i16 => 16 | .i32 => 32 | .i64 => 64
  | .u8 => 8 | .u16 => 16 | .u32 => 32 | .u64 => 64 | .f32 => 32 | .f64 => 64

def DT.signed : DT → Bool
  | .i8 | .i16 | .i32 | .i64 => true
  | _ => false

def DT.isInt : DT → Bool
  | .i8 | .i16 | .i32 | .i64 | .u8 | .u16 | .u32 | .u64 => true
  | _ => false

def DT.isFloat : DT → Bool
  | .f32 | .f64 => true
  | _ => false

/-- Inclusive value range of an integer dtype. -/
def DT.lo (t : DT) : Int := if t.signed then -(2 ^ (t.bits - 1) : Int) else 0
def DT.hi (t : DT) : Int := if t.signed then (2 ^ (t.bits - 1) : Int) - 1 else (2 ^ t.bits : Int) - 1
def DT.inRange (t : DT) (x : Int) : Bool := decide (t.lo ≤ x) && decide (x ≤ t.hi)

/-- Two's-complement normalisation of an integer into dtype `t`. -/
def wrap (t : DT) (x : Int) : Int :=
  if t.isInt then
    let m : Int := 2 ^ t.bits
    let r := x % m
    if t.signed && decide (r ≥ 2 ^ (t.bits - 1)) then r - m else r
  else x

inductive Mode where
  | ideal   -- mathematical integers (the statement carries a no-overflow reading)
  | fixed   -- wrap to the dtype, as ONNX Runtime / XLA do
  deriving DecidableEq, Repr

def nrm (md : Mode) (t : DT) (x : Int) : Int :=
  match md with
  | .ideal => x
  | .fixed => wrap t x

inductive Val where
  | i (v : Int)
  | b (v : Bool)
  | q (v : Rat)
  | err
  deriving DecidableEq, Repr

/-- Bit pattern of `x` in dtype `t` as a natural number. -/
def toBits (t : DT) (x : Int) : Nat := (x % (2 ^ t.bits : Int)).toNat
def ofBits (t : DT) (n : Nat) : Int := wrap t (n : Int)

def ratFloor (x : Rat) : Int := x.floor
def ratCeil (x : Rat) : Int := -((-x).floor)
def ratTrunc (x : Rat) : Int := if x ≥ 0 then x.floor else -((-x).floor)

/-- ONNX `Round`: nearest integer, ties to the even one. -/
def roundHalfEven (x : Rat) : Int :=
  let f := x.floor
  let d := x - (f : Rat)
  if d < 1 / 2 then f else if d > 1 / 2 then f + 1 else if f % 2 = 0 then f else f + 1

/-- The candidate repair of `lax.round(AWAY_FROM_ZERO)` (notes/C01-round-fix.diff):
    `Sign(x) * Where(|x| - Floor|x| >= 0.5, Floor|x| + 1, Floor|x|)`. -/
def roundAwayFix (x : Rat) : Int :=
  let a := if x < 0 then -x else x
  let fl := a.floor
  (if x > 0 then 1 else if x < 0 then -1 else 0) * (if a - (fl : Rat) ≥ 1 / 2 then fl + 1 else fl)

def ratSign (x : Rat) : Rat := if x > 0 then 1 else if x < 0 then -1 else 0

def ratPowInt (x : Rat) (k : Int) : Rat := if k ≥ 0 then x ^ k.toNat else (x ^ (-k).toNat)⁻¹

inductive Op where
  | const (v : Val)
  | identity | neg | abs | sign | not | bitNot | floor | ceil | round
  | cast                      -- target = the node's dtype
  | add | sub | mul | div | mod (fmod : Bool) | pow | max | min
  | and | or | xor | bitAnd | bitOr | bitXor
  | shl | shr                 -- BitShift direction LEFT / RIGHT
  | eq | lt | le | gt | ge
  | where_ | clip
  | unknown (name : String)   -- an operator outside the vocabulary: evaluates to `err`
  deriving DecidableEq, Repr

/-- Core of the semantics of one ONNX operator application producing dtype `t`: the *ideal*
    result and whether a fixed-width evaluation normalises (wraps) that integer result into `t`.
    `argTy` is the dtype of the first data argument (needed by BitShift's type constraint). -/
def Op.core (t : DT) (argTy : DT) (op : Op) (args : List Val) : Val × Bool :=
  match op with
  | .const v =>
    match args with
    | [] => (v, false)
    | _ => (.err, false)
  | .identity =>
    match args with
    | [v] => (v, false)
    | _ => (.err, false)
  | .neg =>
    match args with
    | [.i x] => (.i (-x), true)
    | [.q x] => (.q (-x), false)
    | _ => (.err, false)
  | .abs =>
    match args with
    | [.i x] => (.i (if x < 0 then -x else x), true)
    | [.q x] => (.q (if x < 0 then -x else x), false)
    | _ => (.err, false)
  | .sign =>
    match args with
    | [.i x] => (.i (Int.sign x), false)
    | [.q x] => (.q (ratSign x), false)
    | _ => (.err, false)
  | .not =>
    match args with
    | [.b x] => (.b (!x), false)
    | _ => (.err, false)
  | .bitNot =>
    match args with
    | [.i x] => (.i (-x - 1), true)
    | _ => (.err, false)
  | .floor =>
    match args with
    | [.q x] => (.q (ratFloor x), false)
    | _ => (.err, false)
  | .ceil =>
    match args with
    | [.q x] => (.q (ratCeil x), false)
    | _ => (.err, false)
  | .round =>
    match args with
    | [.q x] => (.q (roundHalfEven x), false)
    | _ => (.err, false)
  | .cast =>
    match args with
    | [.b x] => if t = .bool then (.b x, false) else if t.isInt then (.i (if x then 1 else 0), false) else (.q (if x then 1 else 0), false)
    | [.i x] => if t = .bool then (.b (x != 0), false) else if t.isInt then (.i x, true) else (.q x, false)
    | [.q x] => if t = .bool then (.b (x != 0), false) else if t.isInt then (.i (ratTrunc x), true) else (.q x, false)
    | _ => (.err, false)
  | .add =>
    match args with
    | [.i x, .i y] => (.i (x + y), true)
    | [.q x, .q y] => (.q (x + y), false)
    | _ => (.err, false)
  | .sub =>
    match args with
    | [.i x, .i y] => (.i (x - y), true)
    | [.q x, .q y] => (.q (x - y), false)
    | _ => (.err, false)
  | .mul =>
    match args with
    | [.i x, .i y] => (.i (x * y), true)
    | [.q x, .q y] => (.q (x * y), false)
    | _ => (.err, false)
  | .div =>
    match args with
    | [.i x, .i y] => (.i (Int.tdiv x y), true)              -- truncates toward zero
    | [.q x, .q y] => (.q (x / y), false)
    | _ => (.err, false)
  | .mod true =>
    match args with
    | [.i x, .i y] => (.i (Int.tmod x y), false)        -- fmod=1: sign of the dividend
    | [.q x, .q y] => (.q (x - y * (ratTrunc (x / y) : Rat)), false)
    | _ => (.err, false)
  | .mod false =>
    match args with
    | [.i x, .i y] => (.i (Int.fmod x y), false)       -- fmod=0: sign of the divisor
    | _ => (.err, false)
  | .pow =>
    match args with
    | [.i x, .i k] => if k ≥ 0 then (.i (x ^ k.toNat), true) else (.err, false)
    | [.q x, .q k] => if k.den = 1 then (.q (ratPowInt x k.num), false) else (.err, false)
    | _ => (.err, false)
  | .max =>
    match args with
    | [.i x, .i y] => (.i (if x ≥ y then x else y), false)
    | [.q x, .q y] => (.q (if x ≥ y then x else y), false)
    | _ => (.err, false)
  | .min =>
    match args with
    | [.i x, .i y] => (.i (if x ≤ y then x else y), false)
    | [.q x, .q y] => (.q (if x ≤ y then x else y), false)
    | _ => (.err, false)
  | .and =>
    match args with
    | [.b x, .b y] => (.b (x && y), false)
    | _ => (.err, false)
  | .or =>
    match args with
    | [.b x, .b y] => (.b (x || y), false)
    | _ => (.err, false)
  | .xor =>
    match args with
    | [.b x, .b y] => (.b (x != y), false)
    | _ => (.err, false)
  | .bitAnd =>
    match args with
    | [.i x, .i y] => (.i (ofBits t (toBits t x &&& toBits t y)), false)
    | _ => (.err, false)
  | .bitOr =>
    match args with
    | [.i x, .i y] => (.i (ofBits t (toBits t x ||| toBits t y)), false)
    | _ => (.err, false)
  | .bitXor =>
    match args with
    | [.i x, .i y] => (.i (ofBits t (toBits t x ^^^ toBits t y)), false)
    | _ => (.err, false)
  | .shl =>
    match args with
    | [.i x, .i s] => if argTy.signed || s < 0 || x < 0 then (.err, false) else (.i (if s.toNat ≥ t.bits then 0 else x * 2 ^ s.toNat), true)
    | _ => (.err, false)
  | .shr =>
    match args with
    | [.i x, .i s] => if argTy.signed || s < 0 || x < 0 then (.err, false) else (.i (if s.toNat ≥ t.bits then 0 else x / 2 ^ s.toNat), false)
    | _ => (.err, false)
  | .eq =>
    match args with
    | [.i x, .i y] => (.b (x == y), false)
    | [.q x, .q y] => (.b (x == y), false)
    | [.b x, .b y] => (.b (x == y), false)
    | _ => (.err, false)
  | .lt =>
    match args with
    | [.i x, .i y] => (.b (decide (x < y)), false)
    | [.q x, .q y] => (.b (decide (x < y)), false)
    | _ => (.err, false)
  | .le =>
    match args with
    | [.i x, .i y] => (.b (decide (x ≤ y)), false)
    | [.q x, .q y] => (.b (decide (x ≤ y)), false)
    | _ => (.err, false)
  | .gt =>
    match args with
    | [.i x, .i y] => (.b (decide (x > y)), false)
    | [.q x, .q y] => (.b (decide (x > y)), false)
    | _ => (.err, false)
  | .ge =>
    match args with
    | [.i x, .i y] => (.b (decide (x ≥ y)), false)
    | [.q x, .q y] => (.b (decide (x ≥ y)), false)
    | _ => (.err, false)
  | .where_ =>
    match args with
    | [.b c, x, y] => (if c then x else y, false)
    | _ => (.err, false)
  | .clip =>
    match args with
    | [.i x, .i lo, .i hi] => (.i (let a := if x ≥ lo then x else lo; if a ≤ hi then a else hi), false)
    | [.q x, .q lo, .q hi] => (.q (let a := if x ≥ lo then x else lo; if a ≤ hi then a else hi), false)
    | _ => (.err, false)
  | .unknown _ => (.err, false)

/-- Apply the evaluation mode to a core result. -/
def finish (md : Mode) (t : DT) : Val × Bool → Val
  | (.i x, true) => .i (nrm md t x)
  | (v, _) => v

/-- Semantics of one ONNX operator application producing dtype `t`. -/
def Op.eval (md : Mode) (t : DT) (argTy : DT) (op : Op) (args : List Val) : Val :=
  finish md t (op.core t argTy args)

/-- A node of a recipe: operator, dtype of its output, dtype of its first argument, and the
    indices (into the value list: inputs first, then node outputs in order) of its arguments. -/
structure Node where
  op : Op
  ty : DT
  argTy : DT
  args : List Nat
  deriving Repr, DecidableEq

def getV (env : List Val) (i : Nat) : Val := env.getD i .err

def evalNode (md : Mode) (env : List Val) (n : Node) : Val :=
  n.op.eval md n.ty n.argTy (n.args.map (getV env))

def evalNodes (md : Mode) : List Val → List Node → List Val
  | env, [] => env
  | env, n :: ns => evalNodes md (env ++ [evalNode md env n]) ns

/-- The ONNX sub-graph a one-primitive program lowers to (elementwise; one scalar lane). -/
structure Recipe where
  inputs : List DT
  nodes : List Node
  out : Nat
  deriving Repr, DecidableEq

def Recipe.eval (md : Mode) (r : Recipe) (ins : List Val) : Val :=
  getV (evalNodes md ins r.nodes) r.out

/-- An integer value lies inside dtype `t` (other values: no constraint). -/
def okVal (t : DT) : Val → Bool
  | .i x => if t.isInt then t.inRange x else true
  | _ => true

/-- All intermediate integer results (ideal arithmetic) stay inside their node's dtype. -/
def noOverflow : List Val → List Node → Bool
  | _, [] => true
  | env, n :: ns =>
    let v := evalNode .ideal env n
    okVal n.ty v && noOverflow (env ++ [v]) ns

/-! ### JAX-side semantics (`lax` reference semantics over exact domains) -/
namespace Jax

def div (x y : Int) : Int := Int.tdiv x y                 -- lax.div: rounds toward zero
def rem (x y : Int) : Int := Int.tmod x y                 -- lax.rem: sign of the dividend
def floorDivide (x y : Int) : Int := Int.fdiv x y         -- jnp.floor_divide / Python //
def pyMod (x y : Int) : Int := Int.fmod x y               -- jnp.mod / jnp.remainder: sign of divisor
def sign (x : Int) : Int := if x > 0 then 1 else if x < 0 then -1 else 0
def abs (x : Int) : Int := if x < 0 then -x else x
def max (x y : Int) : Int := if x < y then y else x
def min (x y : Int) : Int := if y < x then y else x
/-- `lax.clamp(lo, x, hi)` = `min(max(x, lo), hi)`. -/
def clamp (lo x hi : Int) : Int := min (max x lo) hi
def clampQ (lo x hi : Rat) : Rat :=
  let a := if x < lo then lo else x
  if hi < a then hi else a
def integerPow (x : Int) (k : Nat) : Int := x ^ k
/-- `lax.select_n(which, *cases)`: `cases[which]`. -/
def selectN (which : Nat) (cases : List Int) : Int := cases.getD which 0

inductive RoundingMethod where
  | awayFromZero | toNearestEven
  deriving DecidableEq, Repr

/-- `lax.round`: AWAY_FROM_ZERO (the default of `lax.round`) rounds ties away from zero,
    TO_NEAREST_EVEN (what `jnp.round` uses) to the even neighbour. -/
def round (rm : RoundingMethod) (x : Rat) : Int :=
  match rm with
  | .awayFromZero => if x ≥ 0 then (x + 1 / 2).floor else -((-x + 1 / 2).floor)
  | .toNearestEven =>
    let r := (x + 1 / 2).floor
    if (x + 1 / 2 == (r : Rat)) && (r % 2 != 0) then r - 1 else r

def floor (x : Rat) : Int := x.floor
def ceil (x : Rat) : Int := -((-x).floor)
/-- `convert_element_type` float → integer: rounds toward zero (in-range values). -/
def f2i (x : Rat) : Int := if x ≥ 0 then x.floor else -((-x).floor)
def toBool (x : Int) : Bool := x != 0
def toBoolQ (x : Rat) : Bool := x != 0

/-- Shifts on a `bits`-wide integer given by its bit pattern `u` (0 ≤ u < 2^bits); the shift
    amount is read as an unsigned number, amounts ≥ width give 0 (logical) / sign fill. -/
def shiftLeft (bits : Nat) (u s : Nat) : Nat := if s ≥ bits then 0 else (u * 2 ^ s) % 2 ^ bits
def shiftRightLogical (bits : Nat) (u s : Nat) : Nat := if s ≥ bits then 0 else u / 2 ^ s
def shiftRightArithmetic (bits : Nat) (u s : Nat) : Nat :=
  let neg := decide (u ≥ 2 ^ (bits - 1))
  if s ≥ bits then (if neg then 2 ^ bits - 1 else 0)
  else if neg then (u / 2 ^ s) ||| ((2 ^ bits - 1) - (2 ^ (bits - s) - 1)) else u / 2 ^ s

def popcountNat : Nat → Nat → Nat
  | 0, _ => 0
  | fuel + 1, n => if n = 0 then 0 else n % 2 + popcountNat fuel (n / 2)
def populationCount (bits : Nat) (u : Nat) : Nat := popcountNat bits u
/-- Leading zeros of the `bits`-wide pattern `u`. -/
def clzAux : Nat → Nat → Nat → Nat
  | 0, _, _ => 0
  | k + 1, bits, u => if u / 2 ^ k % 2 = 1 then 0 else 1 + clzAux k bits u
def clz (bits : Nat) (u : Nat) : Nat := clzAux bits bits u

/-- Index of the first maximal element (JAX's arg-reductions break ties toward the lower
    index); `none` on the empty list. -/
def argBest (better : Int → Int → Bool) : List Int → Option Nat
  | [] => none
  | x :: xs =>
    match argBest better xs with
    | none => some 0
    | some j => if better (xs.getD j 0) x then some (j + 1) else some 0
def argmax (l : List Int) : Option Nat := argBest (fun cand cur => decide (cand > cur)) l
def argmin (l : List Int) : Option Nat := argBest (fun cand cur => decide (cand < cur)) l

def cumsumFwd : Int → List Int → List Int
  | _, [] => []
  | acc, x :: xs => (acc + x) :: cumsumFwd (acc + x) xs
/-- `lax.cumsum(x, reverse=r)`: `out[i] = Σ_{j ≤ i} x[j]`, resp. `Σ_{j ≥ i} x[j]`. -/
def cumsum (reverse : Bool) (l : List Int) : List Int :=
  if reverse then (cumsumFwd 0 l.reverse).reverse else cumsumFwd 0 l

/-- `jax.nn.one_hot(i, depth)`: `i == arange(depth)`; every index outside `[0, depth)` — the
    negative ones included — gives the zero vector. -/
def oneHot (depth : Nat) (i : Int) : List Bool := (List.range depth).map fun (k : Nat) => decide ((k : Int) = i)

end Jax

/-! ### Tensor-level ONNX operators -/
namespace Onnx

/-- ONNX `ArgMax`/`ArgMin` along an axis of length `l.length`: a left-to-right scan keeping the
    running best; `selectLast` makes later equal elements win. -/
def argScan (better : Int → Int → Bool) (selectLast : Bool) : List Int → Nat → Int → Nat → Nat
  | [], _, _, bi => bi
  | x :: xs, i, bv, bi =>
    if better x bv || (selectLast && x == bv) then argScan better selectLast xs (i + 1) x i
    else argScan better selectLast xs (i + 1) bv bi
def argMax (selectLast : Bool) : List Int → Option Nat
  | [] => none
  | x :: xs => some (argScan (fun a b => decide (a > b)) selectLast xs 1 x 0)
def argMin (selectLast : Bool) : List Int → Option Nat
  | [] => none
  | x :: xs => some (argScan (fun a b => decide (a < b)) selectLast xs 1 x 0)

def sumList : List Int → Int
  | [] => 0
  | x :: xs => x + sumList xs
/-- ONNX `CumSum(exclusive, reverse)`, by its specification: output `i` is the sum of the inputs
    at positions `≤ i` (`< i` when exclusive); with `reverse` positions `≥ i` (`> i`). -/
def cumSum (exclusive reverse : Bool) (l : List Int) : List Int :=
  (List.range l.length).map fun i =>
    if reverse then sumList (l.drop (if exclusive then i + 1 else i))
    else sumList (l.take (if exclusive then i else i + 1))

/-- ONNX `OneHot(indices, depth, [off, on])`: negative indices in `[-depth, -1]` count from the
    end; anything else out of range gives the all-`off` vector. -/
def oneHot (depth : Nat) (i : Int) : List Bool :=
  let j := if i < 0 then i + depth else i
  (List.range depth).map fun (k : Nat) => decide ((k : Int) = j)

end Onnx


/-! ### Tensor-level recipes (attributes that matter, as regenerated from /repo) -/

structure TNode where
  op : String
  attrs : List (String × Int)
  deriving DecidableEq, Repr

def TNode.attr (n : TNode) (k : String) (dflt : Int) : Int :=
  match n.attrs.find? (fun p => p.1 == k) with
  | some p => p.2
  | none => dflt

/-- The node list a one-primitive tensor-level program lowers to (shape plumbing removed). -/
structure TRecipe where
  nodes : List TNode
  deriving DecidableEq, Repr

/-- `[ArgMax/ArgMin {select_last_index}, Cast]` (or without the Cast) along the reduced axis. -/
def TRecipe.evalArg (r : TRecipe) (l : List Int) : Option Nat :=
  match r.nodes with
  | [n] | [n, ⟨"Cast", _⟩] =>
    if n.op = "ArgMax" then Onnx.argMax (n.attr "select_last_index" 0 != 0) l
    else if n.op = "ArgMin" then Onnx.argMin (n.attr "select_last_index" 0 != 0) l
    else none
  | _ => none

/-- `[CumSum {exclusive, reverse}]` along the scanned axis. -/
def TRecipe.evalCum (r : TRecipe) (l : List Int) : Option (List Int) :=
  match r.nodes with
  | [n] =>
    if n.op = "CumSum" then some (Onnx.cumSum (n.attr "exclusive" 0 != 0) (n.attr "reverse" 0 != 0) l)
    else none
  | _ => none

/-- `[Cast, OneHot {depth}]` with values `[off, on] = [0, 1]` on the last axis. -/
def TRecipe.evalOneHot (r : TRecipe) (i : Int) : Option (List Bool) :=
  match r.nodes with
  | [n] | [⟨"Cast", _⟩, n] =>
    if n.op = "OneHot" ∧ n.attr "off" 0 = 0 ∧ n.attr "on" 1 = 1 ∧ n.attr "axis" (-1) = -1
      ∧ n.attr "depth" 0 ≥ 0 then
      some (Onnx.oneHot (n.attr "depth" 0).toNat i)
    else none
  | _ => none


/-! ### The JAX side of every catalogue entry, by semantic key

`jaxSem key t args`: what eager JAX computes for the one-primitive program of the catalogue
entry with semantic key `key` on dtype `t` (integers as mathematical integers; for the keys where
fixed width is the point the result is normalised into `t`).  Validated against eager JAX on
generated exact inputs on every run (harness/props/c01.py, through drivers/C01.lean). -/

def bitsOp (t : DT) (f : Nat → Nat → Nat) (x y : Int) : Val := .i (ofBits t (f (toBits t x) (toBits t y)))

def jaxSem (key : String) (t : DT) (args : List Val) : Val :=
  match key, args with
  | "div", [.i x, .i y] => .i (Jax.div x y)
  | "rem", [.i x, .i y] => .i (Jax.rem x y)
  | "floor_divide", [.i x, .i y] => .i (Jax.floorDivide x y)
  | "mod", [.i x, .i y] => .i (Jax.pyMod x y)
  | "sign", [.i x] => .i (Jax.sign x)
  | "abs", [.i x] => .i (Jax.abs x)
  | "neg", [.i x] => .i (-x)
  | "max", [.i x, .i y] => .i (Jax.max x y)
  | "min", [.i x, .i y] => .i (Jax.min x y)
  | "clamp", [.i lo, .i x, .i hi] => .i (Jax.clamp lo x hi)
  | "clip", [.i x, .i lo, .i hi] => .i (Jax.clamp lo x hi)
  | "ipow0", [.i x] => .i (Jax.integerPow x 0)
  | "ipow1", [.i x] => .i (Jax.integerPow x 1)
  | "ipow2", [.i x] => .i (Jax.integerPow x 2)
  | "ipow3", [.i x] => .i (Jax.integerPow x 3)
  | "ipow4", [.i x] => .i (Jax.integerPow x 4)
  | "eq", [.i x, .i y] => .b (decide (x = y))
  | "ne", [.i x, .i y] => .b (decide (x ≠ y))
  | "lt", [.i x, .i y] => .b (decide (x < y))
  | "le", [.i x, .i y] => .b (decide (x ≤ y))
  | "gt", [.i x, .i y] => .b (decide (y < x))
  | "ge", [.i x, .i y] => .b (decide (y ≤ x))
  | "select_n2", [.b p, .i a, .i b] => .i (Jax.selectN (if p then 1 else 0) [a, b])
  | "select_n3", [.i p, .i a, .i b, .i c] => if 0 ≤ p ∧ p < 3 then .i (Jax.selectN p.toNat [a, b, c]) else .err
  | "select", [.b p, .i a, .i b] => .i (if p then a else b)
  | "not", [.b x] => .b (!x)
  | "and", [.b x, .b y] => .b (x && y)
  | "or", [.b x, .b y] => .b (x || y)
  | "xor", [.b x, .b y] => .b (x != y)
  | "to_bool", [.i x] => .b (Jax.toBool x)
  | "to_bool", [.q x] => .b (Jax.toBoolQ x)
  | "bool_to_int", [.b x] => .i (if x then 1 else 0)
  | "f2i", [.q x] => .i (Jax.f2i x)
  | "i2i", [.i x] => .i (wrap t x)
  | "round_even", [.q x] => .q (Jax.round .toNearestEven x)
  | "round_away", [.q x] => .q (Jax.round .awayFromZero x)
  | "floor", [.q x] => .q (Jax.floor x)
  | "ceil", [.q x] => .q (Jax.ceil x)
  | "sign", [.q x] => .q (if x > 0 then 1 else if x < 0 then -1 else 0)
  | "abs", [.q x] => .q (if x < 0 then -x else x)
  | "neg", [.q x] => .q (-x)
  | "max", [.q x, .q y] => .q (if x < y then y else x)
  | "min", [.q x, .q y] => .q (if y < x then y else x)
  | "clamp", [.q lo, .q x, .q hi] => .q (Jax.clampQ lo x hi)
  | "rem", [.q x, .q y] => .q (x - y * (Jax.f2i (x / y) : Rat))
  -- fixed width is the point: arguments / results are values of dtype `t`
  | "bnot", [.i x] => .i (ofBits t (2 ^ t.bits - 1 - toBits t x))
  | "band", [.i x, .i y] => bitsOp t (· &&& ·) x y
  | "bor", [.i x, .i y] => bitsOp t (· ||| ·) x y
  | "bxor", [.i x, .i y] => bitsOp t (· ^^^ ·) x y
  | "shl", [.i x, .i s] => bitsOp t (Jax.shiftLeft t.bits) x s
  | "shrl", [.i x, .i s] => bitsOp t (Jax.shiftRightLogical t.bits) x s
  | "shra", [.i x, .i s] => bitsOp t (Jax.shiftRightArithmetic t.bits) x s
  | "popcnt", [.i x] => .i (Jax.populationCount t.bits (toBits t x))
  | "clz", [.i x] => .i (Jax.clz t.bits (toBits t x))
  | "wneg", [.i x] => .i (wrap t (-x))
  | "wabs", [.i x] => .i (wrap t (Jax.abs x))
  | _, _ => .err

end J2O.C01
