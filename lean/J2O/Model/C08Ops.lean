/-
C08 — extended operator vocabulary of the annotation checker (core Lean only).

The run's histogram of operators that the small vocabulary of `Model/C08.lean` skipped is headed by
Pow, Concat, Reshape, Cast, Gather, Shape, Constant, ReduceSum, Unsqueeze, comparisons, Transpose,
Expand, Where, Squeeze.  `xKind` classifies a node of these operators (by operator name, integer
attributes and — for shape operands — the integer payload of constant inputs), `inferDt` / `inferDims`
compute the output annotation implied by the input annotations, `nodeConsistentX` accepts a declared
output annotation that is implied (`annotWeakerB`-style: each dim kept or forgotten).

Attribute VALUES reach the model through the node's attribute list: the harness (c08.py, only for the
`consistent` request) writes integer attributes as `name=v` / `name=v1,v2,…`, the integer payload of a
constant input number i as `in<i>=v1,…`, and the element type / shape of a `Constant` node's tensor as
`vdtype=…` / `vshape=…`.

`callSiteConsistent`: the checker for ONE call site of a model-local function — the formals' declared
annotations must follow from the call site's actual argument annotations, and the body must be
consistent.
-/
import J2O.Model.C08

namespace J2O.C08
open J2O.MT

def BOOL : Nat := 9
def INT64 : Nat := 7

/-! ## attribute values -/

def parseInts (s : String) : Option (List Int) :=
  if s.isEmpty then some [] else (s.splitOn ",").mapM String.toInt?

def intsAttr (n : Node) (k : String) : Option (List Int) :=
  match n.attrs.find? (fun a => a.startsWith (k ++ "=")) with
  | none => none
  | some a => parseInts ((a.drop (k.length + 1)).toString)

def intAttr (n : Node) (k : String) : Option Int :=
  match intsAttr n k with
  | some [v] => some v
  | _ => none

def hasAttr (n : Node) (k : String) : Bool :=
  n.attrs.any (fun a => a == k || a.startsWith (k ++ "="))

/-- strictly positive entries, as naturals -/
def posNats : List Int → Option (List Nat)
  | [] => some []
  | v :: vs => if 0 < v then (match posNats vs with | some r => some (v.toNat :: r) | none => none) else none

def nonnegNats : List Int → Option (List Nat)
  | [] => some []
  | v :: vs => if 0 ≤ v then (match nonnegNats vs with | some r => some (v.toNat :: r) | none => none) else none

/-- axis `a` (possibly negative) against rank `r` -/
def normAxis (a : Int) (r : Nat) : Option Nat :=
  if 0 ≤ a then (if a.toNat < r then some a.toNat else none)
  else (if (-a).toNat ≤ r then some (r - (-a).toNat) else none)

/-! ## kinds -/

inductive XKind where
  /-- numpy broadcast of ALL inputs; element type of input `k` -/
  | bcastT (k : Nat)
  /-- numpy broadcast of all inputs; fixed element type -/
  | bcastFixed (d : Nat)
  /-- shape of input 0; fixed element type -/
  | cast (d : Nat)
  /-- `Shape` without start/end: INT64 vector of length rank(input 0) -/
  | shapeOf
  | transpose (perm : List Nat)
  /-- `Expand` with a constant target -/
  | expand (target : List Nat)
  /-- `Reshape` with a constant target whose entries are all positive (no 0 / -1) -/
  | reshapeTo (target : List Nat)
  /-- `Constant`: element type and shape of the attribute tensor -/
  | const (d : Nat) (shape : List Nat)
  | gather (axis : Int)
  /-- `Unsqueeze` / `Squeeze` with ONE constant axis -/
  | unsqueeze1 (axis : Int)
  | squeeze1 (axis : Int)
  /-- `ReduceX` over ONE constant axis -/
  | reduce1 (axis : Int) (keep : Bool)
  /-- `Concat` along `axis`: shape of input 0 with that extent replaced by the sum over all inputs -/
  | concat (axis : Int)
  | none
  deriving Repr, DecidableEq

def bcastT0Ops : List String := ["Pow", "And", "Or", "Xor", "BitwiseAnd", "BitwiseOr", "BitwiseXor", "Mod", "PRelu"]
def compareOps : List String := ["Less", "Greater", "Equal", "LessOrEqual", "GreaterOrEqual"]
def reduceOps : List String :=
  ["ReduceSum", "ReduceMax", "ReduceMin", "ReduceMean", "ReduceProd", "ReduceSumSquare", "ReduceL1", "ReduceL2",
   "ReduceLogSum", "ReduceLogSumExp"]

/-- constant payload of input number `i` (written by the harness as `in<i>=…`) -/
def constIn (n : Node) (i : Nat) : Option (List Int) := intsAttr n ("in" ++ toString i)

/-- classification from the operator name, the number of inputs and the attribute readers
    (`ints k` = integer payload of attribute / constant-input entry `k`, `has k` = attribute present) -/
def xKindOf (op : String) (nIns : Nat) (ints : String → Option (List Int)) (has : String → Bool) : XKind :=
  let int1 (k : String) : Option Int := match ints k with | some [v] => some v | _ => none
  if bcastT0Ops.contains op then (if nIns == 2 then .bcastT 0 else .none)
  else if compareOps.contains op then (if nIns == 2 then .bcastFixed BOOL else .none)
  else if op == "Where" then (if nIns == 3 then .bcastT 1 else .none)
  else if op == "Cast" then
    (match int1 "to", nIns with
     | some d, 1 => if 0 < d then .cast d.toNat else .none
     | _, _ => .none)
  else if op == "Shape" then
    (if nIns == 1 && !has "start" && !has "end" then .shapeOf else .none)
  else if op == "Transpose" then
    (match ints "perm", nIns with
     | some p, 1 => (match nonnegNats p with | some q => .transpose q | none => .none)
     | _, _ => .none)
  else if op == "Expand" then
    (match ints "in1", nIns with
     | some t, 2 => (match posNats t with | some q => .expand q | none => .none)
     | _, _ => .none)
  else if op == "Reshape" then
    (match ints "in1", nIns with
     | some t, 2 => (match posNats t with | some q => .reshapeTo q | none => .none)
     | _, _ => .none)
  else if op == "Constant" then
    (match int1 "vdtype", ints "vshape" with
     | some d, some s => (match nonnegNats s with | some q => if 0 < d then .const d.toNat q else .none | none => .none)
     | _, _ => .none)
  else if op == "Gather" then
    (if nIns == 2 then .gather ((int1 "axis").getD 0) else .none)
  else if op == "Concat" then
    (match int1 "axis" with
     | some a => if 1 ≤ nIns then .concat a else .none
     | none => .none)
  else if op == "Unsqueeze" then
    (match ints "in1", nIns with
     | some [a], 2 => .unsqueeze1 a
     | _, _ => .none)
  else if op == "Squeeze" then
    (match ints "in1", nIns with
     | some [a], 2 => .squeeze1 a
     | _, _ => .none)
  else if reduceOps.contains op then
    (let keep := (int1 "keepdims").getD 1 != 0
     match ints "axes", ints "in1", nIns with
     | some [a], _, 1 => .reduce1 a keep
     | none, some [a], 2 => .reduce1 a keep
     | _, _, _ => .none)
  else .none

def xKind (n : Node) : XKind :=
  if n.domain != "" then .none
  else if n.outsRaw.length != 1 then .none
  else xKindOf n.op n.ins.length (intsAttr n) (hasAttr n)

/-! ## inference -/

def dimsAll (vi : List (String × Annot)) : List String → Option (List (List Dim))
  | [] => some []
  | x :: xs =>
    match (annotOf vi x).dims, dimsAll vi xs with
    | some l, some r => some (l :: r)
    | _, _ => none

/-- `perm.map (l[·])`, `none` when an index is out of range -/
def pick {α : Type} (l : List α) : List Nat → Option (List α)
  | [] => some []
  | i :: is =>
    match l[i]?, pick l is with
    | some a, some r => some (a :: r)
    | _, _ => none

/-- extent along axis `k` of a concatenation: the sum when every operand declares an integer there, else unknown -/
def sumAxis (k : Nat) : List (List Dim) → Dim
  | [] => .known 0
  | l :: ls =>
    match l[k]?, sumAxis k ls with
    | some (.known a), .known b => .known (a + b)
    | _, _ => .unk

def in0Dims (vi : List (String × Annot)) (n : Node) : Option (List Dim) :=
  match n.ins.head? with
  | some x => (annotOf vi x).dims
  | none => none

def in0Dt (vi : List (String × Annot)) (n : Node) : Option Nat :=
  match n.ins.head? with
  | some x => (annotOf vi x).dtype
  | none => none

def inferDt (vi : List (String × Annot)) (n : Node) : XKind → Option Nat
  | .bcastT k => (match n.ins[k]? with | some x => (annotOf vi x).dtype | none => none)
  | .bcastFixed d => some d
  | .cast d => some d
  | .shapeOf => some INT64
  | .const d _ => some d
  | .none => none
  | _ => in0Dt vi n

def inferDims (vi : List (String × Annot)) (n : Node) : XKind → Option (List Dim)
  | .bcastT _ | .bcastFixed _ =>
    (match dimsAll vi n.ins with | some ls => broadcastDims ls | none => none)
  | .cast _ => in0Dims vi n
  | .shapeOf => (match in0Dims vi n with | some l => some [.known l.length] | none => none)
  | .transpose p =>
    (match in0Dims vi n with
     | some l => if p.length = l.length then pick l p else none
     | none => none)
  | .expand t => (match in0Dims vi n with | some l => broadcastDims [l, t.map .known] | none => none)
  | .reshapeTo t => some (t.map .known)
  | .const _ s => some (s.map .known)
  | .gather a =>
    (match n.ins with
     | [d, i] =>
       (match (annotOf vi d).dims, (annotOf vi i).dims with
        | some ld, some li =>
          (match normAxis a ld.length with
           | some k => some (ld.take k ++ li ++ ld.drop (k + 1))
           | none => none)
        | _, _ => none)
     | _ => none)
  | .unsqueeze1 a =>
    (match in0Dims vi n with
     | some l => (match normAxis a (l.length + 1) with
                  | some k => some (l.take k ++ [.known 1] ++ l.drop k)
                  | none => none)
     | none => none)
  | .squeeze1 a =>
    (match in0Dims vi n with
     | some l => (match normAxis a l.length with
                  | some k => some (l.take k ++ l.drop (k + 1))
                  | none => none)
     | none => none)
  | .reduce1 a keep =>
    (match in0Dims vi n with
     | some l => (match normAxis a l.length with
                  | some k => some (l.take k ++ (if keep then [.known 1] else []) ++ l.drop (k + 1))
                  | none => none)
     | none => none)
  | .concat a =>
    (match dimsAll vi n.ins with
     | some (l :: ls) =>
       (match normAxis a l.length with
        | some k => some (l.take k ++ [sumAxis k (l :: ls)] ++ l.drop (k + 1))
        | none => none)
     | _ => none)
  | .none => none

def inVocabX (n : Node) : Bool := xKind n != .none

/-- the declared output annotation is implied by what is inferred from the input annotations -/
def nodeConsistentK (vi : List (String × Annot)) (n : Node) (k : XKind) : Bool :=
  match n.outsRaw with
  | [y] =>
    let Y := annotOf vi y
    (Y.dtype.isNone || (Y.dtype == inferDt vi n k)) &&
    (match Y.dims with
     | none => true
     | some ly =>
       match inferDims vi n k with
       | some r => dimsLeB ly r
       | none => false)
  | _ => false

def nodeConsistentX (vi : List (String × Annot)) (n : Node) : Bool := nodeConsistentK vi n (xKind n)

/-- both vocabularies: the small one of `Model/C08.lean` first -/
def nodeOk (vi : List (String × Annot)) (n : Node) : Bool :=
  if inVocab n then nodeConsistent vi n
  else if inVocabX n then nodeConsistentX vi n
  else true

def inVocabAll (n : Node) : Bool := inVocab n || inVocabX n

def annotConsistentX (g : Graph) : Bool := g.nodes.all (nodeOk g.vinfo)

def consistentStatsX (g : Graph) : Nat × Nat :=
  ((g.nodes.filter inVocabAll).length, (g.nodes.filter (fun n => inVocabAll n && nodeOk g.vinfo n)).length)

/-! ## one call site of a model-local function -/

def formalsOk (vi : List (String × Annot)) : List String → List Annot → Bool
  | [], _ => true
  | _ :: _, [] => false
  | x :: xs, a :: as => annotWeakerB (annotOf vi x) a && formalsOk vi xs as

/-- the function's declared annotations are consistent AT a call site whose actual arguments carry the
    annotations `args`: each formal's declared annotation follows from the actual's, and the body is
    consistent with the declared annotations -/
def callSiteConsistent (f : Func) (args : List Annot) : Bool :=
  formalsOk f.vinfo f.inputs args && f.inits.isEmpty && annotConsistentX f.asGraph

/-- what `inferDt` / `inferDims` give for a node whose inputs carry the (fully concrete) annotations of `vi`
    (driver op `infer`: validation of the rules against ONNX Runtime) -/
def inferRender (vi : List (String × Annot)) (n : Node) : String :=
  let k := xKind n
  let a : Annot := ⟨inferDt vi n k, inferDims vi n k⟩
  a.render

end J2O.C08
