/-
C07 (round 2) — executable model, core Lean only.

Part C  The *flattened* `FunctionKey`: the nested Python tuple that the registry dictionary really
        hashes and compares (`qualified_name`, `input_sig`, `capture_sig`), as a tree `PyVal` of
        strings, integers and tuples; `encKey` lays a model `Key` out exactly as
        `_lower_and_call` / `_build_unique_signature` / `_fingerprint_instance_state` /
        `_value_fingerprint` do.  The list of dataclass fields the model knows is `knownKeyFields`
        (compared with the live `dataclasses.fields(FunctionKey)` on every run, GenProps/C07.lean).
        `symPattern` = which symbolic / concrete extents of the positional inputs coincide.
        `capSkel/fpSkel` = a keyword capture / state item without its bytes (what the key holds of
        it *without* any digest).

Part D  `_allocate_friendly_name` on strings: `domSegs` is the list of dot-separated segments of
        the domain (`<namespace parts> . <base> . <idx>` shared, `… . <base> . unique[. <idx>]`
        unique), the decimal rendering of the counter is a parameter `dec`; `allocate` = one call
        (counter lookup, increment, strings), `allocTags/allocRun` = a whole history of calls.
        `joinDot/splitDot` = the rendering of a segment list as one dotted string and back.
-/
import J2O.Model.C07
namespace J2O.C07

/-! ## Part C — the key as the Python tuple it is -/

mutual
inductive PyVal where
  | str (s : String)
  | int (n : Nat)
  | tup (xs : PyList)
inductive PyList where
  | nil
  | cons (x : PyVal) (r : PyList)
end

def PyList.ofList : List PyVal → PyList
  | [] => .nil
  | x :: r => .cons x (PyList.ofList r)

/-- a Python tuple -/
def pyT (l : List PyVal) : PyVal := .tup (PyList.ofList l)

/-- fields of the `FunctionKey` dataclass the model covers, in declaration order -/
def knownKeyFields : List String := ["qualified_name", "input_sig", "capture_sig"]

def encShape (s : List String) : PyVal := pyT (s.map PyVal.str)

/-- `(shape, str(dtype))` -/
def encTSig (t : TSig) : PyVal := pyT [encShape t.shape, .str t.dtype]

def encInSig (l : List TSig) : PyVal := pyT (l.map encTSig)

/-- `_capture_const` / `_capture_dynamic_from_var` / `("call_input", …)` / `("static", type)` -/
def encCapKey : CapKey → PyVal
  | .const s d h => pyT [.str "const", encShape s, .str d, .int h]
  | .dynamic s d => pyT [.str "dynamic", encShape s, .str d]
  | .callInput s d => pyT [.str "call_input", encShape s, .str d]
  | .static t => pyT [.str "static", .str t]

def encCapItem (p : String × CapKey) : PyVal := pyT [.str p.1, encCapKey p.2]

/-- `tuple(capture_items)` -/
def encCaps (l : List (String × CapKey)) : PyVal := pyT (l.map encCapItem)

/-- `_value_fingerprint` -/
def encFpKey : FpKey → PyVal
  | .none => pyT [.str "none"]
  | .lit t r => pyT [.str "literal", .str t, .str r]
  | .arr s d h => pyT [.str "array", encShape s, .str d, .int h]
  | .obj t r => pyT [.str "object", .str t, .str r]

def encFpItem (p : String × FpKey) : PyVal := pyT [.str p.1, encFpKey p.2]

/-- `_fingerprint_instance_state` -/
def encState (l : List (String × FpKey)) : PyVal := pyT (l.map encFpItem)

/-- `capture_sig`: `(id(callee), captures)` by default, `_build_unique_signature` with `unique=True` -/
def encCapSig : CapSig → PyVal
  | .byId i caps => pyT [.int i, encCaps caps]
  | .byState q caps ty st =>
    pyT [pyT [.str "target", .str q], pyT [.str "captures", encCaps caps],
         pyT [.str "instance_type", .str ty], pyT [.str "instance_state", encState st]]
  | .byCallable q caps m n =>
    pyT [pyT [.str "target", .str q], pyT [.str "captures", encCaps caps],
         pyT [.str "callable_module", .str m], pyT [.str "callable_name", .str n]]

/-- the three dataclass fields, in the order of `knownKeyFields` -/
def encKey (k : Key) : PyVal := pyT [.str k.qname, encInSig k.inSig, encCapSig k.capSig]

/-- value of one dataclass field of the key (by name); `none` = the model has no such field -/
def keyField (k : Key) : String → Option PyVal
  | "qualified_name" => some (.str k.qname)
  | "input_sig" => some (encInSig k.inSig)
  | "capture_sig" => some (encCapSig k.capSig)
  | _ => none

/-! symbol pattern of the positional inputs -/

def firstIdx (x : String) : List String → Nat
  | [] => 0
  | y :: r => if y = x then 0 else firstIdx x r + 1

/-- all extents of all positional inputs, in order -/
def dimsOf (sig : List TSig) : List String := sig.flatMap (fun t => t.shape)

/-- for every extent the position of its first occurrence: `(B,),(B,)` ↦ `[0,0]`, `(B,),(N,)` ↦ `[0,1]` -/
def symPattern (sig : List TSig) : List Nat := (dimsOf sig).map (fun x => firstIdx x (dimsOf sig))

/-- a keyword capture without its bytes -/
inductive CapSkel where
  | const (shape : List String) (dtype : String)
  | dynamic (shape : List String) (dtype : String)
  | callInput (shape : List String) (dtype : String)
  | static (typeName : String)
  deriving DecidableEq, Repr

def capSkel : CapVal → CapSkel
  | .const s d _ => .const s d
  | .dynamic s d => .dynamic s d
  | .callInput s d => .callInput s d
  | .static t => .static t

def capKeySkel : CapKey → CapSkel
  | .const s d _ => .const s d
  | .dynamic s d => .dynamic s d
  | .callInput s d => .callInput s d
  | .static t => .static t

/-- the components of a call site that reach the key without passing through a digest -/
structure Structure where
  target : String
  unique : Bool
  shapes : List (List String)
  dtypes : List String
  pattern : List Nat
  capNames : List String             -- keyword names, in call order
  capSkels : List CapSkel            -- kind, shape, dtype of every keyword, in call order
  deriving DecidableEq, Repr

def structureOf (c : CallSite) : Structure :=
  { target := c.target, unique := c.unique,
    shapes := c.inSig.map (fun t => t.shape), dtypes := c.inSig.map (fun t => t.dtype),
    pattern := symPattern c.inSig,
    capNames := (effCaps c).map (fun p => p.1), capSkels := (effCaps c).map (fun p => capSkel p.2) }

/-- which dataclass field of the key holds which component of a call site
    (the table behind `Gen.liveResponse`; every row is a theorem in Props/C07Key.lean) -/
def fieldOfComponent : String → Option String
  | "target" => some "qualified_name"
  | "shape" => some "input_sig"
  | "dtype" => some "input_sig"
  | "symbol" => some "input_sig"
  | "kwarg_value" => some "capture_sig"
  | "kwarg_presence" => some "capture_sig"
  | "kwarg_order" => some "capture_sig"
  | "kwarg_object" => some "capture_sig"
  | "identity" => some "capture_sig"       -- default mode only
  | "weight" => some "capture_sig"
  | "static" => some "capture_sig"
  | "nested_static" => some "capture_sig"
  | _ => none

/-- components whose difference changes what the callee computes: the two call sites of a cover
    pair MUST get different keys (`identity` alone does not: equal state may be shared) -/
def mustSeparate (component : String) : Bool :=
  component ∈ ["target", "shape", "dtype", "symbol", "kwarg_value", "kwarg_presence", "kwarg_order",
               "kwarg_object", "weight", "static", "nested_static"]

/-! ## Part D — `_allocate_friendly_name` on strings -/

/-- dot-separated segments of the function domain -/
def domSegs (dec : Nat → String) (ck : CKey) (cnt : Nat) : List String :=
  ck.ns ++ [ck.base] ++
    (if ck.uniq then (if cnt = 1 then ["unique"] else ["unique", dec cnt]) else [dec cnt])

/-- one call of `_allocate_friendly_name`: `(op_type, domain)` and the updated counter table -/
def allocate (dec : Nat → String) (cs : List (CKey × Nat)) (ck : CKey) :
    (String × List String) × List (CKey × Nat) :=
  let idx := count ck cs + 1
  ((ck.base, domSegs dec ck idx), (ck, idx) :: cs)

/-- (counter key, counter value) of every allocation of a history -/
def allocTags : List (CKey × Nat) → List CKey → List (CKey × Nat)
  | _, [] => []
  | cs, ck :: r => (ck, count ck cs + 1) :: allocTags ((ck, count ck cs + 1) :: cs) r

def renderTag (dec : Nat → String) (p : CKey × Nat) : String × List String :=
  (p.1.base, domSegs dec p.1 p.2)

/-- results of a whole history of calls of `_allocate_friendly_name` on one context -/
def allocRun (dec : Nat → String) : List (CKey × Nat) → List CKey → List (String × List String)
  | _, [] => []
  | cs, ck :: r => (allocate dec cs ck).1 :: allocRun dec (allocate dec cs ck).2 r

/-- the domain string: segments joined by dots (on character lists) -/
def joinDot : List (List Char) → List Char
  | [] => []
  | [a] => a
  | a :: b :: r => a ++ '.' :: joinDot (b :: r)

/-- split at dots; always returns at least one segment -/
def splitDot : List Char → List (List Char)
  | [] => [[]]
  | c :: r =>
    if c = '.' then [] :: splitDot r
    else match splitDot r with
      | [] => [[c]]
      | s :: t => (c :: s) :: t

def Def.domainS (dec : Nat → String) (d : Def) : List String := domSegs dec d.ck d.cnt

/-- rendering of a round-1 segment (`Seg.s` text, `Seg.n` counter) -/
def renderSeg (dec : Nat → String) : Seg → String
  | .s x => x
  | .n k => dec k

end J2O.C07
