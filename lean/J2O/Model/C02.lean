/-
C02 — verified equivalence validator for optimizer rewrites: executable model (core Lean only).

A graph output is unfolded into a `Term` over graph inputs / initializers (`leaf`), with every
node an application `app head ann args`.  `norm` rewrites a term bottom-up with a fixed set of
local rules (`mk`), each proved semantics-preserving in `J2O.Props.C02` for every interpretation
of the operators.  `certify before after` accepts a pair of graphs (as output-term lists) when
the normal forms agree after erasing annotations.

Argument lists are encoded inside `Term` (`nil` / `cons`) to keep one plain inductive type.
-/
import J2O.Model.Tensor
import J2O.Model.C17

namespace J2O.C02
open J2O

inductive Dim where
  | known (n : Nat) | sym (s : String) | unk
  deriving DecidableEq, Repr, Inhabited

/-- Static annotation of a value: element type code and shape, each optional. -/
structure Ann where
  dtype : Option Nat
  shape : Option (List Dim)
  deriving DecidableEq, Repr, Inhabited

def Ann.none : Ann := ⟨Option.none, Option.none⟩

inductive Head where
  | transpose (perm : List Nat)
  | pw (name : String) (attrs : String)      -- broadcasting pointwise operator (keeps dtype)
  | cast (to : Nat)
  | castLike                                  -- args [x, like]
  | identity
  | reshape                                   -- args [x, shape]
  | reduce (name : String) (axes : List Nat)  -- keepdims = 1, static sorted axes
  | opq (op : String) (attrs : String) (k : Nat)
  deriving DecidableEq, Repr, Inhabited

inductive Term where
  | leaf (id : Nat) (ann : Ann) (scalar : Bool)   -- graph input / initializer; scalar = size-1 const
  | boolc (b : Bool)                              -- scalar boolean constant with known content
  | app (h : Head) (ann : Ann) (args : Term)
  | nil
  | cons (t : Term) (ts : Term)
  deriving DecidableEq, Repr, Inhabited

namespace Term

def toList : Term → List Term
  | nil => []
  | cons t ts => t :: toList ts
  | t => [t]

def ofList : List Term → Term
  | [] => nil
  | t :: ts => cons t (ofList ts)

/-- annotations removed everywhere (used for comparing normal forms). -/
def erase : Term → Term
  | leaf id _ s => leaf id Ann.none s
  | boolc b => boolc b
  | app h _ a => app h Ann.none (erase a)
  | nil => nil
  | cons t ts => cons (erase t) (erase ts)

/-- number of constructors (budget control in the driver). -/
def size : Term → Nat
  | app _ _ a => 1 + size a
  | cons t ts => size t + size ts
  | _ => 1

end Term
open Term

/-! ### Static analyses (sound under `AnnotSound`, see Props) -/

def proper : Term → Bool
  | leaf .. => true
  | boolc _ => true
  | app .. => true
  | _ => false


def annRank (a : Ann) : Option Nat := a.shape.map List.length

def optAllEq : List (Option Nat) → Option Nat
  | [] => Option.none
  | [x] => x
  | x :: xs => match x, optAllEq xs with
    | some a, some b => if a = b then some a else Option.none
    | _, _ => Option.none

/-- statically known rank of the tensor a term evaluates to. -/
def rankOf : Term → Option Nat
  | leaf _ ann _ => annRank ann
  | boolc _ => Option.none
  | app h ann args =>
    match h with
    | .transpose _ => match args with | cons t nil => rankOf t | _ => Option.none
    | .cast _ => match args with | cons t nil => rankOf t | _ => Option.none
    | .identity => match args with | cons t nil => rankOf t | _ => Option.none
    | .pw _ _ => match args with | cons t nil => rankOf t | _ => annRank ann
    | _ => annRank ann
  | nil => Option.none
  | cons _ _ => Option.none

/-- statically known element type. -/
def dtypeOf : Term → Option Nat
  | leaf _ ann _ => ann.dtype
  | boolc _ => Option.none
  | app h ann args =>
    match h with
    | .transpose _ => match args with | cons t nil => dtypeOf t | _ => Option.none
    | .cast to => match args with | cons t nil => if proper t then some to else Option.none | _ => Option.none
    | .identity => match args with | cons t nil => dtypeOf t | _ => Option.none
    | _ => ann.dtype
  | nil => Option.none
  | cons _ _ => Option.none

def Dim.isUnk : Dim → Bool
  | .unk => true
  | _ => false

/-- statically known shape (as annotation tokens). -/
def shapeOf : Term → Option (List Dim)
  | leaf _ ann _ => ann.shape
  | boolc _ => Option.none
  | app h ann args =>
    match h with
    | .transpose p =>
      match args with
      | cons t nil =>
        match shapeOf t with
        | some sh =>
          if validPerm p && p.length == sh.length then some (p.map (fun i => sh.getD i Dim.unk))
          else Option.none
        | Option.none => Option.none
      | _ => Option.none
    | .cast _ => match args with | cons t nil => shapeOf t | _ => Option.none
    | .identity => match args with | cons t nil => shapeOf t | _ => Option.none
    | .pw _ _ => match args with | cons t nil => shapeOf t | _ => ann.shape
    | _ => ann.shape
  | nil => Option.none
  | cons _ _ => Option.none

/-- reference decision of C17 on dtype codes. -/
def castRefOk (s m : Nat) : Bool := J2O.C17.castOk (J2O.C17.kindOf s) (J2O.C17.kindOf m)

/-! ### Local rewrite rules -/

/-- view `T_p(a)` -/
def asTranspose : Term → Option (List Nat × Term)
  | app (.transpose p) _ (cons a nil) => some (p, a)
  | _ => Option.none

def isScalarLeaf : Term → Bool
  | leaf _ _ s => s
  | boolc _ => true
  | _ => false

/-- a size-1 constant of rank 0 (true scalar) -/
def isScalar0 : Term → Bool
  | leaf _ ann true => annRank ann == some 0
  | _ => false

/-- split an operand list into (rank-0 scalar constants, the single other operand, rank-0 scalar
    constants) -/
def splitMain : List Term → Option (List Term × Term × List Term)
  | [] => Option.none
  | a :: rest =>
    if isScalar0 a then
      match splitMain rest with
      | some (pre, m, post) => some (a :: pre, m, post)
      | Option.none => Option.none
    else if rest.all isScalar0 then some ([], a, rest) else Option.none

/-- operand `a` of a pointwise operator seen through `T_p`: `some x` with `a ≃ T_p(x)`.
    `n = some k`: n-ary case, every transposed operand must have statically known rank `k` and
    every size-1 constant rank ≤ k.  `n = none`: unary case, no rank condition. -/
def rankCond (n : Option Nat) (x : Term) : Bool :=
  match n with
  | Option.none => true
  | some k => rankOf x == some k

def pull1 (p : List Nat) (n : Option Nat) (a : Term) : Option Term :=
  match a with
  | app (.transpose q) _ (cons x nil) =>
    if q = p && proper x && rankCond n x then some x else Option.none
  | leaf _ ann true =>
    match n, annRank ann with
    | some k, some r => if r ≤ k then some a else Option.none
    | _, _ => Option.none
  | _ => Option.none

def pullAll (p : List Nat) (n : Option Nat) : List Term → Option (List Term)
  | [] => some []
  | a :: as =>
    match pull1 p n a, pullAll p n as with
    | some x, some xs => some (x :: xs)
    | _, _ => Option.none

/-- first operand of the form `T_p(x)` -/
def firstT : List Term → Option (List Nat × Term)
  | [] => Option.none
  | a :: as => match asTranspose a with
    | some r => some r
    | Option.none => firstT as

/-- If every operand of a pointwise operator is `T_p(xⱼ)` for one valid `p` (ranks statically
    equal) or a size-1 constant, return `p`, the operands with `T_p` removed and the common rank
    (if statically known). -/
def pullArgs (args : List Term) : Option (List Nat × List Term × Option Nat) :=
  match firstT args with
  | Option.none => Option.none
  | some (p, x) =>
    if !validPerm p then Option.none else
    match args with
    | [_] => (pullAll p Option.none args).map (fun xs => (p, xs, rankOf x))
    | _ =>
      match rankOf x with
      | Option.none => Option.none
      | some k => (pullAll p (some k) args).map (fun xs => (p, xs, some k))

/-- annotation derived for a node created by a rule: element type of the first operand, rank `k` -/
def derivedAnn (xs : List Term) (k : Option Nat) : Ann :=
  ⟨match xs with | x :: _ => dtypeOf x | [] => Option.none,
   k.map (fun n => List.replicate n Dim.unk)⟩

/-- annotation for `pw(pre ++ [b] ++ post)` with rank-0 scalar `pre/post`: element type of the
    first operand, shape of `b` -/
def shapeAnn (xs : List Term) (b : Term) : Ann :=
  ⟨match xs with | x :: _ => dtypeOf x | [] => Option.none, shapeOf b⟩

def mkIdentity (ann : Ann) (args : Term) : Term :=
  match args with
  | cons a nil => if proper a then a else app .identity ann args
  | _ => app .identity ann args

/-- `T_q(T_p(a)) → a` for inverse valid permutations (mirror of `_is_inverse_perm`). -/
def mkTranspose (q : List Nat) (ann : Ann) (args : Term) : Term :=
  match args with
  | cons (app (.transpose p) _ (cons a nil)) nil =>
    if proper a && validPerm p && validPerm q && isInversePerm p q then a
    else app (.transpose q) ann args
  | _ => app (.transpose q) ann args

/-- identity cast (by annotation), value-preserving cast pair (C17 reference), cast below a
    transpose. -/
def mkCast (to : Nat) (ann : Ann) (args : Term) : Term :=
  match args with
  | cons a nil =>
    if dtypeOf a = some to then a
    else match a with
      | app (.cast m) _ (cons b nil) =>
        if dtypeOf b = some to && castRefOk to m then b else app (.cast to) ann args
      | app (.transpose p) _ (cons b nil) =>
        if proper b then
          app (.transpose p) Ann.none (cons (app (.cast to) Ann.none (cons b nil)) nil)
        else app (.cast to) ann args
      | app .reshape _ (cons b (cons s nil)) =>
        if proper b && proper s then
          app .reshape Ann.none (cons (app (.cast to) Ann.none (cons b nil)) (cons s nil))
        else app (.cast to) ann args
      | _ => app (.cast to) ann args
  | _ => app (.cast to) ann args

def mkCastLike (ann : Ann) (args : Term) : Term :=
  match args with
  | cons (app (.transpose p) _ (cons b nil)) (cons l nil) =>
    if proper b && proper l then
      app (.transpose p) Ann.none (cons (app .castLike Ann.none (cons b (cons l nil))) nil)
    else app .castLike ann args
  | _ => app .castLike ann args

/-- `x * Sigmoid(x)` (either operand order) → `Swish(x)`; `Not(const b)` → `const (!b)`;
    otherwise pull a common transpose above a broadcasting pointwise operator. -/
def mkPw (nm att : String) (ann : Ann) (args : Term) : Term :=
  match nm, att, args with
  | "Not", "", cons (boolc b) nil => boolc (!b)
  | "Mul", "", cons x (cons (app (.pw "Sigmoid" "") _ (cons y nil)) nil) =>
    if proper x && x.erase == y.erase then app (.pw "Swish" "") Ann.none (cons x nil)
    else app (.pw nm att) ann args
  | "Mul", "", cons (app (.pw "Sigmoid" "") _ (cons y nil)) (cons x nil) =>
    if proper x && x.erase == y.erase then app (.pw "Swish" "") Ann.none (cons x nil)
    else app (.pw nm att) ann args
  | _, _, cons (app .reshape _ (cons b (cons s nil))) nil =>
    if proper b && proper s then
      app .reshape Ann.none
        (cons (app (.pw nm att) (derivedAnn [b] (rankOf b)) (cons b nil)) (cons s nil))
    else app (.pw nm att) ann args
  | _, _, _ =>
  match splitMain args.toList with
  | some (pre, app .reshape _ (cons b (cons s nil)), post) =>
    -- one reshaped operand, all others rank-0 scalar constants
    if proper b && proper s && args == ofList args.toList then
      app .reshape Ann.none
        (cons (app (.pw nm att) (shapeAnn (pre ++ [b] ++ post) b) (ofList (pre ++ [b] ++ post)))
          (cons s nil))
    else app (.pw nm att) ann args
  | _ =>
  match pullArgs args.toList with
  | some (p, xs, k) =>
    if args == ofList args.toList then
      app (.transpose p) Ann.none (cons (app (.pw nm att) (derivedAnn xs k) (ofList xs)) nil)
    else app (.pw nm att) ann args
  | Option.none => app (.pw nm att) ann args

/-- both tokens are the same positive literal extent -/
def Dim.posEq : Dim → Dim → Bool
  | .known m, .known n => m == n && 0 < m
  | _, _ => false

/-- every position carries the same positive literal on both sides -/
def allPos : List Dim → List Dim → Bool
  | [], [] => true
  | a :: as, b :: bs => a.posEq b && allPos as bs
  | _, _ => false

/-- the two token lists have the same length and agree on positive literals everywhere except at
    ONE position (which may hold anything: different symbols, a symbol against a literal, unknown).
    Since a Reshape preserves the number of elements, that one extent is then determined. -/
def oneOff : List Dim → List Dim → Bool
  | a :: as, b :: bs => (a.posEq b && oneOff as bs) || allPos as bs
  | _, _ => false

/-- the (trusted) annotation of a Reshape output and the static shape of the term `a` are the same
    token list without unknowns, or differ in at most one position while all other extents are equal
    positive literals (element-count argument): a value with that annotation that holds the elements
    of `a` in the same row-major order IS `a`. -/
def reshapeIdOk (ann : Ann) (a : Term) : Bool :=
  match ann.shape, shapeOf a with
  | some so, some sa => (so = sa && so.all (fun d => !d.isUnk)) || oneOff so sa
  | _, _ => false

/-- `Reshape(a, s) → a` when `reshapeIdOk`. -/
def reshapeId (ann : Ann) (a s : Term) : Term :=
  if reshapeIdOk ann a then a else app .reshape ann (cons a (cons s nil))

/-- `Reshape(Reshape(b, s₁), s) → b` when the final annotation proves the shape of `b` is restored
    (a chain of reshapes never reorders elements); otherwise `reshapeId` on the outer node only.
    NOTE: the general collapse `Reshape(Reshape(b, s₁), s) → Reshape(b, s)` is NOT a rule: with
    `allowzero = 0` a zero entry of `s` copies the extent of the *operand*, so the two sides can differ
    (`b:(2,3,4)`, `s₁=(6,4)`, `s=(0,-1)`: `(6,4)` vs `(2,12)`). -/
def mkReshape (ann : Ann) (args : Term) : Term :=
  match args with
  | cons a (cons s nil) =>
    if proper a && proper s then
      match a with
      | app .reshape _ (cons b (cons s1 nil)) =>
        if proper b && proper s1 && reshapeIdOk ann b then b else reshapeId ann a s
      | _ => reshapeId ann a s
    else app .reshape ann args
  | _ => app .reshape ann args

/-- axes in canonical (ascending) order; the harness sends each axis once -/
def sortNat (l : List Nat) : List Nat := l.mergeSort (· ≤ ·)

/-- `Reduce[axes,keepdims=1](T_p(a)) → T_p(Reduce[p[axes],keepdims=1](a))` -/
def mkReduce (nm : String) (axes : List Nat) (ann : Ann) (args : Term) : Term :=
  match args with
  | cons (app (.transpose p) _ (cons a nil)) nil =>
    if proper a && validPerm p && rankOf a == some p.length && axes.all (· < p.length) then
      app (.transpose p) Ann.none
        (cons (app (.reduce nm (sortNat (axes.map (permFn p)))) Ann.none (cons a nil)) nil)
    else app (.reduce nm axes) ann args
  | _ => app (.reduce nm axes) ann args

/-- smart constructor: `args` are already in normal form. -/
def mk (h : Head) (ann : Ann) (args : Term) : Term :=
  match h with
  | .identity => mkIdentity ann args
  | .transpose q => mkTranspose q ann args
  | .cast to => mkCast to ann args
  | .castLike => mkCastLike ann args
  | .pw nm att => mkPw nm att ann args
  | .reduce nm ax => mkReduce nm ax ann args
  | .reshape => mkReshape ann args
  | h => app h ann args

/-- bottom-up normalisation. -/
def norm : Term → Term
  | app h ann args => mk h ann (norm args)
  | cons t ts => cons (norm t) (norm ts)
  | t => t

def normN : Nat → Term → Term
  | 0, t => t
  | n + 1, t => normN n (norm t)

/-- annotations of node outputs removed (leaf annotations kept) -/
def stripApp : Term → Term
  | leaf id ann s => leaf id ann s
  | boolc b => boolc b
  | app h _ a => app h Ann.none (stripApp a)
  | nil => nil
  | cons t ts => cons (stripApp t) (stripApp ts)

def certify1 (before after : Term) : Bool :=
  (normN 3 before).erase == (normN 3 after).erase

/-- `before`/`after` are the argument chains of graph-output terms.  Accept when the normal
    forms agree (annotations erased). `after` must carry no annotations except on leaves; `before`
    is tried with and without its node annotations (a pass that only renames or deletes unrelated
    nodes leaves a graph that normalises like the annotation-free `before`). -/
def certify (before after : Term) : Bool :=
  certify1 before after || certify1 (stripApp before) after

end J2O.C02

namespace J2O.C02

/-- ONNX operators (default domain) modelled as broadcasting pointwise operators that keep the
    element type of their first operand.  This classification is part of the validator's
    reference; it is independent of the lists in /repo. -/
def pointwiseOps : List String :=
  ["Elu", "Gelu", "Relu", "Sigmoid", "Swish", "Tanh", "LeakyRelu", "Not", "Abs", "Neg", "Exp",
   "Log", "Sqrt", "Add", "Mul", "Sub", "Div", "Max", "Min", "Clip", "Erf", "Softplus", "Floor",
   "Ceil", "Sin", "Cos", "Reciprocal", "Pow", "HardSigmoid", "Selu", "Celu", "Mish", "Sign"]

end J2O.C02
