/-
C19 — Python argument binding: executable model (core Lean only).

A *signature* is the ordered parameter list `inspect.signature` reports; a *call form* is
"how many arguments are passed positionally and which names are passed by keyword" — binding
never looks at argument values.  `binds S c` is CPython's rule for "the call form `c` is
accepted by a callable with signature `S`" (no `TypeError` from argument binding):

* more positionals than positional parameters need `*args`;
* a keyword must name a positional-or-keyword or keyword-only parameter, otherwise it needs
  `**kwargs` (this includes names of positional-only parameters);
* a positional-or-keyword parameter filled positionally must not also be passed by keyword
  ("multiple values"), `**kwargs` or not;
* every positional parameter beyond the positional count and every keyword-only parameter must
  have a default or be passed by keyword ("missing required").

`binds` only compares the positional count with thresholds and tests names for membership; the
abstraction theorem in `J2O.Props.C19` rests on exactly that.  Names are an arbitrary type with
decidable equality (`Nat` ids in the generated tables, so that kernel evaluation is cheap).
The model is validated on every run against real Python calls of synthesised functions and
against `inspect.Signature.bind` (harness/props/c19.py).

`findUncovered O W` searches a FINITE (linear-size) family of representative call forms for one that the
original signature `O` accepts and the substitute `W` rejects; `Props/C19.lean` proves that the
finite search decides the question for ALL call forms.
-/
namespace J2O.C19

inductive Kind where
  | posOnly | posOrKw | varPos | kwOnly | varKw
  deriving DecidableEq, Repr

structure Param (α : Type) where
  name : α
  kind : Kind
  hasDefault : Bool
  deriving Repr

abbrev Sig (α : Type) := List (Param α)

/-- `npos` arguments passed positionally, the names in `kw` passed by keyword. -/
structure Call (α : Type) where
  npos : Nat
  kw : List α
  deriving Repr, DecidableEq

def Kind.isPos : Kind → Bool
  | .posOnly => true
  | .posOrKw => true
  | _ => false

/-- Can be addressed by keyword. -/
def Kind.isKwAddr : Kind → Bool
  | .posOrKw => true
  | .kwOnly => true
  | _ => false

def Kind.isVarPos : Kind → Bool
  | .varPos => true
  | _ => false

def Kind.isVarKw : Kind → Bool
  | .varKw => true
  | _ => false

def Kind.isKwOnly : Kind → Bool
  | .kwOnly => true
  | _ => false

def Kind.isPosOrKw : Kind → Bool
  | .posOrKw => true
  | _ => false

section
variable {α : Type} [DecidableEq α]

def posParams (S : Sig α) : List (Param α) := S.filter (fun p => p.kind.isPos)
def hasVarPos (S : Sig α) : Bool := S.any (fun p => p.kind.isVarPos)
def hasVarKw (S : Sig α) : Bool := S.any (fun p => p.kind.isVarKw)
def names (S : Sig α) : List α := S.map (·.name)

/-- `k` names a parameter that accepts a keyword. -/
def kwTarget (S : Sig α) (k : α) : Bool := S.any (fun p => p.kind.isKwAddr && decide (p.name = k))

/-- `p` is passed by keyword in a call with keyword names `kw`. -/
def hitBy (p : Param α) (kw : List α) : Bool := p.kind.isPosOrKw && decide (p.name ∈ kw)

/-- Walk the positional parameters: the first `n` are filled positionally (no keyword may name
    them again), the others need a default or a keyword. -/
def checkPos : List (Param α) → Nat → List α → Bool
  | [], _, _ => true
  | p :: ps, n + 1, kw => !(hitBy p kw) && checkPos ps n kw
  | p :: ps, 0, kw => (p.hasDefault || hitBy p kw) && checkPos ps 0 kw

def checkKwOnly (S : Sig α) (kw : List α) : Bool :=
  S.all (fun p => !p.kind.isKwOnly || p.hasDefault || decide (p.name ∈ kw))

def kwAccepted (S : Sig α) (kw : List α) : Bool :=
  kw.all (fun k => kwTarget S k || hasVarKw S)

/-- The call form `c` is accepted by a callable of signature `S`. -/
def binds (S : Sig α) (c : Call α) : Bool :=
  (decide (c.npos ≤ (posParams S).length) || hasVarPos S) &&
  kwAccepted S c.kw &&
  checkPos (posParams S) c.npos c.kw &&
  checkKwOnly S c.kw

/-- Why a call form is rejected (all violated clauses, for reports). -/
def reasons (S : Sig α) (c : Call α) : List String :=
  (if decide (c.npos ≤ (posParams S).length) || hasVarPos S then [] else ["too-many-positional"]) ++
  (if kwAccepted S c.kw then [] else ["unexpected-keyword"]) ++
  (if checkPos (posParams S) c.npos c.kw then [] else ["multiple-values-or-missing-positional"]) ++
  (if checkKwOnly S c.kw then [] else ["missing-keyword-only"])

/-! ### The finite search -/

/-- Names of the two signatures, each once if each signature has distinct names. -/
def knownNames (O W : Sig α) : List α :=
  names O ++ (names W).filter (fun k => !decide (k ∈ names O))

/-- Positional counts above this behave like the cap itself. -/
def posCap (O W : Sig α) : Nat := max (posParams O).length (posParams W).length + 1

/-- Keyword universe of the search.  If the original has no `**kwargs`, a call it accepts can
    only use its own keyword-addressable names; otherwise every known name and one fresh name
    standing for all unknown ones. -/
def kwUniverse (O W : Sig α) (fresh : α) : List α :=
  if hasVarKw O then knownNames O W ++ [fresh]
  else (O.filter (fun p => p.kind.isKwAddr)).map (·.name)

/-- Names the signature forces to be passed by keyword when `n` arguments are positional:
    positional parameters beyond `n` without default, and keyword-only ones without default. -/
def reqNames (S : Sig α) (n : Nat) : List α :=
  (((posParams S).drop n).filter (fun p => !p.hasDefault)).map (·.name) ++
  (S.filter (fun p => p.kind.isKwOnly && !p.hasDefault)).map (·.name)

/-- Representative call forms: for every positional count up to the cap, the *minimal* call (only
    the names `O` forces) and the minimal call plus ONE further keyword of the universe.  Binding
    is a conjunction of per-keyword and per-parameter conditions, so these single-deviation forms
    are complete (`J2O.Props.C19`). -/
def candidates (O W : Sig α) (fresh : α) : List (Call α) :=
  (List.range (posCap O W + 1)).flatMap fun n =>
    let r := reqNames O n
    (⟨n, r⟩ : Call α) ::
      ((kwUniverse O W fresh).filter (fun k => !decide (k ∈ r))).map (fun k => ⟨n, k :: r⟩)

def uncoveredBy (O W : Sig α) (c : Call α) : Bool := binds O c && !binds W c

/-- First representative call form accepted by `O` and rejected by `W`. -/
def findUncoveredWith (O W : Sig α) (fresh : α) : Option (Call α) :=
  (candidates O W fresh).find? (uncoveredBy O W)

/-- All representative call forms accepted by `O` and rejected by `W` (the minimal mis-bound
    forms: every mis-bound call contains one of them, `uncovered_core`). -/
def allUncoveredWith (O W : Sig α) (fresh : α) : List (Call α) :=
  (candidates O W fresh).filter (uncoveredBy O W)

/-- Collapse every name outside `K` to `fresh`. -/
def collapse (K : List α) (fresh : α) (k : α) : α := if k ∈ K then k else fresh

/-- The abstraction of a call form used by the completeness proof. -/
def absCall (O W : Sig α) (fresh : α) (c : Call α) : Call α :=
  ⟨min c.npos (posCap O W), c.kw.map (collapse (knownNames O W) fresh)⟩

end

/-! ### Names as natural numbers: a fresh name can be computed -/

def freshNat (l : List Nat) : Nat := l.foldr (fun a b => max a b + 1) 0

def findUncovered (O W : Sig Nat) : Option (Call Nat) :=
  findUncoveredWith O W (freshNat (knownNames O W))

def allUncovered (O W : Sig Nat) : List (Call Nat) :=
  allUncoveredWith O W (freshNat (knownNames O W))

/-! ### Well-formedness of a signature as `inspect.Signature` enforces it (sanity of the tables) -/

def kindRank : Kind → Nat
  | .posOnly => 0 | .posOrKw => 1 | .varPos => 2 | .kwOnly => 3 | .varKw => 4

def ordered : List (Param α) → Bool
  | [] => true
  | [_] => true
  | p :: q :: rest =>
    (decide (kindRank p.kind < kindRank q.kind) ||
      (decide (kindRank p.kind = kindRank q.kind) && (p.kind.isPos || p.kind.isKwOnly))) &&
    ordered (q :: rest)

/-- No positional parameter without default after one with default. -/
def defaultsOk : List (Param α) → Bool
  | [] => true
  | p :: ps => (!p.hasDefault || ps.all (·.hasDefault)) && defaultsOk ps

def distinct [DecidableEq α] : List α → Bool
  | [] => true
  | x :: xs => !decide (x ∈ xs) && distinct xs

def Sig.wf [DecidableEq α] (S : Sig α) : Bool :=
  ordered S && defaultsOk (posParams S) && distinct (names S)

end J2O.C19
