/-
C15 — all return and file modes deliver the same model: executable model of the on-disk state
machine behind `to_onnx(..., return_mode="file")` (core Lean only).

`user_interface.to_onnx._save_model_proto` (the code as it is NOW, after fix f6799b2):

    data_location = basename(dest) + ".data"
    web:       onnx.save_model(proto, dest, save_as_external_data=False)
               remove the sidecar if it exists
    standard:  REMOVE the sidecar if it exists (a sidecar left by an earlier export is stale)
               onnx.save_model(proto, dest, save_as_external_data=True, all_tensors_to_one_file=True,
                               location=data_location, size_threshold=1_048_576)
                 · raises FileExistsError when a file called `data_location` exists in the CURRENT
                   WORKING DIRECTORY (onnx checks `os.path.exists(location)` relative to the cwd) —
                   after the removal above, this can only be a FOREIGN file: the cwd is not the
                   destination directory (`Op.clash`). Nothing is written then, but the destination's
                   sidecar is already gone.
                 · every initializer with `raw_data` and sys.getsizeof(raw_data) >= threshold
                   (= len + 33 >= 1 MiB) is written to the (fresh) sidecar, offset/length recorded
                 · the main file is (re)written
               (the empty-sidecar cleanup that follows can no longer find anything to do)

Before the fix the sidecar was kept and APPENDED to (`exportStdOld`, kept for the regression
examples in Props/C15.lean), and a re-export to a path in the cwd was refused.

`onnx.load(dest)` reads the main file and, for every external tensor, `length` bytes at `offset`
of the sidecar.

Byte level: `Disk`, `exportStd`, `exportWeb`, `load` over payloads `List Nat`.
Length level (what the driver computes and the harness compares with the real files):
`DiskL`, `stepL` — proved to be the projection of the byte level (`layout_step`, Props/C15.lean).
The spill predicate is a parameter of the byte-level functions (the theorems hold for every
threshold rule); `spillsReal` is the rule of the installed onnx.
-/
namespace J2O.C15

abbrev Bytes := List Nat

structure Tensor where
  name : String
  raw : Bool          -- stored in `raw_data` (only those can go external)
  data : Bytes
  deriving DecidableEq, Repr

/-- what a conversion delivers: everything but the payloads (`graph`, an abstract digest) and
    the initializers in order -/
structure Model where
  graph : Nat
  tensors : List Tensor
  deriving DecidableEq, Repr

inductive Stored where
  | inline (b : Bytes)
  | ext (off len : Nat)
  deriving DecidableEq, Repr

structure Entry where
  name : String
  raw : Bool
  stored : Stored
  deriving DecidableEq, Repr

structure MainFile where
  graph : Nat
  entries : List Entry
  deriving DecidableEq, Repr

structure Disk where
  main : Option MainFile
  side : Option Bytes      -- the `.onnx.data` sidecar
  deriving DecidableEq, Repr

inductive Mode where
  | standard | web
  deriving DecidableEq, Repr

/-- the rule of the installed onnx with jax2onnx's threshold -/
def spillsSize (raw : Bool) (len : Nat) : Bool := raw && decide (1048576 ≤ len + 33)
def spillsReal (t : Tensor) : Bool := spillsSize t.raw t.data.length

/-! ### byte level -/

/-- write the tensors in order; `s` = sidecar content so far (appended to) -/
def place (spills : Tensor → Bool) : List Tensor → Bytes → List Entry × Bytes
  | [], s => ([], s)
  | t :: ts, s =>
    if spills t then
      let r := place spills ts (s ++ t.data)
      (⟨t.name, t.raw, .ext s.length t.data.length⟩ :: r.1, r.2)
    else
      let r := place spills ts s
      (⟨t.name, t.raw, .inline t.data⟩ :: r.1, r.2)

def inlineAll (ts : List Tensor) : List Entry := ts.map fun t => ⟨t.name, t.raw, .inline t.data⟩

/-- standard export as it is now: the old sidecar is removed first, the new one starts empty -/
def exportStd (spills : Tensor → Bool) (m : Model) (_d : Disk) : Disk :=
  if m.tensors.any spills then
    let r := place spills m.tensors []
    ⟨some ⟨m.graph, r.1⟩, some r.2⟩
  else
    ⟨some ⟨m.graph, inlineAll m.tensors⟩, none⟩

/-- standard export BEFORE fix f6799b2 (regression examples only): the sidecar is kept and
    appended to; an empty one is removed when nothing spills -/
def exportStdOld (spills : Tensor → Bool) (m : Model) (d : Disk) : Disk :=
  if m.tensors.any spills then
    let r := place spills m.tensors (d.side.getD [])
    ⟨some ⟨m.graph, r.1⟩, some r.2⟩
  else
    ⟨some ⟨m.graph, inlineAll m.tensors⟩, if d.side = some [] then none else d.side⟩

def exportWeb (m : Model) (_d : Disk) : Disk := ⟨some ⟨m.graph, inlineAll m.tensors⟩, none⟩

/-- one export request to the path; `clash` = a FOREIGN file with the sidecar's name exists in
    the current working directory (the cwd is not the destination directory) -/
structure Op where
  mode : Mode
  model : Model
  clash : Bool
  deriving Repr

/-- (disk after, did the export succeed?) -/
def step (spills : Tensor → Bool) (d : Disk) (op : Op) : Disk × Bool :=
  match op.mode with
  | .web => (exportWeb op.model d, true)
  | .standard => if op.clash then (⟨d.main, none⟩, false) else (exportStd spills op.model d, true)

def run (spills : Tensor → Bool) : Disk → List Op → Disk
  | d, [] => d
  | d, op :: rest => run spills (step spills d op).1 rest

def readStored (side : Option Bytes) : Stored → Option Bytes
  | .inline b => some b
  | .ext off len =>
    match side with
    | none => none
    | some s => if off + len ≤ s.length then some ((s.drop off).take len) else none

def readEntries (side : Option Bytes) : List Entry → Option (List Tensor)
  | [] => some []
  | e :: es =>
    match readStored side e.stored, readEntries side es with
    | some b, some ts => some (⟨e.name, e.raw, b⟩ :: ts)
    | _, _ => none

/-- `onnx.load(path)` -/
def load (d : Disk) : Option Model :=
  match d.main with
  | none => none
  | some mf => (readEntries d.side mf.entries).map fun ts => ⟨mf.graph, ts⟩

/-! ### length level (driver) -/

inductive StoredL where
  | inline (len : Nat)
  | ext (off len : Nat)
  deriving DecidableEq, Repr

structure DiskL where
  main : Option (List (String × StoredL))
  side : Option Nat          -- sidecar size
  deriving DecidableEq, Repr

/-- (name, raw, length) of every initializer of the request -/
abbrev Req := List (String × Bool × Nat)

def placeL : Req → Nat → List (String × StoredL) × Nat
  | [], s => ([], s)
  | (n, raw, len) :: ts, s =>
    if spillsSize raw len then
      let r := placeL ts (s + len)
      ((n, .ext s len) :: r.1, r.2)
    else
      let r := placeL ts s
      ((n, .inline len) :: r.1, r.2)

def inlineAllL (q : Req) : List (String × StoredL) := q.map fun (n, _, len) => (n, .inline len)

def stepL (d : DiskL) (mode : Mode) (q : Req) (clash : Bool) : DiskL × Bool :=
  match mode with
  | .web => (⟨some (inlineAllL q), none⟩, true)
  | .standard =>
    if clash then (⟨d.main, none⟩, false)
    else if q.any (fun (_, raw, len) => spillsSize raw len) then
      let r := placeL q 0
      (⟨some r.1, some r.2⟩, true)
    else (⟨some (inlineAllL q), none⟩, true)

def Stored.toL : Stored → StoredL
  | .inline b => .inline b.length
  | .ext o l => .ext o l

def Disk.toL (d : Disk) : DiskL :=
  ⟨d.main.map fun mf => mf.entries.map fun e => (e.name, e.stored.toL), d.side.map List.length⟩

def Model.req (m : Model) : Req := m.tensors.map fun t => (t.name, t.raw, t.data.length)

end J2O.C15
