/-
C08 — static annotations never contradict run time: executable models (core Lean only).

* `loosenGraph` mirrors `ir_postprocess._loosen_graph_value_shapes` / `_process_graph`:
  in a scope processed with `rankOnly = false` every node output that is not a graph input/output
  keeps its known dims (ints, named symbols) and gets `unk` for the others; with `rankOnly = true`
  (bodies of `Loop`/`Scan`, transitively) every dim of every non-I/O node output AND initializer
  becomes `unk`.  Dtype and rank are never touched.  Function bodies are processed with
  `rankOnly = false`.
* `promoteVinfo` mirrors `_maybe_promote_value_to_double`: a value whose constant payload is
  float32 gets payload and declared type DOUBLE together.
* `broadcastDims` mirrors `ir_optimizations._broadcast_shape_dims` on dims
  `known n | sym s | unk` (a `SymbolicDim` without name is `unk`).
-/
import J2O.Model.ModelTree

namespace J2O.C08
open J2O.MT

/-! ## loosening -/

/-- `_dim_is_known` -/
def dimKnown : Dim → Bool
  | .known _ => true
  | .sym s => s != "" && s != "?"
  | .unk => false

def loosenDim (rankOnly : Bool) (d : Dim) : Dim :=
  if rankOnly then .unk else if dimKnown d then d else .unk

def loosenAnnot (rankOnly : Bool) (a : Annot) : Annot :=
  { a with dims := a.dims.map (fun ds => ds.map (loosenDim rankOnly)) }

/-- names whose annotation `_loosen_graph_value_shapes` may rewrite in one scope -/
def touched (inputs inits : List String) (nodes : List Node) (outputs : List String)
    (rankOnly : Bool) : List String :=
  (definedBy nodes ++ (if rankOnly then inits else [])).filter
    (fun x => !(inputs ++ outputs).contains x)

def loosenVinfo (rankOnly : Bool) (names : List String) (vi : List (String × Annot)) :
    List (String × Annot) :=
  vi.map (fun e => if names.contains e.1 then (e.1, loosenAnnot rankOnly e.2) else e)

def forcesRankOnly (op : String) : Bool := op == "Loop" || op == "Scan"

mutual
def loosenGraph (r : Bool) : Graph → Graph
  | .mk i t ns o vi => .mk i t (loosenNodes r ns) o (loosenVinfo r (touched i t ns o r) vi)
def loosenNodes (r : Bool) : List Node → List Node
  | [] => []
  | n :: rest => loosenNode r n :: loosenNodes r rest
def loosenNode (r : Bool) : Node → Node
  | .mk d op i o a bs => .mk d op i o a (loosenBodies (r || forcesRankOnly op) bs)
def loosenBodies (r : Bool) : List Graph → List Graph
  | [] => []
  | b :: bs => loosenGraph r b :: loosenBodies r bs
end

def loosenFunc (f : Func) : Func :=
  let g := loosenGraph false f.asGraph
  { f with nodes := g.nodes, vinfo := g.vinfo }

def loosenModel (m : Model) : Model :=
  { m with graph := loosenGraph false m.graph, funcs := m.funcs.map loosenFunc }

/-! ## promotion of float32 constants -/

def DOUBLE : Nat := 11

def promoteVinfo (constF32 : List String) (vi : List (String × Annot)) : List (String × Annot) :=
  vi.map (fun e => if constF32.contains e.1 then (e.1, { e.2 with dtype := some DOUBLE }) else e)

mutual
def promoteGraph (c : List String) : Graph → Graph
  | .mk i t ns o vi => .mk i t (promoteNodes c ns) o (promoteVinfo c vi)
def promoteNodes (c : List String) : List Node → List Node
  | [] => []
  | n :: rest => promoteNode c n :: promoteNodes c rest
def promoteNode (c : List String) : Node → Node
  | .mk d op i o a bs => .mk d op i o a (promoteBodies c bs)
def promoteBodies (c : List String) : List Graph → List Graph
  | [] => []
  | b :: bs => promoteGraph c b :: promoteBodies c bs
end

def promoteModel (c : List String) (m : Model) : Model :=
  { m with graph := promoteGraph c m.graph,
           funcs := m.funcs.map (fun f => { f with vinfo := promoteVinfo c f.vinfo,
                                                    nodes := promoteNodes c f.nodes }) }

/-! ## `_broadcast_shape_dims` -/

/-- one step of the per-axis loop: `none` = the function returns `None` -/
def stepDim (resolved : Dim) (d : Dim) : Option Dim :=
  match d with
  | .known n =>
    if n = 1 then some resolved
    else match resolved with
      | .known m => if m = 1 then some (.known n) else if m = n then some resolved else none
      | _ => some (.known n)
  | d =>
    match resolved with
    | .known m => if m = 1 then some d else some resolved
    | r => if r = d then some r else none

def foldStep : Dim → List Dim → Option Dim
  | r, [] => some r
  | r, d :: ds =>
    match stepDim r d with
    | none => none
    | some r' => foldStep r' ds

def headD (s : List Dim) : Dim := s.headD (.known 1)

/-- all shapes already padded to rank `r` -/
def bcastPadded : Nat → List (List Dim) → Option (List Dim)
  | 0, _ => some []
  | r + 1, shapes =>
    match foldStep (.known 1) (shapes.map headD) with
    | none => none
    | some d =>
      match bcastPadded r (shapes.map List.tail) with
      | none => none
      | some rest => some (d :: rest)

def maxRank : List (List Dim) → Nat
  | [] => 0
  | s :: rest => max s.length (maxRank rest)

def padDims (r : Nat) (s : List Dim) : List Dim := List.replicate (r - s.length) (.known 1) ++ s

def broadcastDims (shapes : List (List Dim)) : Option (List Dim) :=
  if shapes.isEmpty then none
  else bcastPadded (maxRank shapes) (shapes.map (padDims (maxRank shapes)))

/-! ## consistency checker for a small operator vocabulary (one scope) -/

/-- shape- and type-preserving unary operators (`T → T`, same shape) -/
def unaryOps : List String :=
  ["Relu", "Tanh", "Sin", "Cos", "Tan", "Neg", "Exp", "Log", "Sigmoid", "Abs", "Sqrt", "Identity", "Erf",
   "Floor", "Ceil", "Round", "Softplus", "Softsign", "Reciprocal", "Sign", "Sinh", "Cosh", "Asin", "Acos",
   "Atan", "Asinh", "Acosh", "Atanh", "Not", "Softmax", "LogSoftmax", "Gelu", "Swish", "HardSwish", "Elu",
   "Selu", "LeakyRelu", "Celu", "HardSigmoid", "ThresholdedRelu", "Mish"]

/-- binary operators with numpy broadcasting and one element type `T × T → T` -/
def binaryOps : List String := ["Add", "Sub", "Mul", "Div", "Max", "Min"]

def annotOf (vi : List (String × Annot)) (x : String) : Annot := (lookup x vi).getD ⟨none, none⟩

def dimLeB (d' d : Dim) : Bool := d' == d || d' == .unk

def dimsLeB : List Dim → List Dim → Bool
  | [], [] => true
  | d' :: l', d :: l => dimLeB d' d && dimsLeB l' l
  | _, _ => false

/-- `a'` follows from `a` (dtype dropped or kept; dims dropped, or kept / forgotten one by one) -/
def annotWeakerB (a' a : Annot) : Bool :=
  (a'.dtype.isNone || a'.dtype == a.dtype) &&
  (match a'.dims, a.dims with
   | none, _ => true
   | some l', some l => dimsLeB l' l
   | some _, none => false)

inductive VocabKind where
  | unary (x y : String)
  | binary (a b y : String)
  | other

/-- which rule applies to a node -/
def vocabKind (n : Node) : VocabKind :=
  if n.domain != "" then .other
  else if unaryOps.contains n.op then
    match n.ins, n.outsRaw with
    | [x], [y] => .unary x y
    | _, _ => .other
  else if binaryOps.contains n.op then
    match n.ins, n.outsRaw with
    | [a, b], [y] => .binary a b y
    | _, _ => .other
  else .other

def nodeConsistent (vi : List (String × Annot)) (n : Node) : Bool :=
  match vocabKind n with
  | .unary x y => annotWeakerB (annotOf vi y) (annotOf vi x)
  | .binary a b y =>
    let A := annotOf vi a
    let B := annotOf vi b
    let Y := annotOf vi y
    (Y.dtype.isNone || Y.dtype == A.dtype) &&
    (match Y.dims with
     | none => true
     | some ly =>
       match A.dims, B.dims with
       | some la, some lb =>
         (match broadcastDims [la, lb] with
          | some r => dimsLeB ly r
          | none => false)
       | _, _ => false)
  | .other => true

def inVocab (n : Node) : Bool :=
  match vocabKind n with
  | .other => false
  | _ => true

/-- every vocabulary node of ONE scope has an output annotation implied by its input annotations -/
def annotConsistent (g : Graph) : Bool := g.nodes.all (nodeConsistent g.vinfo)

/-- (vocabulary nodes, of which certified) of one scope – driver statistics -/
def consistentStats (g : Graph) : Nat × Nat :=
  ((g.nodes.filter inVocab).length, (g.nodes.filter (fun n => inVocab n && nodeConsistent g.vinfo n)).length)

/-! ## rendering (driver) -/

mutual
def renderGraph (path : String) : Graph → List String
  | .mk _ _ ns _ vi =>
    vi.map (fun e => path ++ "|" ++ e.1 ++ "|" ++ e.2.render) ++ renderNodes path 0 ns
def renderNodes (path : String) (k : Nat) : List Node → List String
  | [] => []
  | n :: rest => renderNode path k n ++ renderNodes path (k + 1) rest
def renderNode (path : String) (k : Nat) : Node → List String
  | .mk _ _ _ _ _ bs => renderBodies (path ++ "/" ++ toString k) 0 bs
def renderBodies (path : String) (j : Nat) : List Graph → List String
  | [] => []
  | b :: bs => renderGraph (path ++ ":" ++ toString j) b ++ renderBodies path (j + 1) bs
end

def renderModel (m : Model) : List String :=
  renderGraph "main" m.graph ++
    m.funcs.flatMap (fun f => renderGraph ("fn " ++ f.domain ++ "::" ++ f.name) f.asGraph)

end J2O.C08
