/-
JSON reader for `J2O.MT.Model` (used by the drivers of C03, C11, C08 only; no theorem depends on
it).  Format written by harness/modeltree.py, one object per line:

  graph  {"i":[name…], "t":[name…], "n":[node…], "o":[name…], "v":[[name, dtype|null, dims|null]…]}
  dims   [ int | "symbol" | null … ]
  node   {"d":domain, "op":op, "i":[…], "o":[…], "a":[attribute names…], "b":[graph…]}
  func   {"d":domain, "name":…, "i":[…], "o":[…], "t":[…], "imp":[[domain, version]…], "n":[node…], "v":[…]}
  model  {"imp":[[domain, version]…], "g":graph, "f":[func…]}
-/
import Lean.Data.Json
import J2O.Model.ModelTree

namespace J2O.MT
open Lean

def jStrs (j : Json) (k : String) : Except String (List String) := do
  let arr ← (← j.getObjVal? k).getArr?
  arr.toList.mapM (·.getStr?)

def jDim (j : Json) : Except String Dim :=
  match j with
  | .null => pure .unk
  | .str s => pure (.sym s)
  | _ => do
    let n ← j.getNat?
    pure (.known n)

def jAnnotEntry (j : Json) : Except String (String × Annot) := do
  let arr ← j.getArr?
  if arr.size != 3 then throw "vinfo entry must have 3 fields"
  let name ← arr[0]!.getStr?
  let dt : Option Nat ← match arr[1]! with
    | .null => pure none
    | x => do pure (some (← x.getNat?))
  let dims : Option (List Dim) ← match arr[2]! with
    | .null => pure none
    | x => do
      let ds ← x.getArr?
      pure (some (← ds.toList.mapM jDim))
  pure (name, { dtype := dt, dims := dims })

def jVinfo (j : Json) : Except String (List (String × Annot)) :=
  match j.getObjVal? "v" with
  | .error _ => pure []
  | .ok v => do
    let arr ← v.getArr?
    arr.toList.mapM jAnnotEntry

def jImports (j : Json) (k : String) : Except String (List (String × Nat)) := do
  let arr ← (← j.getObjVal? k).getArr?
  arr.toList.mapM fun e => do
    let p ← e.getArr?
    if p.size != 2 then throw "import entry must have 2 fields"
    pure (← p[0]!.getStr?, ← p[1]!.getNat?)

mutual
partial def jGraph (j : Json) : Except String Graph := do
  let ns ← (← j.getObjVal? "n").getArr?
  let nodes ← ns.toList.mapM jNode
  pure (.mk (← jStrs j "i") (← jStrs j "t") nodes (← jStrs j "o") (← jVinfo j))
partial def jNode (j : Json) : Except String Node := do
  let bs ← (← j.getObjVal? "b").getArr?
  let bodies ← bs.toList.mapM jGraph
  pure (.mk (← (← j.getObjVal? "d").getStr?) (← (← j.getObjVal? "op").getStr?)
        (← jStrs j "i") (← jStrs j "o") (← jStrs j "a") bodies)
end

def jFunc (j : Json) : Except String Func := do
  let ns ← (← j.getObjVal? "n").getArr?
  let nodes ← ns.toList.mapM jNode
  pure { domain := ← (← j.getObjVal? "d").getStr?, name := ← (← j.getObjVal? "name").getStr?,
         inputs := ← jStrs j "i", outputs := ← jStrs j "o", inits := ← jStrs j "t",
         imports := ← jImports j "imp", nodes := nodes, vinfo := ← jVinfo j }

def jModel (j : Json) : Except String Model := do
  let fs ← (← j.getObjVal? "f").getArr?
  pure { imports := ← jImports j "imp", graph := ← jGraph (← j.getObjVal? "g"),
         funcs := ← fs.toList.mapM jFunc }

/-- Generic stdin loop: one JSON request per line, one answer line per request. -/
partial def driverLoop (h : IO.FS.Stream) (step : Json → Except String String) : IO Unit := do
  let line ← h.getLine
  if line.isEmpty then return ()
  let ans := match Json.parse line with
    | .error e => "bad-json " ++ e
    | .ok j => match step j with
      | .error e => "bad-request " ++ e
      | .ok s => s
  IO.println ans
  driverLoop h step

end J2O.MT
