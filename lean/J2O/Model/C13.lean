/-
C13 — conversion leaves the host process as it found it: executable model of the patch
machine (core Lean only), the code AFTER fix 21b5229.  (The machine before the fix is kept in
Model/C13Old.lean for the regression examples.)

World.  `own t a` is the own-attribute table (`vars(t)[a]`) of target `t` (a module or a
class); the hierarchy `H` gives for every target its MRO (the target itself first) and says
whether it is a class (descriptors are only invoked on classes).  `lookup` is Python's
`getattr(t, a, _MISSING)`: first own entry along the MRO, then the descriptor protocol
(`staticmethod(f)` → `f`, `classmethod(f)` → `f` bound to `t`).

`apply_patches` (jax2onnx/plugins/_patching.py):

    applied = []
    try:
        for s in specs:
            tgt  = _resolve(s.target)                       -- fault `resolve`
            orig = getattr(tgt, s.attr, _MISSING)           -- handed to make_value
            own  = _own_attr(tgt, s.attr)                   -- vars(tgt)[attr] or _MISSING: what is put back
            new  = s.value | s.make_value(orig or None)     -- fault `make`
            setattr(tgt, s.attr, new)                       -- fault `set`
            applied.append((tgt, s.attr, own))
        yield                                               -- body (may raise)
    finally:
        for tgt, attr, own in reversed(applied):
            if own is _MISSING: try delattr(tgt, attr) except: pass
            else: setattr(tgt, attr, own)

`apply_monkey_patches` (jax2onnx/plugins/plugin_system.py) with the refcounted `_PATCH_STATE`:

    touched = []
    try:
        for (patch_fn, tgt, attr) in registry:              -- entry loop, now INSIDE the try
            st = _PATCH_STATE.get((tgt, attr))
            if st is None:
                orig = getattr(tgt, attr)                   -- AttributeError if missing
                own  = _own_attr(tgt, attr)
                new  = patch_fn(orig)                       -- fault `make`
                setattr(tgt, attr, new)                     -- fault `set`
                _PATCH_STATE[key] = {orig, own, count: 1}
            else: st.count += 1
            touched.append(key)
        yield
    finally:
        for key in reversed(touched):
            st = _PATCH_STATE.get(key)
            if not st: continue
            st.count -= 1
            if st.count == 0:
                delattr(tgt, attr) if st.own is _MISSING else setattr(tgt, attr, st.own)
                _PATCH_STATE.pop(key)

Programs (`Prog`) nest these contexts arbitrarily (`_activate_plugin_worlds` = monkey, then one
`patches` per leaf plugin; function bodies re-activate the same stack during lowering), with
`raise` as an exception in user code / tracing / lowering and `catch` for the
`try … except Exception` around nested plugin bindings.

Exception points do NOT distinguish exception classes: `raise`, a faulting spec, a failing
`patch_fn` stand for ANY exception, `BaseException`s that are not `Exception`s included
(KeyboardInterrupt, SystemExit, GeneratorExit): the code unwinds in `finally` blocks, which run for
all of them; `catch` stands for whatever handler swallows the exception.  The harness injects both
classes at every point.

Unwinding steps themselves are assumed not to raise (`setattr` of a value that was there before,
`delattr` of an attribute that was just set).  `_own_attr` falls back to `getattr` for targets
without `__dict__`; targets here are modules and classes.
-/
namespace J2O.C13

abbrev Tgt := Nat
abbrev Attr := Nat

inductive Val where
  | tok (n : Nat)                       -- an ordinary object
  | wrap (k : Nat) (orig : Val)         -- result of make_value / patch_fn number k on `orig`
  | wrapNone (k : Nat)                  -- make_value number k on a missing original (`None`)
  | static (n : Nat)                    -- staticmethod(tok n)
  | classm (n : Nat)                    -- classmethod(fn n)
  | bound (n : Nat) (t : Tgt)           -- bound method of fn n on class t
  deriving DecidableEq, Repr

def mkWrap (k : Nat) : Option Val → Val
  | some v => .wrap k v
  | none => .wrapNone k

/-- static structure of the targets -/
structure Hier where
  mro : Tgt → List Tgt
  isClass : Tgt → Bool

abbrev Own := Tgt → Attr → Option Val
/-- `_PATCH_STATE`: key ↦ (orig as resolved by getattr, own entry or missing, reference count) -/
abbrev PS := Tgt → Attr → Option (Val × Option Val × Nat)

def setOwn (o : Own) (t : Tgt) (a : Attr) (v : Option Val) : Own :=
  fun t' a' => if t' = t ∧ a' = a then v else o t' a'

def setPS (p : PS) (t : Tgt) (a : Attr) (v : Option (Val × Option Val × Nat)) : PS :=
  fun t' a' => if t' = t ∧ a' = a then v else p t' a'

/-- first own entry along a list of targets -/
def firstOwn (o : Own) (a : Attr) : List Tgt → Option Val
  | [] => none
  | t :: ts => match o t a with
    | some v => some v
    | none => firstOwn o a ts

/-- the descriptor protocol when the attribute is fetched from class `t` -/
def descGet (H : Hier) (t : Tgt) (v : Val) : Val :=
  if H.isClass t then
    match v with
    | .static n => .tok n
    | .classm n => .bound n t
    | v => v
  else v

/-- `getattr(t, a, _MISSING)` -/
def lookup (H : Hier) (o : Own) (t : Tgt) (a : Attr) : Option Val :=
  (firstOwn o a (H.mro t)).map (descGet H t)

inductive Fault where
  | none | resolve | make | set
  deriving DecidableEq, Repr

inductive SpecKind where
  | assign (v : Val)        -- AssignSpec(value = v)
  | monkey (k : Nat)        -- MonkeyPatchSpec(make_value = fun orig => wrap k orig)
  deriving DecidableEq, Repr

structure Spec where
  tgt : Tgt
  attr : Attr
  kind : SpecKind
  fault : Fault
  deriving DecidableEq, Repr

/-- a function-plugin patch site of the registry: `patch_fn = fun orig => wrap k orig` -/
structure Site where
  tgt : Tgt
  attr : Attr
  k : Nat
  deriving DecidableEq, Repr

structure St where
  own : Own
  ps : PS

/-- every `_PATCH_STATE` entry has a positive reference count (entries are removed at 0) -/
def PSwf (p : PS) : Prop := ∀ t a orig own c, p t a = some (orig, own, c) → 1 ≤ c

/-! ### apply_patches -/

structure EnterRes where
  own : Own
  applied : List (Tgt × Attr × Option Val)   -- stack: head = last applied; third = OWN entry before
  raised : Bool

/-- is an exception injected while this spec is applied (before anything is mutated)?
    `make` only exists for MonkeyPatchSpec. -/
def Spec.faults (s : Spec) : Bool :=
  match s.fault, s.kind with
  | .none, _ => false
  | .make, .assign _ => false
  | _, _ => true

def Spec.newVal (s : Spec) (orig : Option Val) : Val :=
  match s.kind with
  | .assign v => v
  | .monkey k => mkWrap k orig

/-- the entry loop; `acc` = what was applied so far (head = most recent) -/
def enter (H : Hier) (o : Own) : List Spec → List (Tgt × Attr × Option Val) → EnterRes
  | [], acc => ⟨o, acc, false⟩
  | s :: rest, acc =>
    if s.faults then ⟨o, acc, true⟩
    else
      enter H (setOwn o s.tgt s.attr (some (s.newVal (lookup H o s.tgt s.attr)))) rest
        ((s.tgt, s.attr, o s.tgt s.attr) :: acc)

/-- the `finally` block: put back, in reverse order, what each target itself held -/
def unwind (o : Own) : List (Tgt × Attr × Option Val) → Own
  | [] => o
  | (t, a, own) :: rest => unwind (setOwn o t a own) rest

/-! ### apply_monkey_patches -/

structure MEnterRes where
  st : St
  touched : List (Tgt × Attr)               -- stack: head = last touched
  raised : Bool

/-- the entry loop; `faults` are aligned with the registry -/
def menter (H : Hier) (st : St) : List Site → List Fault → List (Tgt × Attr) → MEnterRes
  | [], _, acc => ⟨st, acc, false⟩
  | s :: rest, fs, acc =>
    match st.ps s.tgt s.attr with
    | some (orig, own, c) =>
      menter H ⟨st.own, setPS st.ps s.tgt s.attr (some (orig, own, c + 1))⟩ rest fs.tail
        ((s.tgt, s.attr) :: acc)
    | none =>
      match lookup H st.own s.tgt s.attr with
      | none => ⟨st, acc, true⟩                             -- getattr raises AttributeError
      | some orig =>
        if fs.headD .none = .none then
          menter H ⟨setOwn st.own s.tgt s.attr (some (.wrap s.k orig)),
                    setPS st.ps s.tgt s.attr (some (orig, st.own s.tgt s.attr, 1))⟩ rest fs.tail
            ((s.tgt, s.attr) :: acc)
        else ⟨st, acc, true⟩                                -- patch_fn / setattr raises

/-- the `finally` block -/
def mexit (st : St) : List (Tgt × Attr) → St
  | [] => st
  | (t, a) :: rest =>
    match st.ps t a with
    | none => mexit st rest
    | some (orig, own, c) =>
      if c - 1 = 0 then mexit ⟨setOwn st.own t a own, setPS st.ps t a none⟩ rest
      else mexit ⟨st.own, setPS st.ps t a (some (orig, own, c - 1))⟩ rest

/-! ### programs -/

inductive Prog where
  | skip
  | raise
  | seq (a b : Prog)
  | patches (specs : List Spec) (body : Prog)
  | monkey (faults : List Fault) (body : Prog)
  | catch (body : Prog)
  deriving Repr

structure Res where
  st : St
  raised : Bool

def run (H : Hier) (reg : List Site) : Prog → St → Res
  | .skip, st => ⟨st, false⟩
  | .raise, st => ⟨st, true⟩
  | .seq a b, st =>
    let r := run H reg a st
    if r.raised then r else run H reg b r.st
  | .patches specs body, st =>
    let e := enter H st.own specs []
    if e.raised then ⟨⟨unwind e.own e.applied, st.ps⟩, true⟩
    else
      let r := run H reg body ⟨e.own, st.ps⟩
      ⟨⟨unwind r.st.own e.applied, r.st.ps⟩, r.raised⟩
  | .monkey faults body, st =>
    let e := menter H st reg faults []
    if e.raised then ⟨mexit e.st e.touched, true⟩          -- the entry loop is inside the try
    else
      let r := run H reg body e.st
      ⟨mexit r.st e.touched, r.raised⟩
  | .catch body, st => ⟨(run H reg body st).st, false⟩

end J2O.C13
