/-
C03 (round 2) — function signatures with optional / absent operands (core Lean only).

`callOK` (Model/C03.lean) compares slot COUNTS.  A call may still leave a slot empty (`""` = absent operand);
ONNX allows that for a function call only when the body never reads the corresponding formal input (after
inlining the formal would be an undefined name).  `argsOK f n`: no more actual slots than formals, and every formal
input that the body of `f` uses (as a node input at ANY depth, or as a function output) is bound to a present
actual.  `callsBound m` demands it for every call node at every depth of the main graph AND of every function body
(functions called from inside other function bodies).
-/
import J2O.Model.C03

namespace J2O.C03
open J2O.MT

/-- `x` is not read anywhere in the graph: no node input at any depth, no graph output -/
def unusedIn (x : String) (g : Graph) : Bool :=
  allNodes (fun n => !n.ins.contains x) g && !g.outputs.contains x

def argsOK (f : Func) (n : Node) : Bool :=
  decide (n.ins.length ≤ f.inputs.length) && decide (n.outsRaw.length ≤ f.outputs.length)
    && (List.range f.inputs.length).all
        (fun i => (n.ins.getD i "" != "") || unusedIn (f.inputs.getD i "") f.asGraph)

def callArgs (funcs : List Func) (n : Node) : Bool :=
  funcs.all (fun f => !defines f n.domain n.op || argsOK f n)

def callsBound (m : Model) : Bool :=
  allNodes (callArgs m.funcs) m.graph && m.funcs.all (fun g => allNodes (callArgs m.funcs) g.asGraph)

end J2O.C03
