/-
C10 — the batch axis on the shared tensor model (`J2O.Tensor`: index functions `Nat → Nat`), core Lean only:
taking a lane, moving the batch axis to the front (`batching.bdim_at_front` = `moveaxis(x, d, 0)`),
and an executable keepdims sum used by the driver (proved equal to `sumAxis` in `J2O.Props.C10Reduce`).
-/
import J2O.Model.Tensor
namespace J2O.C10R

/-- lane `b` along axis `d`: the axis disappears (also: `squeeze` of a size-1 axis is `laneT d 0`) -/
def laneT {α : Type} (d b : Nat) (t : J2O.Tensor α) : J2O.Tensor α :=
  { dtype := t.dtype, rank := t.rank - 1,
    dim := fun k => t.dim (if k < d then k else k + 1),
    get := fun i => t.get (fun m => if m < d then i m else if m = d then b else i (m - 1)) }

/-- `batching.bdim_at_front(t, d, size)` for a mapped operand: axis `d` becomes axis 0 -/
def moveFront {α : Type} (d : Nat) (t : J2O.Tensor α) : J2O.Tensor α :=
  { dtype := t.dtype, rank := t.rank,
    dim := fun k => if k = 0 then t.dim d else if k ≤ d then t.dim (k - 1) else t.dim k,
    get := fun i => t.get (fun m => if m = d then i 0 else if m < d then i (m + 1) else i m) }

def updL (i : Nat → Nat) (a j : Nat) : Nat → Nat := fun k => if k = a then j else i k

/-- executable keepdims sum over one axis (natural numbers) -/
def sumAxisL (a : Nat) (t : J2O.Tensor Nat) : J2O.Tensor Nat :=
  { t with dim := fun k => if k = a then 1 else t.dim k,
           get := fun i => (List.range (t.dim a)).foldl (fun s j => s + t.get (updL i a j)) 0 }

def sumAxesL (axes : List Nat) (t : J2O.Tensor Nat) : J2O.Tensor Nat := axes.foldl (fun acc a => sumAxisL a acc) t

/-- executable reduction without keepdims: every reduced axis is squeezed right away (give the axes
    in descending order, as `jnp.sum(x, axis=axes)` behaves) -/
def sumAxesDropL (axes : List Nat) (t : J2O.Tensor Nat) : J2O.Tensor Nat :=
  axes.foldl (fun acc a => laneT a 0 (sumAxisL a acc)) t

end J2O.C10R
