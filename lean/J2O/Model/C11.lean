/-
C11 — the requested opset is honoured: executable legality checker (core Lean only).

`Schemas` is the operator table of the installed `onnx.defs` (default domain), regenerated into
`J2O.Gen.C11.schemas` on every run: operator ↦ list of signatures (since_version, input/output
arity bounds, deprecated?, attribute names).  `sigAt sigs v` is the signature in force at opset
`v` (greatest `since ≤ v`).  `opsetLegal S m` walks the whole model tree (all nested bodies, all
function bodies) and accepts iff every default-domain node uses an operator that exists at the
declared opset with a signature admitting the node's input/output counts and attribute names,
every other node is a call of a function defined in the model, and every function body declares
its own imports completely and not newer than the model's.
-/
import J2O.Model.ModelTree

namespace J2O.C11
open J2O.MT

structure Sig where
  since : Nat
  minIn : Nat
  maxIn : Nat
  minOut : Nat
  maxOut : Nat
  deprecated : Bool
  attrs : List String
  deriving Repr, DecidableEq, Inhabited

abbrev Schemas := List (String × List Sig)

def lookupOp (S : Schemas) (op : String) : Option (List Sig) :=
  match S with
  | [] => none
  | (k, sigs) :: rest => if k = op then some sigs else lookupOp rest op

/-- better of two candidates: the one with the greater `since` -/
def pick (best : Option Sig) (s : Sig) (v : Nat) : Option Sig :=
  if s.since ≤ v then
    match best with
    | none => some s
    | some b => if b.since ≤ s.since then some s else some b
  else best

/-- the signature in force at opset `v` -/
def sigAtFrom (best : Option Sig) (v : Nat) : List Sig → Option Sig
  | [] => best
  | s :: rest => sigAtFrom (pick best s v) v rest

def sigAt (sigs : List Sig) (v : Nat) : Option Sig := sigAtFrom none v sigs

def sigAdmits (s : Sig) (n : Node) : Bool :=
  !s.deprecated
    && decide (s.minIn ≤ n.ins.length) && decide (n.ins.length ≤ s.maxIn)
    && decide (s.minOut ≤ n.outsRaw.length) && decide (n.outsRaw.length ≤ s.maxOut)
    && n.attrs.all (fun a => s.attrs.contains a)

/-- a default-domain node is legal at opset `v` -/
def nodeLegalB (S : Schemas) (v : Nat) (n : Node) : Bool :=
  match lookupOp S n.op with
  | none => false
  | some sigs =>
    match sigAt sigs v with
    | none => false
    | some s => sigAdmits s n

def isCallOf (funcs : List Func) (n : Node) : Bool :=
  funcs.any (fun f => f.domain == n.domain && f.name == n.op)

/-- per-node test inside a scope list whose imports are `imports`, default-domain version `v` -/
def nodeOK (S : Schemas) (v : Nat) (imports : List String) (funcs : List Func) (n : Node) : Bool :=
  imports.contains n.domain && (if n.domain == "" then nodeLegalB S v n else isCallOf funcs n)

def domainsOf (imps : List (String × Nat)) : List String := imps.map (·.1)

def funcLegal (S : Schemas) (v : Nat) (funcs : List Func) (f : Func) : Bool :=
  match importVersion "" f.imports with
  | none => false
  | some fv => decide (fv ≤ v) && allNodes (nodeOK S fv (domainsOf f.imports) funcs) f.asGraph

/-- The executable checker. -/
def opsetLegal (S : Schemas) (m : Model) : Bool :=
  match importVersion "" m.imports with
  | none => false
  | some v =>
    allNodes (nodeOK S v (domainsOf m.imports) m.funcs) m.graph
      && m.funcs.all (funcLegal S v m.funcs)

/-! diagnostics for the driver (no theorem depends on them) -/

mutual
def collectG (f : Node → Option String) : Graph → List String
  | .mk _ _ ns _ _ => collectL f ns
def collectL (f : Node → Option String) : List Node → List String
  | [] => []
  | n :: rest => collectN f n ++ collectL f rest
def collectN (f : Node → Option String) : Node → List String
  | .mk d o i u a bs =>
    (match f (.mk d o i u a bs) with | none => [] | some s => [s]) ++ collectB f bs
def collectB (f : Node → Option String) : List Graph → List String
  | [] => []
  | b :: bs => collectG f b ++ collectB f bs
end

def whyNot (S : Schemas) (v : Nat) (imports : List String) (funcs : List Func) (wher : String)
    (n : Node) : Option String :=
  if nodeOK S v imports funcs n then none
  else if !imports.contains n.domain then some s!"{wher}|{n.domain}|{n.op}|domain-not-imported"
  else if n.domain != "" then some s!"{wher}|{n.domain}|{n.op}|call-without-definition"
  else match lookupOp S n.op with
    | none => some s!"{wher}||{n.op}|unknown-operator"
    | some sigs => match sigAt sigs v with
      | none =>
        let firstSince := sigs.foldl (fun acc s => min acc s.since) 1000000
        some s!"{wher}||{n.op}|newer-than-opset since={firstSince} opset={v}"
      | some s =>
        if s.deprecated then some s!"{wher}||{n.op}|deprecated since={s.since} opset={v}"
        else if !(decide (s.minIn ≤ n.ins.length) && decide (n.ins.length ≤ s.maxIn)) then
          some s!"{wher}||{n.op}|input-count {n.ins.length} not in {s.minIn}..{s.maxIn} (schema since {s.since}) opset={v}"
        else if !(decide (s.minOut ≤ n.outsRaw.length) && decide (n.outsRaw.length ≤ s.maxOut)) then
          some s!"{wher}||{n.op}|output-count {n.outsRaw.length} not in {s.minOut}..{s.maxOut} (schema since {s.since}) opset={v}"
        else
          let bad := n.attrs.filter (fun a => !s.attrs.contains a)
          some s!"{wher}||{n.op}|attribute {bad} not in schema since {s.since} opset={v}"

def explain (S : Schemas) (m : Model) : List String :=
  match importVersion "" m.imports with
  | none => ["main|||no-default-opset-import"]
  | some v =>
    collectG (whyNot S v (domainsOf m.imports) m.funcs "main") m.graph ++
    m.funcs.flatMap (fun f =>
      match importVersion "" f.imports with
      | none => [s!"fn {f.name}|||no-default-opset-import"]
      | some fv =>
        (if fv ≤ v then [] else [s!"fn {f.name}|||function-opset {fv} newer than model opset {v}"]) ++
        collectG (whyNot S fv (domainsOf f.imports) m.funcs s!"fn {f.name}") f.asGraph)

end J2O.C11
