/-
C11 — the requested opset is honoured: executable legality checker (core Lean only).

`Schemas` is the operator table of the installed `onnx.defs` (default domain), regenerated into
`J2O.Gen.C11.schemas` on every run: operator ↦ list of signatures (since_version, input/output
arity bounds, deprecated?, attribute names, attribute types, required attributes, admitted element
types and type variables of inputs and outputs).  `sigAt sigs v` is the signature in force at opset
`v` (greatest `since ≤ v`).  `opsetLegal S m` walks the whole model tree (all nested bodies, all
function bodies) and accepts iff every default-domain node uses an operator that exists at the
declared opset with a signature admitting the node's input/output counts and attribute names,
every other node is a call of a function defined in the model, and every function body declares
its own imports completely and not newer than the model's.
-/
import J2O.Model.ModelTree

namespace J2O.C11
open J2O.MT

structure Sig where
  since : Nat
  minIn : Nat
  maxIn : Nat
  minOut : Nat
  maxOut : Nat
  deprecated : Bool
  attrs : List String
  /-- per formal input: the element types (ONNX dtype codes) the type constraint admits; `[]` = not a
      tensor type constraint / unconstrained -/
  inTypes : List (List Nat) := []
  /-- per formal input: id of its type variable (`T`, `T1`, …); `0` = a fixed type -/
  inVars : List Nat := []
  /-- the last formal input is variadic (homogeneous): it repeats -/
  variadic : Bool := false
  /-- attribute name ↦ `AttributeProto.AttributeType` code declared by onnx.defs -/
  attrTy : List (String × Nat) := []
  /-- attributes onnx.defs marks `required` -/
  required : List String := []
  /-- per formal output: admitted element types (as `inTypes`) -/
  outTypes : List (List Nat) := []
  /-- per formal output: id of its type variable, SHARED with `inVars` (`0` = a fixed type) -/
  outVars : List Nat := []
  /-- the last formal output is variadic (homogeneous) -/
  variadicOut : Bool := false
  deriving Repr, DecidableEq, Inhabited

/-! A node attribute is carried as the string `name` or `name:code`, `code` being the decimal
    `AttributeProto.AttributeType` of the attribute found in the model (FLOAT=1, INT=2, STRING=3, TENSOR=4,
    GRAPH=5, FLOATS=6, INTS=7, STRINGS=8, …).  `attrName` / `attrKind` take the two parts (structural
    recursion over the character list: the kernel evaluates them). -/

def attrName (a : String) : String := String.ofList (a.toList.takeWhile (· ≠ ':'))

def digitsVal (cs : List Char) : Nat := cs.foldl (fun acc c => acc * 10 + (c.toNat - 48)) 0

def attrKind (a : String) : Option Nat :=
  match a.toList.dropWhile (· ≠ ':') with
  | [] => none
  | _ :: ds => if ds.isEmpty then none else some (digitsVal ds)

def lookupTy (x : String) : List (String × Nat) → Option Nat
  | [] => none
  | (k, t) :: rest => if k = x then some t else lookupTy x rest

abbrev Schemas := List (String × List Sig)

def lookupOp (S : Schemas) (op : String) : Option (List Sig) :=
  match S with
  | [] => none
  | (k, sigs) :: rest => if k = op then some sigs else lookupOp rest op

/-- better of two candidates: the one with the greater `since` -/
def pick (best : Option Sig) (s : Sig) (v : Nat) : Option Sig :=
  if s.since ≤ v then
    match best with
    | none => some s
    | some b => if b.since ≤ s.since then some s else some b
  else best

/-- the signature in force at opset `v` -/
def sigAtFrom (best : Option Sig) (v : Nat) : List Sig → Option Sig
  | [] => best
  | s :: rest => sigAtFrom (pick best s v) v rest

def sigAt (sigs : List Sig) (v : Nat) : Option Sig := sigAtFrom none v sigs

def sigAdmits (s : Sig) (n : Node) : Bool :=
  !s.deprecated
    && decide (s.minIn ≤ n.ins.length) && decide (n.ins.length ≤ s.maxIn)
    && decide (s.minOut ≤ n.outsRaw.length) && decide (n.outsRaw.length ≤ s.maxOut)
    && n.attrs.all (fun a => s.attrs.contains (attrName a))

/-- a default-domain node is legal at opset `v` -/
def nodeLegalB (S : Schemas) (v : Nat) (n : Node) : Bool :=
  match lookupOp S n.op with
  | none => false
  | some sigs =>
    match sigAt sigs v with
    | none => false
    | some s => sigAdmits s n

def isCallOf (funcs : List Func) (n : Node) : Bool :=
  funcs.any (fun f => f.domain == n.domain && f.name == n.op)

/-- per-node test inside a scope list whose imports are `imports`, default-domain version `v` -/
def nodeOK (S : Schemas) (v : Nat) (imports : List String) (funcs : List Func) (n : Node) : Bool :=
  imports.contains n.domain && (if n.domain == "" then nodeLegalB S v n else isCallOf funcs n)

def domainsOf (imps : List (String × Nat)) : List String := imps.map (·.1)

def funcLegal (S : Schemas) (v : Nat) (funcs : List Func) (f : Func) : Bool :=
  match importVersion "" f.imports with
  | none => false
  | some fv => decide (fv ≤ v) && allNodes (nodeOK S fv (domainsOf f.imports) funcs) f.asGraph

/-- The executable checker. -/
def opsetLegal (S : Schemas) (m : Model) : Bool :=
  match importVersion "" m.imports with
  | none => false
  | some v =>
    allNodes (nodeOK S v (domainsOf m.imports) m.funcs) m.graph
      && m.funcs.all (funcLegal S v m.funcs)

/-! ## element types of inputs against the type constraints of the signature in force -/

def allowedAt (s : Sig) (k : Nat) : List Nat :=
  match s.inTypes[k]? with
  | some l => l
  | none => if s.variadic then s.inTypes.getLast?.getD [] else []

def varAt (s : Sig) (k : Nat) : Nat :=
  match s.inVars[k]? with
  | some v => v
  | none => if s.variadic then s.inVars.getLast?.getD 0 else 0

/-- declared element type of a value in the visible annotations -/
def dtypeOf (vis : List (String × Annot)) (x : String) : Option Nat :=
  match lookup x vis with
  | none => none
  | some a => a.dtype

/-- (type variable, declared dtype) of the annotated inputs, and the per-input membership test -/
def inputFacts (s : Sig) (vis : List (String × Annot)) : List String → Nat → List (Nat × Nat)
  | [], _ => []
  | x :: rest, k =>
    match (if x == "" then none else dtypeOf vis x) with
    | none => inputFacts s vis rest (k + 1)
    | some d => (k, d) :: inputFacts s vis rest (k + 1)

def factOK (s : Sig) (f : Nat × Nat) : Bool :=
  (allowedAt s f.1).isEmpty || (allowedAt s f.1).contains f.2

/-- two annotated inputs bound to one type variable have one element type -/
def pairOK (s : Sig) (f g : Nat × Nat) : Bool :=
  varAt s f.1 == 0 || varAt s f.1 != varAt s g.1 || f.2 == g.2

def pairsOK (s : Sig) : List (Nat × Nat) → Bool
  | [] => true
  | f :: rest => rest.all (pairOK s f) && pairsOK s rest

def allowedOutAt (s : Sig) (k : Nat) : List Nat :=
  match s.outTypes[k]? with
  | some l => l
  | none => if s.variadicOut then s.outTypes.getLast?.getD [] else []

def varOutAt (s : Sig) (k : Nat) : Nat :=
  match s.outVars[k]? with
  | some v => v
  | none => if s.variadicOut then s.outVars.getLast?.getD 0 else 0

def outFactOK (s : Sig) (g : Nat × Nat) : Bool :=
  (allowedOutAt s g.1).isEmpty || (allowedOutAt s g.1).contains g.2

/-- an annotated output and an annotated input bound to one type variable have one element type -/
def linkOK (s : Sig) (f g : Nat × Nat) : Bool :=
  varOutAt s g.1 == 0 || varOutAt s g.1 != varAt s f.1 || f.2 == g.2

/-- the attribute's type (when the node string carries it) is the one onnx.defs declares for that name -/
def attrTypedOK (s : Sig) (a : String) : Bool :=
  match attrKind a with
  | none => true
  | some k =>
    match lookupTy (attrName a) s.attrTy with
    | none => true            -- an unknown NAME is `nodeLegalB`'s subject
    | some t => k == t

/-- every attribute onnx.defs marks `required` is present -/
def requiredOK (s : Sig) (n : Node) : Bool :=
  s.required.all (fun r => n.attrs.any (fun a => attrName a == r))

def sigTyped (s : Sig) (vis : List (String × Annot)) (n : Node) : Bool :=
  let facts := inputFacts s vis n.ins 0
  let ofacts := inputFacts s vis n.outsRaw 0
  facts.all (factOK s) && pairsOK s facts
    && ofacts.all (outFactOK s) && ofacts.all (fun g => facts.all (fun f => linkOK s f g))
    && n.attrs.all (attrTypedOK s) && requiredOK s n

/-- the declared input element types of a default-domain node satisfy the signature in force at `v` -/
def nodeTypedB (S : Schemas) (v : Nat) (vis : List (String × Annot)) (n : Node) : Bool :=
  if n.domain != "" then true
  else match lookupOp S n.op with
    | none => true            -- existence is `nodeLegalB`'s subject
    | some sigs =>
      match sigAt sigs v with
      | none => true
      | some s => sigTyped s vis n

def typesLegal (S : Schemas) (m : Model) : Bool :=
  match importVersion "" m.imports with
  | none => false
  | some v =>
    allNodesV (nodeTypedB S v) [] m.graph &&
    m.funcs.all (fun f =>
      match importVersion "" f.imports with
      | none => false
      | some fv => allNodesV (nodeTypedB S fv) [] f.asGraph)

/-! diagnostics for the driver (no theorem depends on them) -/

mutual
def collectVG (f : List (String × Annot) → Node → Option String) (outer : List (String × Annot)) :
    Graph → List String
  | .mk _ _ ns _ vi => collectVL f (vi ++ outer) ns
def collectVL (f : List (String × Annot) → Node → Option String) (vis : List (String × Annot)) :
    List Node → List String
  | [] => []
  | n :: rest => collectVN f vis n ++ collectVL f vis rest
def collectVN (f : List (String × Annot) → Node → Option String) (vis : List (String × Annot)) :
    Node → List String
  | .mk d o i u a bs =>
    (match f vis (.mk d o i u a bs) with | none => [] | some s => [s]) ++ collectVB f vis bs
def collectVB (f : List (String × Annot) → Node → Option String) (vis : List (String × Annot)) :
    List Graph → List String
  | [] => []
  | b :: bs => collectVG f vis b ++ collectVB f vis bs
end

def whyNotTyped (S : Schemas) (v : Nat) (wher : String) (vis : List (String × Annot)) (n : Node) :
    Option String :=
  if nodeTypedB S v vis n then none
  else match lookupOp S n.op with
    | none => none
    | some sigs => match sigAt sigs v with
      | none => none
      | some s =>
        let facts := inputFacts s vis n.ins 0
        let ofacts := inputFacts s vis n.outsRaw 0
        match facts.find? (fun f => !factOK s f) with
        | some f => some s!"{wher}||{n.op}|input-type input {f.1} has dtype {f.2}, not admitted by the schema since {s.since} opset={v}"
        | none =>
          if !pairsOK s facts then
            some s!"{wher}||{n.op}|type-variable inputs {facts} bound to one type variable differ (schema since {s.since}) opset={v}"
          else match ofacts.find? (fun g => !outFactOK s g) with
          | some g => some s!"{wher}||{n.op}|output-type output {g.1} has dtype {g.2}, not admitted by the schema since {s.since} opset={v}"
          | none =>
            if !ofacts.all (fun g => facts.all (fun f => linkOK s f g)) then
              some s!"{wher}||{n.op}|type-variable outputs {ofacts} and inputs {facts} bound to one type variable differ (schema since {s.since}) opset={v}"
            else match n.attrs.find? (fun a => !attrTypedOK s a) with
            | some a => some s!"{wher}||{n.op}|attribute-type {a} is not the attribute type of the schema since {s.since} ({lookupTy (attrName a) s.attrTy}) opset={v}"
            | none =>
              let miss := s.required.filter (fun r => !n.attrs.any (fun a => attrName a == r))
              some s!"{wher}||{n.op}|required-attribute {miss} missing (schema since {s.since}) opset={v}"

def explainTypes (S : Schemas) (m : Model) : List String :=
  match importVersion "" m.imports with
  | none => []
  | some v =>
    collectVG (whyNotTyped S v "main") [] m.graph ++
    m.funcs.flatMap (fun f =>
      match importVersion "" f.imports with
      | none => []
      | some fv => collectVG (whyNotTyped S fv s!"fn {f.name}") [] f.asGraph)

mutual
def collectG (f : Node → Option String) : Graph → List String
  | .mk _ _ ns _ _ => collectL f ns
def collectL (f : Node → Option String) : List Node → List String
  | [] => []
  | n :: rest => collectN f n ++ collectL f rest
def collectN (f : Node → Option String) : Node → List String
  | .mk d o i u a bs =>
    (match f (.mk d o i u a bs) with | none => [] | some s => [s]) ++ collectB f bs
def collectB (f : Node → Option String) : List Graph → List String
  | [] => []
  | b :: bs => collectG f b ++ collectB f bs
end

def whyNot (S : Schemas) (v : Nat) (imports : List String) (funcs : List Func) (wher : String)
    (n : Node) : Option String :=
  if nodeOK S v imports funcs n then none
  else if !imports.contains n.domain then some s!"{wher}|{n.domain}|{n.op}|domain-not-imported"
  else if n.domain != "" then some s!"{wher}|{n.domain}|{n.op}|call-without-definition"
  else match lookupOp S n.op with
    | none => some s!"{wher}||{n.op}|unknown-operator"
    | some sigs => match sigAt sigs v with
      | none =>
        let firstSince := sigs.foldl (fun acc s => min acc s.since) 1000000
        some s!"{wher}||{n.op}|newer-than-opset since={firstSince} opset={v}"
      | some s =>
        if s.deprecated then some s!"{wher}||{n.op}|deprecated since={s.since} opset={v}"
        else if !(decide (s.minIn ≤ n.ins.length) && decide (n.ins.length ≤ s.maxIn)) then
          some s!"{wher}||{n.op}|input-count {n.ins.length} not in {s.minIn}..{s.maxIn} (schema since {s.since}) opset={v}"
        else if !(decide (s.minOut ≤ n.outsRaw.length) && decide (n.outsRaw.length ≤ s.maxOut)) then
          some s!"{wher}||{n.op}|output-count {n.outsRaw.length} not in {s.minOut}..{s.maxOut} (schema since {s.since}) opset={v}"
        else
          let bad := n.attrs.filter (fun a => !s.attrs.contains (attrName a))
          some s!"{wher}||{n.op}|attribute {bad} not in schema since {s.since} opset={v}"

def explain (S : Schemas) (m : Model) : List String :=
  match importVersion "" m.imports with
  | none => ["main|||no-default-opset-import"]
  | some v =>
    collectG (whyNot S v (domainsOf m.imports) m.funcs "main") m.graph ++
    m.funcs.flatMap (fun f =>
      match importVersion "" f.imports with
      | none => [s!"fn {f.name}|||no-default-opset-import"]
      | some fv =>
        (if fv ≤ v then [] else [s!"fn {f.name}|||function-opset {fv} newer than model opset {v}"]) ++
        collectG (whyNot S fv (domainsOf f.imports) m.funcs s!"fn {f.name}") f.asGraph)

end J2O.C11
