/-
Shared tensor semantics (core Lean only).

A tensor is modelled *extensionally on infinite index functions*: `get` takes an index
function `Nat → Nat` of which only positions `< rank` matter for a concrete tensor, and `dim`
gives the extent of every axis.  A concrete ONNX tensor embeds by `get i := data[i 0, …, i (r-1)]`.
The benefit: layout operators become compositions of functions and the algebraic laws the
optimizer relies on (`T₂ ∘ T₁ = id`, transposes commute with broadcasting pointwise operators)
are equalities of structures, provable by `funext`, with no in-range side conditions.
The operators below are validated against numpy/ONNX Runtime on concrete tensors by the harness
(driver op `teval`).
-/
namespace J2O

structure Tensor (α : Type) where
  dtype : Nat
  rank : Nat
  dim : Nat → Nat
  get : (Nat → Nat) → α

namespace Tensor
variable {α : Type}

@[ext] theorem ext' {a b : Tensor α} (h1 : a.dtype = b.dtype) (h2 : a.rank = b.rank)
    (h3 : a.dim = b.dim) (h4 : a.get = b.get) : a = b := by
  cases a; cases b; simp_all

/-- A size-1 constant as the optimizer sees it: every extent is 1 and `get` is constant. -/
def ScalarLike (c : Tensor α) : Prop :=
  (∀ k, c.dim k = 1) ∧ (∀ i j, c.get i = c.get j)

end Tensor

/-! ### Permutations as functions -/

/-- `perm[k]` for `k < n`, identity beyond. -/
def permFn (p : List Nat) (k : Nat) : Nat := if h : k < p.length then p[k] else k

/-- position of `m` in `perm` for `m < n`, identity beyond. -/
def invFn (p : List Nat) (m : Nat) : Nat := if m < p.length then p.idxOf m else m

/-- `p` is a permutation of `0..n-1`: bounded, surjective, injective (all checked). -/
def validPerm (p : List Nat) : Bool :=
  p.all (· < p.length) && (List.range p.length).all (fun m => p.contains m) && decide p.Nodup

/-- Mirror of `_is_inverse_perm(perm1, perm2)`:
    `len(perm1) == len(perm2) and [perm1[x] for x in perm2] == list(range(n))`
    (for in-range entries; Python's negative indexing is not modelled — ONNX perms are ≥ 0). -/
def isInversePerm (p1 p2 : List Nat) : Bool :=
  p1.length == p2.length &&
    (p2.map (fun x => p1.getD x p1.length)) == List.range p2.length

/-- ONNX `Transpose(perm)`: `out.shape[k] = in.shape[perm[k]]`, `out[i] = in[j]` with
    `j[perm[k]] = i[k]`. -/
def transpose {α} (p : List Nat) (t : Tensor α) : Tensor α :=
  { dtype := t.dtype, rank := t.rank,
    dim := fun k => t.dim (permFn p k),
    get := fun i => t.get (fun m => i (invFn p m)) }

/-! ### Broadcasting pointwise operators -/

/-- operand index for output index `i` when the output has rank `r` (numpy right alignment,
    extent-1 axes read position 0). -/
def bidx {α} (a : Tensor α) (r : Nat) (i : Nat → Nat) : Nat → Nat :=
  fun k => if a.dim k = 1 then 0 else i (k + (r - a.rank))

def maxRank {α} (ts : List (Tensor α)) : Nat := ts.foldl (fun m t => max m t.rank) 0

/-- one operand's contribution to the broadcast extent of output axis `j`. -/
def bstep {α} (r j : Nat) (d : Nat) (t : Tensor α) : Nat :=
  if j < r - t.rank then d
  else if t.dim (j - (r - t.rank)) = 1 then d else t.dim (j - (r - t.rank))

def bdim {α} (ts : List (Tensor α)) (r : Nat) (j : Nat) : Nat := ts.foldl (bstep r j) 1

/-- n-ary pointwise operator with numpy broadcasting; `f` is the scalar function. -/
def pw {α} (f : List α → α) (ts : List (Tensor α)) : Tensor α :=
  let r := maxRank ts
  { dtype := match ts with | [] => 0 | t :: _ => t.dtype,
    rank := r,
    dim := bdim ts r,
    get := fun i => f (ts.map (fun t => t.get (bidx t r i))) }

/-- `Cast(to)` with scalar conversion `c : from → to → α → α`. -/
def castT {α} (c : Nat → Nat → α → α) (to : Nat) (t : Tensor α) : Tensor α :=
  { t with dtype := to, get := fun i => c t.dtype to (t.get i) }

end J2O
