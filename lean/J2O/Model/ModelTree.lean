/-
Shared model of an exported ONNX model as a tree (core Lean only; used by C03, C11, C08).

`Graph` / `Node` are a nested inductive pair: a node owns the bodies of its graph-valued
attributes (Loop/If/Scan), a graph owns its nodes.  Nesting depth is unbounded.
`Model` adds the opset imports and the function definitions (a function body is the node list
of a closed graph).  Value annotations (`Annot`) are kept per graph as an association list
`vinfo` (name ↦ annotation) – inputs, outputs, initializers and node outputs of that scope.

`Graph.at? p` addresses the scope reached from a graph by the path `p` (a list of
(node index, body index) steps); all "for every scope at any depth" statements of the three
properties quantify over such paths.  `allNodes f g` is the recursive Boolean test "`f` holds
for every node of `g` and of every nested body", with its soundness lemma `allNodes_sound`.
-/
namespace J2O.MT

/-- One dimension of a declared shape. -/
inductive Dim where
  | known (n : Nat)
  | sym (s : String)
  | unk
  deriving Repr, DecidableEq, Inhabited

/-- Declared element type (ONNX `TensorProto.DataType` code) and shape; `none` = not declared. -/
structure Annot where
  dtype : Option Nat
  dims : Option (List Dim)
  deriving Repr, DecidableEq, Inhabited

mutual
inductive Graph where
  | mk (inputs inits : List String) (nodes : List Node) (outputs : List String)
       (vinfo : List (String × Annot))
inductive Node where
  | mk (domain op : String) (ins outs attrs : List String) (bodies : List Graph)
end

instance : Inhabited Graph := ⟨.mk [] [] [] [] []⟩
instance : Inhabited Node := ⟨.mk "" "" [] [] [] []⟩

def Graph.inputs : Graph → List String | .mk i _ _ _ _ => i
def Graph.inits : Graph → List String | .mk _ t _ _ _ => t
def Graph.nodes : Graph → List Node | .mk _ _ n _ _ => n
def Graph.outputs : Graph → List String | .mk _ _ _ o _ => o
def Graph.vinfo : Graph → List (String × Annot) | .mk _ _ _ _ v => v

def Node.domain : Node → String | .mk d _ _ _ _ _ => d
def Node.op : Node → String | .mk _ o _ _ _ _ => o
def Node.ins : Node → List String | .mk _ _ i _ _ _ => i
/-- all output slots, including omitted optional ones (`""`) -/
def Node.outsRaw : Node → List String | .mk _ _ _ o _ _ => o
/-- the names a node defines (omitted optional outputs `""` define nothing) -/
def Node.outs : Node → List String | .mk _ _ _ o _ _ => o.filter (· ≠ "")
def Node.attrs : Node → List String | .mk _ _ _ _ a _ => a
def Node.bodies : Node → List Graph | .mk _ _ _ _ _ b => b

/-- Names defined by a list of nodes, in order. -/
def definedBy (ns : List Node) : List String := ns.flatMap Node.outs

structure Func where
  domain : String
  name : String
  inputs : List String
  outputs : List String
  /-- initializers owned by the body (a FunctionProto cannot carry any) -/
  inits : List String
  imports : List (String × Nat)
  nodes : List Node
  vinfo : List (String × Annot)

/-- The body of a function seen as a closed graph. -/
def Func.asGraph (f : Func) : Graph := .mk f.inputs f.inits f.nodes f.outputs f.vinfo

structure Model where
  imports : List (String × Nat)
  graph : Graph
  funcs : List Func

/-- Scope reached by one step: body `j` of node `i`. -/
def Graph.sub? (g : Graph) (i j : Nat) : Option Graph :=
  match g.nodes[i]? with
  | none => none
  | some n => n.bodies[j]?

/-- Scope reached by a path of (node index, body index) steps. -/
def Graph.at? : List (Nat × Nat) → Graph → Option Graph
  | [], g => some g
  | (i, j) :: p, g =>
    match g.sub? i j with
    | none => none
    | some b => Graph.at? p b

mutual
/-- `f` holds for every node of the graph and of every nested body (any depth). -/
def allNodes (f : Node → Bool) : Graph → Bool
  | .mk _ _ ns _ _ => allNodesL f ns
def allNodesL (f : Node → Bool) : List Node → Bool
  | [] => true
  | n :: rest => allNodesN f n && allNodesL f rest
def allNodesN (f : Node → Bool) : Node → Bool
  | .mk d o i u a bs => f (.mk d o i u a bs) && allNodesB f bs
def allNodesB (f : Node → Bool) : List Graph → Bool
  | [] => true
  | b :: bs => allNodes f b && allNodesB f bs
end

theorem allNodesL_mem (f : Node → Bool) (ns : List Node) (h : allNodesL f ns = true) :
    ∀ n ∈ ns, allNodesN f n = true := by
  induction ns with
  | nil => intro n hn; cases hn
  | cons x xs ih =>
    simp only [allNodesL, Bool.and_eq_true] at h
    intro n hn
    cases hn with
    | head => exact h.1
    | tail _ hn => exact ih h.2 n hn

theorem allNodesB_mem (f : Node → Bool) (bs : List Graph) (h : allNodesB f bs = true) :
    ∀ b ∈ bs, allNodes f b = true := by
  induction bs with
  | nil => intro b hb; cases hb
  | cons x xs ih =>
    simp only [allNodesB, Bool.and_eq_true] at h
    intro b hb
    cases hb with
    | head => exact h.1
    | tail _ hb => exact ih h.2 b hb

theorem allNodesN_self (f : Node → Bool) (n : Node) (h : allNodesN f n = true) :
    f n = true ∧ allNodesB f n.bodies = true := by
  cases n with
  | mk d o i u a bs =>
    simp only [allNodesN, Bool.and_eq_true] at h
    exact ⟨h.1, h.2⟩

theorem allNodes_nodes (f : Node → Bool) (g : Graph) (h : allNodes f g = true) :
    allNodesL f g.nodes = true := by
  cases g with
  | mk i t ns o v => simpa [allNodes, Graph.nodes] using h

theorem allNodes_sub (f : Node → Bool) (g b : Graph) (i j : Nat) (h : allNodes f g = true)
    (hs : g.sub? i j = some b) : allNodes f b = true := by
  unfold Graph.sub? at hs
  split at hs
  · cases hs
  · rename_i n hn
    have hmem : n ∈ g.nodes := List.mem_of_getElem? hn
    have h1 := allNodesL_mem f g.nodes (allNodes_nodes f g h) n hmem
    have h2 := (allNodesN_self f n h1).2
    exact allNodesB_mem f n.bodies h2 b (List.mem_of_getElem? hs)

/-- **Recursive test ⇒ every node at every depth.** -/
theorem allNodes_sound (f : Node → Bool) (g : Graph) (h : allNodes f g = true) :
    ∀ (p : List (Nat × Nat)) (g' : Graph), g.at? p = some g' → ∀ n ∈ g'.nodes, f n = true := by
  intro p
  induction p generalizing g with
  | nil =>
    intro g' hg n hn
    simp only [Graph.at?, Option.some.injEq] at hg
    subst hg
    exact (allNodesN_self f n (allNodesL_mem f g.nodes (allNodes_nodes f g h) n hn)).1
  | cons s p ih =>
    intro g' hg n hn
    obtain ⟨i, j⟩ := s
    simp only [Graph.at?] at hg
    split at hg
    · cases hg
    · rename_i b hb
      exact ih b (allNodes_sub f g b i j h hb) g' hg n hn

/-! ### walking with the visible annotations (a scope's own `vinfo` first, then the enclosing scopes') -/

/-- Scope at a path together with the annotations visible in it. -/
def Graph.atV? : List (Nat × Nat) → List (String × Annot) → Graph → Option (List (String × Annot) × Graph)
  | [], outer, g => some (g.vinfo ++ outer, g)
  | (i, j) :: p, outer, g =>
    match g.sub? i j with
    | none => none
    | some b => Graph.atV? p (g.vinfo ++ outer) b

mutual
/-- `f vis n` holds for every node of the graph and of every nested body, `vis` being the annotations
    visible in the node's scope. -/
def allNodesV (f : List (String × Annot) → Node → Bool) (outer : List (String × Annot)) : Graph → Bool
  | .mk _ _ ns _ vi => allNodesVL f (vi ++ outer) ns
def allNodesVL (f : List (String × Annot) → Node → Bool) (vis : List (String × Annot)) : List Node → Bool
  | [] => true
  | n :: rest => allNodesVN f vis n && allNodesVL f vis rest
def allNodesVN (f : List (String × Annot) → Node → Bool) (vis : List (String × Annot)) : Node → Bool
  | .mk d o i u a bs => f vis (.mk d o i u a bs) && allNodesVB f vis bs
def allNodesVB (f : List (String × Annot) → Node → Bool) (vis : List (String × Annot)) : List Graph → Bool
  | [] => true
  | b :: bs => allNodesV f vis b && allNodesVB f vis bs
end

theorem allNodesVL_mem (f : List (String × Annot) → Node → Bool) (vis : List (String × Annot))
    (ns : List Node) (h : allNodesVL f vis ns = true) : ∀ n ∈ ns, allNodesVN f vis n = true := by
  induction ns with
  | nil => intro n hn; cases hn
  | cons x xs ih =>
    simp only [allNodesVL, Bool.and_eq_true] at h
    intro n hn
    cases hn with
    | head => exact h.1
    | tail _ hn => exact ih h.2 n hn

theorem allNodesVB_mem (f : List (String × Annot) → Node → Bool) (vis : List (String × Annot))
    (bs : List Graph) (h : allNodesVB f vis bs = true) : ∀ b ∈ bs, allNodesV f vis b = true := by
  induction bs with
  | nil => intro b hb; cases hb
  | cons x xs ih =>
    simp only [allNodesVB, Bool.and_eq_true] at h
    intro b hb
    cases hb with
    | head => exact h.1
    | tail _ hb => exact ih h.2 b hb

theorem allNodesVN_self (f : List (String × Annot) → Node → Bool) (vis : List (String × Annot)) (n : Node)
    (h : allNodesVN f vis n = true) : f vis n = true ∧ allNodesVB f vis n.bodies = true := by
  cases n with
  | mk d o i u a bs =>
    simp only [allNodesVN, Bool.and_eq_true] at h
    exact ⟨h.1, h.2⟩

theorem allNodesV_nodes (f : List (String × Annot) → Node → Bool) (outer : List (String × Annot)) (g : Graph)
    (h : allNodesV f outer g = true) : allNodesVL f (g.vinfo ++ outer) g.nodes = true := by
  cases g with
  | mk i t ns o v => simpa [allNodesV, Graph.nodes, Graph.vinfo] using h

theorem allNodesV_sub (f : List (String × Annot) → Node → Bool) (outer : List (String × Annot)) (g b : Graph)
    (i j : Nat) (h : allNodesV f outer g = true) (hs : g.sub? i j = some b) :
    allNodesV f (g.vinfo ++ outer) b = true := by
  unfold Graph.sub? at hs
  split at hs
  · cases hs
  · rename_i n hn
    have hmem : n ∈ g.nodes := List.mem_of_getElem? hn
    have h1 := allNodesVL_mem f _ g.nodes (allNodesV_nodes f outer g h) n hmem
    have h2 := (allNodesVN_self f _ n h1).2
    exact allNodesVB_mem f _ n.bodies h2 b (List.mem_of_getElem? hs)

/-- **Recursive test with visible annotations ⇒ every node at every depth.** -/
theorem allNodesV_sound (f : List (String × Annot) → Node → Bool) :
    ∀ (p : List (Nat × Nat)) (outer : List (String × Annot)) (g : Graph), allNodesV f outer g = true →
      ∀ vis g', g.atV? p outer = some (vis, g') → ∀ n ∈ g'.nodes, f vis n = true
  | [], outer, g, h, vis, g', hg, n, hn => by
    simp only [Graph.atV?, Option.some.injEq, Prod.mk.injEq] at hg
    obtain ⟨rfl, rfl⟩ := hg
    exact (allNodesVN_self f _ n (allNodesVL_mem f _ g.nodes (allNodesV_nodes f outer g h) n hn)).1
  | (i, j) :: p, outer, g, h, vis, g', hg, n, hn => by
    simp only [Graph.atV?] at hg
    split at hg
    · cases hg
    · rename_i b hb
      exact allNodesV_sound f p _ b (allNodesV_sub f outer g b i j h hb) vis g' hg n hn

/-- Lookup in an association list (first match). -/
def lookup (x : String) : List (String × Annot) → Option Annot
  | [] => none
  | (k, a) :: rest => if k = x then some a else lookup x rest

def importVersion (dom : String) : List (String × Nat) → Option Nat
  | [] => none
  | (d, v) :: rest => if d = dom then some v else importVersion dom rest

/-- canonical rendering of annotations (for diffing against the Python side) -/
def Dim.render : Dim → String
  | .known n => toString n
  | .sym s => "'" ++ s ++ "'"
  | .unk => "?"

def Annot.render (a : Annot) : String :=
  let dt := match a.dtype with | none => "-" | some d => toString d
  let ds := match a.dims with
    | none => "-"
    | some l => "[" ++ ",".intercalate (l.map Dim.render) ++ "]"
  dt ++ ":" ++ ds

end J2O.MT
